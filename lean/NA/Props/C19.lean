import NA.Proofs.C19Calm3
import NA.Gen.NewPolicy
/-!
# C19 — the policy database always points to a complete, compiled policy

Property theorems only.  `prog` is the instruction list that `translate/shgen` regenerates from
`bin/newpolicy.sh` on every check; `run prog sysEmail es` replays an arbitrary history `es`
(user commits good/bad, invocations, single steps of any live invocation in any order, kills
before any command) on the model `NA/Model/NewPolicy.lean`.

The proofs are generic in the program: `NA/Proofs/C19*.lean` show that a successful
`check D prog ann` (a decidable data-flow check of locking / ordering / numbering discipline)
implies the invariants for every history; here `check` is evaluated on the regenerated program
by kernel computation (`safety_checked`, `numbering_checked`).  Moving `ln -s` before `mv`,
dropping `rm -f $CURRENT`, changing `max(..)+1`, or removing `flock` makes one of these
evaluations false.
-/
namespace NA.C19
open NA.Gen.NewPolicy

/-! ### The regenerated script passes the static checks -/

theorem safety_checked : check safety prog (infer safety prog) = true := by decide +kernel
theorem numbering_checked : check numbering prog (infer numbering prog) = true := by decide +kernel
theorem calm_checked : check calm prog (infer calm prog) = true := by decide +kernel
theorem calm_forward : forward calm prog (infer calm prog) = true := by decide +kernel

/-- `bin/newpolicy` and `bin/sudo-newpolicy` (what users and cron call) only read the database and
delegate to newpolicy.sh: shgen accepts nothing but the listed read-only command kinds, and exactly
one command starts / execs the worker. -/
theorem wrappers_only_delegate :
    (wrapper.all fun x => x.2 ∈ ["conf", "assign", "echo", "test", "cat", "wait", "flockShared", "startWorker"]) = true ∧
    (wrapper.filter fun x => x.2 == "startWorker").length = 1 ∧
    (sudoWrapper.all fun x => x.2 ∈ ["conf", "assign", "test", "execWorker"]) = true ∧
    (sudoWrapper.filter fun x => x.2 == "execWorker").length = 1 := by decide

/-! ### Invariants over all histories, kill points and interleavings -/

/-- `current` is absent or names an existing directory that holds a successful compile. -/
theorem current_absent_or_compiled (sysEmail : Bool) (es : List Event) :
    (run prog sysEmail es).g.currentOK = true := by
  have h := (inv1_run safety_checked sysEmail es).gi
  unfold G.currentOK
  cases hc : (run prog sysEmail es).g.current with
  | none => rfl
  | some n =>
    obtain ⟨d, hd⟩ := h.cur n hc
    simp [hd, h.dirs n d hd]

/-- The compiler model: `netspoc` succeeds exactly on a good tree (no file BAD); only then is the
compiled flag of `next` set. -/
theorem compile_ok_iff_good (g : G) (p : Proc) :
    (exec .compile g p).2.2 = true ↔ ∃ d c, g.next = some d ∧ d.head = some c ∧ (commitAt g.store c).good = true := by
  simp only [exec]
  cases hn : g.next with
  | none => simp
  | some d =>
    cases hh : d.head with
    | none => simp [hh]
    | some c => by_cases hg : (commitAt g.store c).good = true <;> simp [hh, hg]

/-- Whoever changes `current` (removes or re-points the link) is a live invocation that holds the
lock and whose directory `p$POLICY` exists and holds a successful compile — so a commit that does
not compile never changes `current`: neither the commit itself, nor a run that fails to compile
it (such a run never gets a compiled `p$POLICY`). -/
theorem bad_commit_never_changes_current (sysEmail : Bool) (es : List Event) (e : Event)
    (hch : (step prog (run prog sysEmail es) e).g.current ≠ (run prog sysEmail es).g.current) :
    ∃ pid p d, e = .step pid ∧ findProc (run prog sysEmail es).procs pid = some p ∧ p.alive = true ∧
      (run prog sysEmail es).g.lock = some p.pid ∧
      lookupDir (run prog sysEmail es).g.dirs p.policy = some d ∧ d.built = true :=
  current_change safety_checked (inv1_run safety_checked sysEmail es) e hch

/-- At most one invocation works on the database: two live invocations that have written or are
about to write (anything below policies/ or to the repository) are the same invocation, and it
holds the lock. -/
theorem at_most_one_worker (sysEmail : Bool) (es : List Event) (p q : Proc)
    (hp : p ∈ (run prog sysEmail es).procs) (hq : q ∈ (run prog sysEmail es).procs)
    (wp : works prog p = true) (wq : works prog q = true) :
    p = q ∧ (run prog sysEmail es).g.lock = some p.pid := by
  have hinv := inv1_run safety_checked sysEmail es
  have h1 := works_holds safety_checked hinv hp wp
  have h2 := works_holds safety_checked hinv hq wq
  rw [h1] at h2
  injection h2 with h2
  exact ⟨hinv.uniq p hp q hq h2, h1⟩

theorem strictlyDecreasing_of_pairwise : ∀ l : List Nat, l.Pairwise (· > ·) → strictlyDecreasing l = true
  | [], _ => rfl
  | [_], _ => rfl
  | a :: b :: rest, h => by
    have h1 := List.pairwise_cons.mp h
    simp only [strictlyDecreasing, Bool.and_eq_true, decide_eq_true_eq]
    exact ⟨h1.1 b (by simp), strictlyDecreasing_of_pairwise (b :: rest) h1.2⟩

/-- Policy numbers strictly increase: the numbers N of all `mv next pN` ever executed (ghost list
`hist`, newest first) are strictly decreasing, i.e. every new policy directory gets a number larger
than every number used before — for every history in which no `git clone/commit/pull --no-rebase/push` of
the script has failed and nobody rewrote the POLICY file by hand.  (The full statement is false:
`policy_numbers_strictly_increase_counterexample`.) -/
theorem policy_numbers_strictly_increase_partial (sysEmail : Bool) (es : List Event)
    (h1 : (run prog sysEmail es).g.trouble = false) (h2 : (run prog sysEmail es).g.edited = false) :
    strictlyDecreasing (run prog sysEmail es).g.hist = true :=
  strictlyDecreasing_of_pairwise _
    ((inv2_run safety_checked numbering_checked sysEmail es).2.n ⟨h1, h2⟩).incr

def stepsN (pid n : Nat) : List Event := List.replicate n (Event.step pid)

/-- Number of steps invocation `pid` needs until the command it is about to run satisfies `pred`
(so that the witnesses below do not depend on instruction indices). -/
def countUntil (pred : Cmd → Bool) (pid : Nat) : Nat → State → Nat
  | 0, _ => 0
  | fuel + 1, s =>
    match findProc s.procs pid with
    | some p =>
      if p.alive && !(((instrAt prog p.pc).map (fun i => pred i.cmd)).getD true) then
        countUntil pred pid fuel (step prog s (.step pid)) + 1
      else 0
    | none => 0

/-- first run completes (p1 current), a good commit arrives, a second invocation starts -/
def history1 : List Event := [.spawn] ++ stepsN 1 200 ++ [.commit true none true, .spawn]
/-- … and is killed right before the first command satisfying `pred` -/
def killedBefore (pred : Cmd → Bool) : List Event :=
  history1 ++ stepsN 2 (countUntil pred 2 200 (run prog false history1)) ++ [.kill 2]
/-- … a user commit lands right before `git push`, the run goes on and is killed before `ln -s`;
a third invocation runs to its end -/
def racedAndLostLink : List Event :=
  let a := history1 ++ stepsN 2 (countUntil (· == .gitPush) 2 200 (run prog false history1)) ++ [.commit true none true]
  a ++ stepsN 2 (countUntil (· == .lnCurrent) 2 200 (run prog false a)) ++ [.kill 2, .spawn] ++ stepsN 3 200

/-- … false without that hypothesis: a user commit lands between `git pull` and `git push` of the
second run (push rejected), the run is killed between `rm -f $CURRENT` and `ln -s`; the third run
computes the number 2 again, its `mv next p2` lands inside the existing p2 and it makes the OLD
directory p2 current. -/
theorem policy_numbers_strictly_increase_counterexample :
    ∃ es : List Event, strictlyDecreasing (run prog false es).g.hist = false ∧
      (run prog false es).g.edited = false :=
  ⟨racedAndLostLink, by decide +kernel⟩

/-- "The next undisturbed run makes the newest compiling revision current" is false (F-C19):
the second run is killed after `git push`, right before `mv next $POLICY`.  The database is
quiescent, the newest revision compiles, and one more undisturbed run exits 0 via `uptodate`
and leaves `current` at p1. -/
theorem next_run_promotes_newest_counterexample :
    ∃ es : List Event,
      quiescent (run prog false es) = true ∧
      (commitAt (run prog false es).g.store (run prog false es).g.remote).good = true ∧
      (run prog false es).g.staleNext = true ∧
      quiescent (runNew prog 200 (run prog false es)) = true ∧
      exitOf (runNew prog 200 (run prog false es)) (run prog false es).npid = some 0 ∧
      (runNew prog 200 (run prog false es)).g.newest = false ∧
      (runNew prog 200 (run prog false es)).g.current = some 1 :=
  ⟨killedBefore (· == .mvNextTo), by decide +kernel⟩

/-- Same root cause, wider window (F-C19b): killed before the compile of the second run. -/
theorem next_run_promotes_newest_counterexample_compile :
    ∃ es : List Event,
      quiescent (run prog false es) = true ∧
      (commitAt (run prog false es).g.store (run prog false es).g.remote).good = true ∧
      (run prog false es).g.staleNext = true ∧
      exitOf (runNew prog 200 (run prog false es)) (run prog false es).npid = some 0 ∧
      (runNew prog 200 (run prog false es)).g.newest = false :=
  ⟨killedBefore (· == .compile), by decide +kernel⟩

/-- The next undisturbed run makes the newest compiling revision current — for every history after
which the database is quiescent, the newest revision compiles, no git command of the script has
failed, nobody rewrote POLICY by hand, and there is no leftover `next` whose HEAD equals the remote
head (`staleNext`, the state both F-C19 windows leave behind: the exact complement of the
counterexamples above).  The run terminates within `prog.length + 1` commands with exit status 0. -/
theorem next_run_promotes_newest_partial (sysEmail : Bool) (es : List Event)
    (hq : quiescent (run prog sysEmail es) = true)
    (hgood : (commitAt (run prog sysEmail es).g.store (run prog sysEmail es).g.remote).good = true)
    (hstale : (run prog sysEmail es).g.staleNext = false)
    (ht : (run prog sysEmail es).g.trouble = false) (he : (run prog sysEmail es).g.edited = false) :
    quiescent (runNew prog (prog.length + 1) (run prog sysEmail es)) = true ∧
    exitOf (runNew prog (prog.length + 1) (run prog sysEmail es)) (run prog sysEmail es).npid = some 0 ∧
    (runNew prog (prog.length + 1) (run prog sysEmail es)).g.newest = true :=
  promotes_of_checks safety_checked numbering_checked calm_checked calm_forward sysEmail es hq hgood hstale ht he

/-! Non-vacuity: histories with bad commits, reverts, kills and a second invocation meet the
hypotheses of the `_partial` theorems. -/
example :
    let es : List Event := [.spawn] ++ stepsN 1 200 ++ [.commit false none true, .spawn] ++ stepsN 2 30 ++ [.spawn] ++
      stepsN 3 12 ++ stepsN 2 300 ++ [.commit true none true, .spawn] ++ stepsN 4 20 ++ [.kill 4, .commit true none false]
    quiescent (run prog false es) = true ∧
    (commitAt (run prog false es).g.store (run prog false es).g.remote).good = true ∧
    (run prog false es).g.staleNext = false ∧ (run prog false es).g.trouble = false ∧
    (run prog false es).g.edited = false ∧ (run prog false es).g.hist = [2, 1] := by decide +kernel

def obligations : List Lean.Name := [
  ``safety_checked, ``numbering_checked, ``calm_checked, ``calm_forward, ``wrappers_only_delegate,
  ``next_run_promotes_newest_partial,
  ``current_absent_or_compiled, ``compile_ok_iff_good, ``bad_commit_never_changes_current, ``at_most_one_worker,
  ``policy_numbers_strictly_increase_partial, ``policy_numbers_strictly_increase_counterexample,
  ``next_run_promotes_newest_counterexample, ``next_run_promotes_newest_counterexample_compile]

end NA.C19
