import NA.Proofs.C07
import NA.Gen.CiscoFacts
/-!
# C07 — configuration outside Netspoc's scope is never deleted or altered (Cisco share)

`deleteUnused w` is the model of the final clean-up of `cisco/diff.go` on a table of device commands with
the marks the engine has set (`needed`, `toDelete`) — EXECUTED against the real `(*State).deleteUnused`
on every run (hook `cisco.VerifDeleteUnused`, stream "deleteUnused on a synthetic command table" of
harness/asacfg).  That the engine sets the marks right is the business of the engine models
(`NA.Props.F1`, `NA.Props.F2`, `NA.Props.VpnGraph`: `graph_unmanaged_untouched`, …).

For every table and every terminating run:
* `deleted_only_candidates`: every command it removes is not needed and is marked to-delete or filed under
  a generated (`-DRC-`) name, and its entry is not in `still w`;
* `protected_never_deleted` (with `still_complete`): an entry reachable — over a reference walk of ANY
  length — from a command that is not needed, not marked and not generated ("initially wasn't created by
  Netspoc"), through commands that are not needed, is in no round; the `|w|+1` levels the model follows
  are the whole closure (cycles are cut out of the walk, a duplicate-free walk has at most `|w|` entries);
* `untouched_command_never_deleted`: such a command itself is never removed unless its entry is removed as
  a whole by `clear configure` (`clear_wipes_whole_entry` is the kernel-evaluated witness: one marked and
  one untouched command under one name that has `clearConf` — the engine never marks the commands of
  such an entry differently);
* `deleted_after_referrers` (C08): when an entry is removed, nothing removed in the same or a later round
  references it; `all_candidates_deleted`: no candidate outside `still w` is left behind.
The `*_guard*` theorems are about facts REGENERATED from the current source on every run.
PAN-OS (`panos_outside_vsys_untouched`) and NSX (`nsx_scope`) are in `NA.Props.C03` / `NA.Props.C04`.
-/
namespace NA.DelUnused

/-- Every command a terminating run removes is a candidate, and its entry is not protected. -/
theorem deleted_only_candidates (w : World) (rs : List (List Item)) (h : deleteRounds w = some rs) :
    ∀ r ∈ rs, ∀ it ∈ r, ∃ o ∈ w, it.id = o.id ∧ o.id ∉ still w ∧
      ∀ p ∈ it.del, o.cmds[p.2]? = some p.1 ∧ p.1.needed = false ∧ (p.1.toDelete = true ∨ o.tagged = true) := by
  intro r hr it hit
  obtain ⟨o, ho, hid, _, _, hdel, _, hst⟩ := mem_items0 w it ((rounds_sound _ _ _ h).1 r hr it hit)
  refine ⟨o, ho, hid, hst, ?_⟩
  intro p hp
  rw [hdel, List.mem_filter] at hp
  have hidx := List.mem_zipIdx_iff_getElem?.mp hp.1
  have hd := hp.2
  simp only [isDel, Bool.and_eq_true, Bool.not_eq_true', Bool.or_eq_true] at hd
  exact ⟨hidx, hd.1, hd.2⟩

/-- The closure is complete: whatever a reference walk of any length reaches from a command "not created
by Netspoc" through not-needed commands is in `still w`. -/
theorem still_complete (w : World) (o : Obj) (c : Cmd) (r x : Nat) (l : List Nat) (ho : o ∈ w)
    (hc : c ∈ o.cmds) (hu : isUntouched o c = true) (hr : r ∈ c.followRefs) (hw : Walk w r x l) :
    x ∈ still w :=
  still_of_walk (mem_roots w o c r ho hc hu hr) hw

/-- … and therefore in no deletion round. -/
theorem protected_never_deleted (w : World) (rs : List (List Item)) (h : deleteRounds w = some rs)
    (o : Obj) (c : Cmd) (r x : Nat) (l : List Nat) (ho : o ∈ w) (hc : c ∈ o.cmds)
    (hu : isUntouched o c = true) (hr : r ∈ c.followRefs) (hw : Walk w r x l) :
    ∀ rd ∈ rs, ∀ it ∈ rd, it.id ≠ x := by
  intro rd hrd it hit heq
  obtain ⟨o', _, hid, hst, _⟩ := deleted_only_candidates w rs h rd hrd it hit
  exact hst (hid ▸ heq ▸ still_complete w o c r x l ho hc hu hr hw)

/-- A command that is needed, or neither marked nor generated, is never among the commands removed by a
`no …` deletion (`huniq`: the entry's id is not used twice in the table). -/
theorem untouched_command_never_deleted (w : World) (rs : List (List Item)) (h : deleteRounds w = some rs)
    (o : Obj) (j : Nat) (c : Cmd) (huniq : ∀ o' ∈ w, o'.id = o.id → o' = o) (hc : o.cmds[j]? = some c)
    (hk : c.needed = true ∨ isUntouched o c = true) :
    ∀ rd ∈ rs, ∀ it ∈ rd, it.id = o.id → (c, j) ∉ it.del := by
  intro rd hrd it hit hid hmem
  obtain ⟨o', ho', hid', _, hall⟩ := deleted_only_candidates w rs h rd hrd it hit
  have hoo : o' = o := huniq o' ho' (hid' ▸ hid)
  subst hoo
  obtain ⟨_, hn, hd⟩ := hall (c, j) hmem
  rcases hk with hk | hk
  · rw [hn] at hk; exact absurd hk (by decide)
  · simp only [isUntouched, Bool.and_eq_true, Bool.not_eq_true', Bool.or_eq_false_iff] at hk
    rcases hd with hd | hd
    · rw [hk.2.1] at hd; exact absurd hd (by decide)
    · rw [hk.2.2] at hd; exact absurd hd (by decide)

/-- C08: when an entry is removed, nothing that is removed in the same or a later round references it. -/
theorem deleted_after_referrers (w : World) (rs pre post : List (List Item)) (r : List Item)
    (h : deleteRounds w = some rs) (hsplit : rs = pre ++ r :: post) :
    ∀ x ∈ r, ∀ y ∈ (r :: post).flatten, x.id ∉ y.refs :=
  (rounds_sound _ _ _ h).2.2 pre r post hsplit

/-- No candidate outside `still w` is left behind. -/
theorem all_candidates_deleted (w : World) (rs : List (List Item)) (h : deleteRounds w = some rs) :
    ∀ it ∈ items0 w, ∃ r ∈ rs, it ∈ r :=
  (rounds_sound _ _ _ h).2.1

/-! Non-vacuity: a needed ACL with its group, a marked ACL with its group, a left-over generated object,
a manual object protecting (over two hops) generated objects, an entry with a marked and an untouched line. -/
def exW : World := [
  ⟨1, 1, false, true, [⟨true, false, [2], []⟩]⟩,                 -- ACL in use, references group 2
  ⟨2, 2, false, false, [⟨true, true, [], []⟩]⟩,                  -- group shared with a deleted ACL: marked, but needed
  ⟨3, 1, false, true, [⟨false, true, [4], []⟩, ⟨false, true, [], []⟩]⟩,  -- old ACL (two lines), marked; references group 4
  ⟨4, 2, false, false, [⟨false, true, [], []⟩]⟩,                 -- its group
  ⟨5, 2, true, false, [⟨false, false, [], []⟩]⟩,                 -- left-over generated object
  ⟨6, 3, false, false, [⟨false, false, [], [⟨false, [7]⟩]⟩]⟩,    -- manual object, a sub-command references 7
  ⟨7, 3, true, false, [⟨false, false, [8], []⟩]⟩,                -- generated, but protected by 6
  ⟨8, 2, true, false, [⟨false, false, [], []⟩]⟩,                 -- generated, protected over two hops
  ⟨9, 4, false, false, [⟨false, true, [], []⟩, ⟨false, false, [], []⟩]⟩] -- one marked, one untouched command
example : deleteUnused exW = some ["clear configure kind1 n003", "no kind2 n005-DRC-0 line0",
    "no kind4 n009 line0", "no kind2 n004 line0"] := by decide
example : still exW = [7, 8] := by decide
example : Walk exW 7 8 [7, 8] :=
  Walk.cons ⟨⟨7, 3, true, false, [⟨false, false, [8], []⟩]⟩, by decide, by decide⟩
    ⟨⟨7, 3, true, false, [⟨false, false, [8], []⟩]⟩, ⟨false, false, [8], []⟩, by decide, by decide, by decide⟩
    (Walk.single ⟨⟨8, 2, true, false, [⟨false, false, [], []⟩]⟩, by decide, by decide⟩)

/-- `clear configure` removes an entry as a whole: the model (and the code) rely on the engine marking the
commands of such an entry alike. -/
theorem clear_wipes_whole_entry :
    deleteUnused [⟨1, 1, false, true, [⟨false, true, [], []⟩, ⟨false, false, [], []⟩]⟩] =
      some ["clear configure kind1 n001"] := by decide

/-! ### Facts regenerated from the current source -/
open NA.Gen.CiscoFacts

/-- `aaa-server`, `ldap attribute-map` and `interface` definitions are never added, deleted or marked. -/
theorem fixed_types_guarded :
    earlyReturnCases = [("addCmd", ["aaa-server", "interface", "ldap attribute-map"]),
                        ("delCmds", ["interface"]),
                        ("markDeleted", ["aaa-server", "interface", "ldap attribute-map"])] := by decide

/-- Routes of a VRF / address family for which the target specifies none are only reported, not deleted. -/
theorem routes_untouched_guard :
    "vrf := dstOfRoute(c).vrf; chgVRF[vrf]" ∈ diffRoutesConds ∧ "!seenVRF[ipv+vrf]" ∈ diffRoutesConds := by decide

/-- An interface unknown to Netspoc is protected (`markNeeded`, removal from the compared lists)
whether or not it is shut down: the `!shut` test guards only the warning (it is a separate, nested
`if`, not part of the `!found` condition). -/
theorem unknown_interface_protected_regardless_of_shutdown :
    checkASAInterfacesConds =
      ["len(tokens) == 5", "name != \"\"", "_, found := bIntf2cmd[name]; !found", "!shut",
       "m := s.a.lookup[prefix]; m != nil", "len(l) != 0", "_, found := aIntf2cmd[name]; !found"] := by decide

end NA.DelUnused

namespace NA.C07
def obligations : List Lean.Name := [
  ``NA.DelUnused.deleted_only_candidates, ``NA.DelUnused.still_complete,
  ``NA.DelUnused.protected_never_deleted, ``NA.DelUnused.untouched_command_never_deleted,
  ``NA.DelUnused.deleted_after_referrers, ``NA.DelUnused.all_candidates_deleted,
  ``NA.DelUnused.clear_wipes_whole_entry,
  ``NA.DelUnused.fixed_types_guarded, ``NA.DelUnused.routes_untouched_guard,
  ``NA.DelUnused.unknown_interface_protected_regardless_of_shutdown]
end NA.C07
