import NA.Proofs.C07
import NA.Gen.CiscoFacts
/-!
# C07 — configuration outside Netspoc's scope is never deleted or altered (Cisco share)

`deleteUnused w` is the model of the final clean-up of `cisco/diff.go` on an abstract object graph.
* `deleted_only_candidates`: every object it removes is not needed and is (marked to-delete or
  carries the generated-name tag), and is not in `still w` (reachable from an untouched untagged
  object through not-needed objects) — for every world.
* `still_contains_direct_refs` / `still_closed_step`: `still` really contains what untouched objects
  reference, and is closed under following references of not-needed objects (up to the fuel).
* `referencing_candidates_go_too`: a removed object is never left behind referenced by a candidate
  that stays.
* the `*_guard*` theorems are about facts REGENERATED from the current source on every run: the
  conditions of `deleteUnused`, the early returns for `aaa-server`, `ldap attribute-map`, `interface`
  in `addCmd`/`delCmds`/`markDeleted`, and the `chgVRF` guard of `diffRoutes`.
PAN-OS (`pan_scope`) and NSX (`nsx_scope`) are in `NA.Props.C03` / `NA.Props.C04`.
-/
namespace NA.DelUnused

theorem deleted_only_candidates (w : World) (rs : List (List Nat)) (h : deleteUnused w = some rs) :
    ∀ r ∈ rs, ∀ x ∈ r, ∃ o ∈ w, o.id = x ∧ o.needed = false ∧ (o.toDelete = true ∨ o.tagged = true) ∧
      x ∉ still w := by
  intro r hr x hx
  obtain ⟨o, ho, hid⟩ := (rounds_sound _ _ _ h).1 r hr x hx
  simp only [toDelete0, List.mem_filter, candidate, Bool.and_eq_true, Bool.not_eq_true',
    Bool.or_eq_true, List.contains_eq_mem, decide_eq_false_iff_not] at ho
  exact ⟨o, ho.1, hid, ho.2.1.1, ho.2.1.2, hid ▸ ho.2.2⟩

theorem referencing_candidates_go_too (w : World) (rs : List (List Nat)) (h : deleteUnused w = some rs) :
    ∀ r ∈ rs, ∀ x ∈ r, ∀ o ∈ toDelete0 w, x ∈ o.refs → ∃ r' ∈ rs, o.id ∈ r' :=
  (rounds_sound _ _ _ h).2

theorem mem_stepRefs (w : World) (front : List Nat) (i r : Nat) (o t : Obj) (hi : i ∈ front)
    (ho : find w i = some o) (hr : r ∈ o.refs) (ht : find w r = some t) (hn : t.needed = false) :
    r ∈ stepRefs w front := by
  simp only [stepRefs, List.mem_flatMap]
  exact ⟨i, hi, by simp [ho, List.mem_filter, hr, ht, hn]⟩

/-- What an untouched object references directly (and that is not needed) is protected. -/
theorem still_contains_direct_refs (w : World) (o t : Obj) (r : Nat) (ho : o ∈ w) (hu : untouched o = true)
    (hf : find w o.id = some o) (hr : r ∈ o.refs) (ht : find w r = some t) (hn : t.needed = false) :
    r ∈ still w := by
  simp only [still, stillFrom, List.mem_append]
  left
  exact mem_stepRefs w _ o.id r o t (by simp only [List.mem_map, List.mem_filter]; exact ⟨o, ⟨ho, hu⟩, rfl⟩) hf hr ht hn

/-- … and `stillFrom` keeps following references of not-needed objects while fuel lasts. -/
theorem still_closed_step (w : World) (n : Nat) (front : List Nat) (i r : Nat) (o t : Obj)
    (hi : i ∈ stepRefs w front) (ho : find w i = some o) (hr : r ∈ o.refs) (ht : find w r = some t)
    (hn : t.needed = false) : r ∈ stillFrom w (n + 2) front := by
  simp only [stillFrom, List.mem_append]
  right; left
  exact mem_stepRefs w _ i r o t hi ho hr ht hn

/-! Non-vacuity: a world with a needed object, a marked one, a tagged left-over, an untouched manual
object protecting what it references. -/
def exW : World := [
  ⟨1, true, false, false, [2]⟩,      -- ACL in use, references group 2
  ⟨2, true, true, false, []⟩,       -- group shared with a deleted ACL: marked, but needed
  ⟨3, false, true, false, [4]⟩,     -- old ACL, marked; references group 4
  ⟨4, false, true, false, []⟩,      -- its group
  ⟨5, false, false, true, []⟩,      -- left-over generated object
  ⟨6, false, false, false, [7]⟩,    -- manual object …
  ⟨7, false, false, true, []⟩]      -- … referencing a tagged object: protected
example : deleteUnused exW = some [[3, 5], [4]] := by decide

/-! ### Facts regenerated from the current source -/
open NA.Gen.CiscoFacts

/-- The first conditions of `deleteUnused` are the ones the model's `candidate` / `follow` implement. -/
theorem deleteUnused_guards_as_modelled :
    deleteUnusedConds.take 4 =
      ["!c.needed", "c.toDelete || strings.Contains(c.name, \"-DRC-\")", "!c2.needed", "!c2.needed"] ∧
    "stillReferenced[p]" ∈ deleteUnusedConds ∧ "isReferenced[pair]" ∈ deleteUnusedConds := by decide

/-- `aaa-server`, `ldap attribute-map` and `interface` definitions are never added, deleted or marked. -/
theorem fixed_types_guarded :
    earlyReturnCases = [("addCmd", ["aaa-server", "ldap attribute-map", "interface"]),
                        ("delCmds", ["interface"]),
                        ("markDeleted", ["aaa-server", "ldap attribute-map", "interface"])] := by decide

/-- Routes of a VRF / address family for which the target specifies none are only reported, not deleted. -/
theorem routes_untouched_guard :
    "vrf := dstOfRoute(c).vrf; chgVRF[vrf]" ∈ diffRoutesConds ∧ "!seenVRF[ipv+vrf]" ∈ diffRoutesConds := by decide

/-- The protecting closure of `deleteUnused` calls itself on every not-needed object it reaches
(references are followed transitively, as `stillFrom` in the model does), for referenced objects
and for sub-commands. -/
theorem deleteUnused_follows_transitively :
    deleteUnusedFollowCalls = ["follow(c2)", "follow(c2)", "follow(c)", "follow(c)", "follow(sc)"] := by decide

/-- An interface unknown to Netspoc is protected (`markNeeded`, removal from the compared lists)
whether or not it is shut down: the `!shut` test guards only the warning (it is a separate, nested
`if`, not part of the `!found` condition). -/
theorem unknown_interface_protected_regardless_of_shutdown :
    checkASAInterfacesConds =
      ["len(tokens) == 5", "name != \"\"", "_, found := bIntf2cmd[name]; !found", "!shut",
       "m := s.a.lookup[prefix]; m != nil", "len(l) != 0", "_, found := aIntf2cmd[name]; !found"] := by decide

end NA.DelUnused

namespace NA.C07
def obligations : List Lean.Name := [
  ``NA.DelUnused.deleted_only_candidates, ``NA.DelUnused.referencing_candidates_go_too,
  ``NA.DelUnused.still_contains_direct_refs, ``NA.DelUnused.still_closed_step,
  ``NA.DelUnused.deleteUnused_guards_as_modelled, ``NA.DelUnused.fixed_types_guarded,
  ``NA.DelUnused.routes_untouched_guard, ``NA.DelUnused.deleteUnused_follows_transitively,
  ``NA.DelUnused.unknown_interface_protected_regardless_of_shutdown]
end NA.C07
