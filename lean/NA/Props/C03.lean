import NA.Proofs.C03Plan
import NA.Proofs.C03Spec
import NA.Proofs.C03Members
import NA.Proofs.C03Groups
import NA.Proofs.C03Marks
import NA.Model.PanOsOld
import NA.Proofs.C03Device
import NA.Proofs.C03GrpConv
/-!
# C03 — PAN-OS approve converges to the Netspoc-equivalent rulebase
(with the PAN-OS theorems of C07, C08, C10; names prefixed `pan_`)

Property theorems only.  `planVsys diff a b` is the model of `diffConfig(a, b)` (tied to the real
planner on every run), `planDevice` the model of `GetChanges`; `exec` / `execAll` / `execDev` is
the strict candidate tree of the device; `diff` is ANY function that returns valid normalised
edit scripts (`GoodDiffer`; `myers.Diff` is validated on every call the harness observes).
Numbers of rules, members, groups, vsys are unbounded everywhere.
-/
namespace NA.PanOs

/-- Delete everything, insert everything: a (bad but) valid and normalised script for every pair. -/
def trivialDiff : Differ := fun n m _ =>
  if n = 0 then [⟨0, 0, 0, m⟩] else if m = 0 then [⟨0, n, 0, 0⟩] else [⟨0, n, 0, 0⟩, ⟨n, n, 0, m⟩]

/-- Non-vacuity of `GoodDiffer`. -/
theorem trivialDiff_good : GoodDiffer trivialDiff := by
  intro n m eq
  unfold trivialDiff
  by_cases hn : n = 0
  · subst hn
    simp [validScript, validFrom, normalised, Range.isInsert]
  · by_cases hm : m = 0
    · subst hm
      simp [hn, validScript, validFrom, normalised, Range.isDelete]
    · have hn' : (n == 0) = false := by simpa using hn
      have hm' : (0 == m) = false := by
        have : 0 ≠ m := fun e => hm e.symm
        simpa using this
      have h0n : (0 == n) = false := by
        have : 0 ≠ n := fun e => hn e.symm
        simpa using this
      simp [hn, hm, validScript, validFrom, normalised, Range.isInsert, Range.isDelete, Range.op, h0n, hm']

/-! ## Rule order (`pan_rules_converge`) -/

/-- **Rules converge.**  For every device vsys `a` with distinct rule names, every target `b`
with distinct rule names, and every valid normalised edit script: the order-relevant requests of
the plan (deletes in range order, `set` of every inserted rule deferred to the end and followed
by `move … where=before <next surviving rule>`) are all applicable in sequence, and they turn
the device's rule sequence into the target's (`targetOrder`: device name at kept positions, new
name at inserted positions, one entry per target rule). -/
theorem pan_rules_converge (diff : Differ) (hd : GoodDiffer diff) (a b : Vsys)
    (ha : (ruleNames a.rules).Nodup) (hb : (ruleNames b.rules).Nodup) :
    runOrd (ruleNames a.rules) ((planVsys diff a b).filterMap ordOf) =
        some (targetOrder (ruleNames a.rules) (newRuleNames a b) (ruleScript diff a b)) ∧
      (targetOrder (ruleNames a.rules) (newRuleNames a b) (ruleScript diff a b)).length =
        b.rules.length := by
  obtain ⟨eq, hv, hn⟩ := ruleScript_good diff hd a b
  have hlenB := newRuleNames_length a b
  have hnd : (ruleNames a.rules ++ newRuleNames a b).Nodup :=
    uniqNames_nodup_append suffixInj _ _ ha hb
  constructor
  · rw [planVsys_ord]
    exact order_converges _ _ _ hv hn hnd
  · unfold validScript at hv
    rw [Bool.or_eq_true] at hv
    rcases hv with hv | hv
    · have := targetOrder_length (ruleNames a.rules) (newRuleNames a b) _ 0 0 hv
      simpa [hlenB] using this
    · simp only [Bool.and_eq_true, decide_eq_true_eq, beq_iff_eq] at hv
      obtain ⟨⟨_, hm0⟩, hrs⟩ := hv
      rw [hrs]
      have hk2 : (⟨0, 0, 0, (newRuleNames a b).length⟩ : Range).kind = .ins := by
        have : (0 == (newRuleNames a b).length) = false := by
          have : 0 ≠ (newRuleNames a b).length := by omega
          simpa using this
        simp [Range.kind, Range.isDelete, Range.isInsert, this]
      have hk1 : (⟨0, (ruleNames a.rules).length, 0, 0⟩ : Range).kind = .del := by
        simp [Range.kind, Range.isDelete]
      simp only [nothingCommon, targetOrder, hk1, hk2]
      simp [List.extract, hlenB]

/-- … on the strict device: executing the plan, the rule names after the accepted part are
those the order operations give; if the whole plan is accepted the device carries the target's
rule sequence; and whatever stops the run, it is never a missing rule, a taken rule name or a
missing move destination (the C08 share of the rule order). -/
theorem pan_rules_converge_on_device (diff : Differ) (hd : GoodDiffer diff)
    (sh : Shared) (a b : Vsys) (ha : (ruleNames a.rules).Nodup) (hb : (ruleNames b.rules).Nodup) :
    ((execAll sh a (planVsys diff a b)).2.2 = none →
        ruleNames (execAll sh a (planVsys diff a b)).1.rules =
          targetOrder (ruleNames a.rules) (newRuleNames a b) (ruleScript diff a b)) ∧
      (∀ e, (execAll sh a (planVsys diff a b)).2.2 = some e → orderError e = false) := by
  obtain ⟨hrun, _⟩ := pan_rules_converge diff hd a b ha hb
  constructor
  · intro hnone
    have hk := ((execAll_count sh (planVsys diff a b) a).2).mp hnone
    have := execAll_ord sh (planVsys diff a b) a
    rw [hk, List.take_length, hrun] at this
    exact (Option.some.inj this).symm
  · intro e he
    exact execAll_no_order_error sh _ a _ hrun e he

/-! ## Member lists (`pan_members_converge`) -/

/-- **Member lists converge, both branches of the heuristic.**  `la` is the member list on the
device (source or destination of rule `n`, or the members of a group), `lb` the target's; no
element is an address-group of either side (Netspoc's lists: addresses only; lists holding
groups: see F-C03e), no element twice.  Then for any valid script:
* if the heuristic `2·d > u + 1` says "replace", `equalizeList` sends exactly one `edit` with
  the target list, and the device list becomes `lb`;
* otherwise it sends one `delete` per member of the delete ranges and one `set` with all members
  of the insert ranges; the device accepts every `delete` (the member is there) and the list
  becomes kept ++ inserted, a permutation of `lb`.
In both cases nothing else of the planner state changes. -/
theorem pan_members_converge (diff : Differ) (hd : GoodDiffer diff) (fuel : Nat) (st : St)
    (la lb : List String) (n : String) (f : Fld)
    (hA : ∀ x ∈ la, st.aGrpIdx x = none) (hB : ∀ y ∈ lb, st.bGrpIdx y = none)
    (hla : la.Nodup) (hlb : lb.Nodup) :
    ∃ cs l', equalizeList diff (fuel + 1) st la lb n f = st.emitAll cs ∧
      runMem la (cs.filterMap memOf) = some l' ∧ l'.Perm lb ∧
      (replaceInstead la.length (deletedCount (diff la.length lb.length
          (fun i j => memberEq st (la.getD i "") (lb.getD j "")))) = true →
        cs = [.editList n f lb] ∧ l' = lb) := by
  obtain ⟨hv, _⟩ := hd la.length lb.length (fun i j => memberEq st (la.getD i "") (lb.getD j ""))
  have hbound := validScript_bounds hv
  unfold equalizeList
  rw [hasEqLists_plain diff fuel st la lb (.rule n f) hA hB hbound]
  cases hrep : replaceInstead la.length (deletedCount (diff la.length lb.length
      (fun i j => memberEq st (la.getD i "") (lb.getD j ""))))
  · -- incremental
    simp only [Bool.false_eq_true, if_false]
    have hvf := validScript_incremental hv hrep
    obtain ⟨hrun, hperm⟩ := members_incremental la lb _ (memberEq_plain st la lb hA hB) _ hvf hla hlb
    refine ⟨_, _, rfl, ?_, hperm, by intro h; cases h⟩
    rw [listCmds_memOf]
    exact hrun
  · -- replace
    simp only [if_true, Bool.false_eq_true, if_false, adaptGroups_plain st lb hB]
    refine ⟨[.editList n f lb], lb, ?_, rfl, List.Perm.refl _, fun _ => ⟨rfl, rfl⟩⟩
    simp [St.emit, St.emitAll]

/-- The same for the member list of an address-group `g` that is equalised in place
(`hasEqualizedLists` on the path of the group): `true` is answered exactly in the incremental
branch, with the same requests (`delete …/static/member`, `set …/static`). -/
theorem pan_group_members_converge (diff : Differ) (hd : GoodDiffer diff) (fuel : Nat) (st : St)
    (la lb : List String) (g : String)
    (hA : ∀ x ∈ la, st.aGrpIdx x = none) (hB : ∀ y ∈ lb, st.bGrpIdx y = none)
    (hla : la.Nodup) (hlb : lb.Nodup)
    (hok : (hasEqLists diff (fuel + 1) st la lb (.group g)).1 = true) :
    ∃ cs l', (hasEqLists diff (fuel + 1) st la lb (.group g)).2 = st.emitAll cs ∧
      runMem la (cs.filterMap memOf) = some l' ∧ l'.Perm lb := by
  obtain ⟨hv, _⟩ := hd la.length lb.length (fun i j => memberEq st (la.getD i "") (lb.getD j ""))
  have hbound := validScript_bounds hv
  rw [hasEqLists_plain diff fuel st la lb (.group g) hA hB hbound] at hok ⊢
  revert hok
  cases hrep : replaceInstead la.length (deletedCount (diff la.length lb.length
      (fun i j => memberEq st (la.getD i "") (lb.getD j ""))))
  · intro _
    simp only [Bool.false_eq_true, if_false]
    have hvf := validScript_incremental hv hrep
    obtain ⟨hrun, hperm⟩ := members_incremental la lb _ (memberEq_plain st la lb hA hB) _ hvf hla hlb
    refine ⟨_, _, rfl, ?_, hperm⟩
    rw [listCmds_memOf]
    exact hrun
  · intro hok
    simp at hok

/-! ## Reuse of groups (`pan_group_reuse_sound`) -/

/-- **Group reuse is sound.**  `findGroupOnDevice` names a device group for a target group only
if that device group is not yet `needed` — neither claimed for another target group nor changed
by this plan — and its member list is identical to the target group's; it is the first such
group; the only effect is that the device group becomes `needed` (it is never removed and never
offered again) and the target group is not transferred but known under the device name.
Otherwise no such device group exists and nothing changes.  And a device group that is
`needed` is never changed by `hasEqualizedGroups`, which answers `true` for it only on behalf of
the target group it was claimed for. -/
theorem pan_group_reuse_sound (st : St) (gbi : Nat) :
    (let ms := (st.bGrp[gbi]?.map (·.g.members)).getD []
     (∃ i ga, st.aGrp[i]? = some ga ∧ ga.needed = false ∧ ga.g.members = ms ∧
        (∀ j, j < i → ∀ g, st.aGrp[j]? = some g → ¬ (g.needed = false ∧ g.g.members = ms)) ∧
        findGroupOnDevice st gbi = (ga.g.name, { st with
          aGrp := modAt st.aGrp i (fun g => { g with needed := true }),
          bGrp := modAt st.bGrp gbi (fun g => { g with needed := false, onDev := ga.g.name }) })) ∨
     ((∀ g ∈ st.aGrp, ¬ (g.needed = false ∧ g.g.members = ms)) ∧ findGroupOnDevice st gbi = ("", st))) ∧
    (∀ (recur : St → List String → List String → MPath → Bool × St) (gai : Nat),
      (st.aGrp[gai]?.getD default).needed = true →
        (eqGroups recur st gai gbi).2 = st ∧
        ((eqGroups recur st gai gbi).1 = true →
          (st.bGrp[gbi]?.getD default).onDev = (st.aGrp[gai]?.getD default).g.name)) :=
  ⟨findGroupOnDevice_sound st gbi, fun recur gai h =>
    ⟨eqGroups_needed_unchanged recur st gai gbi h, fun ht => (eqGroups_needed_true recur st gai gbi h ht).1⟩⟩

/-! ## Generated names (`pan_uniq_names`) -/

/-- **Generated names are fresh and pairwise distinct** (after the repair 86e0d84): the new
names of the target's rules (resp. groups) avoid every name of the device, and no two target
entries get the same name — provided the target's own names are distinct. -/
theorem pan_uniq_names (taken names : List String) (hnd : names.Nodup) :
    (∀ n ∈ uniqNames taken names, n ∉ taken) ∧ (uniqNames taken names).Nodup ∧
      (uniqNames taken names).length = names.length :=
  uniqNames_spec suffixInj taken names hnd

/-- The statement is false of the loop as it was before the repair (new names were checked
against the device's names only): device rule `x`, target rules `x` and `x-1` — both end up as
`x-1` (replayed on the real planner: corpus:F-C03c). -/
theorem pan_uniq_names_counterexample :
    ∃ taken names : List String, names.Nodup ∧ ¬ (uniqNamesOld taken names).Nodup :=
  ⟨["x"], ["x", "x-1"], by decide, by decide⟩

/-- What held before the repair: every new name avoids the device's names. -/
theorem pan_uniq_names_partial (taken names : List String) :
    ∀ n ∈ uniqNamesOld taken names, n ∉ taken := by
  intro n hn
  simp only [uniqNamesOld, List.mem_map] at hn
  obtain ⟨x, _, rfl⟩ := hn
  split
  · exact freshName_not_mem suffixInj taken x
  · rename_i h; simpa using h

/-! ## Shape of the plan (`pan_objects_before_rules`, `pan_removals_last`) -/

/-- **Objects first, removals last.**  The plan is: definitions of objects (only `set` / `edit`
of addresses, address-groups, services, service-groups), then the requests on rules and member
lists (none of which defines or removes an address, service or service-group or removes a
group), then removals of objects (only those). -/
theorem pan_objects_before_rules (diff : Differ) (a b : Vsys) :
    ∃ t m r, planVsys diff a b = t ++ m ++ r ∧
      (∀ c ∈ t, c.isTransfer = true) ∧ (∀ c ∈ m, c.isRuleCmd = true) ∧ (∀ c ∈ r, c.isRemoval = true) := by
  refine ⟨_, _, _, rfl, transferCmds_kind _, ?_, removeCmds_kind _⟩
  exact planState_out_kind diff a b

/-- **Removals come last and spare what the target still names.**  Every removal is one of the
last requests (`pan_objects_before_rules`), and no device address is removed that a rule of the
target names in its source or destination as an address (not as a group) — whatever the device
looks like, whatever the script.  (That the objects removed are unreferenced ON THE DEVICE at that
moment follows from the convergence of all lists; that part is checked by the oracle: the strict
device refuses the removal of a referenced object.) -/
theorem pan_removals_last_unreferenced (diff : Differ) (a b : Vsys)
    (ha : (a.addrs.map (·.name)).Nodup) (r : Rule) (x : String) (hr : r ∈ b.rules)
    (hx : x ∈ r.src ∨ x ∈ r.dst) (hg : ∀ g ∈ b.groups, g.name ≠ x) (hb : ∃ o ∈ b.addrs, o.name = x) :
    Cmd.delAddr x ∉ planVsys diff a b ∧
      (∃ t m rm, planVsys diff a b = t ++ m ++ rm ∧ (∀ c ∈ rm, c.isRemoval = true) ∧
        (∀ c ∈ t ++ m, c.isRemoval = false)) := by
  refine ⟨planVsys_spares_address diff a b ha r x hr hx hg hb, ?_⟩
  obtain ⟨t, m, rm, h, ht, hm, hrm⟩ := pan_objects_before_rules diff a b
  refine ⟨t, m, rm, h, hrm, ?_⟩
  intro c hc
  rcases List.mem_append.mp hc with hc | hc
  · have := ht c hc
    cases c <;> simp_all [Cmd.isTransfer, Cmd.isRemoval]
  · have := hm c hc
    cases c <;> simp_all [Cmd.isRuleCmd, Cmd.isMember, Cmd.isRemoval, ordOf]

/-! ## Scope (`pan_scope`, C07) -/

/-- **Scope.**  `GetChanges` emits requests only for vsys names that the device has and the
target names; and a request for one vsys changes no other vsys of the device. -/
theorem pan_scope (diff : Differ) (devA devB : String) (dev tgt : List Vsys)
    (l : List (String × List Cmd)) (h : planDevice diff devA devB dev tgt = .ok l) :
    ∀ p ∈ l, (∃ v ∈ dev, v.name = p.1) ∧ (∃ v ∈ tgt, v.name = p.1) := by
  unfold planDevice at h
  split at h
  · cases h
  · split at h
    · cases h
    · simp only [Except.ok.injEq] at h
      subst h
      intro p hp
      simp only [List.mem_filterMap] at hp
      obtain ⟨v1, hv1, hp⟩ := hp
      split at hp
      · cases hp
      · rename_i v2 hv2
        split at hp
        · cases hp
        · simp only [Option.some.injEq] at hp
          subst hp
          have hmem := vsysMap_mem hv2
          exact ⟨⟨v1, hv1, hmem.2.symm⟩, ⟨v2, hmem.1, rfl⟩⟩

/-- Frame: a request for vsys `vs` leaves every other vsys as it was. -/
theorem pan_frame {sh : Shared} {d d' : Device} {vs : String} {c : Cmd}
    (h : execDev sh d vs c = .ok d') :
    d'.length = d.length ∧ ∀ (i : Nat) (v : Vsys), d[i]? = some v → v.name ≠ vs → d'[i]? = some v :=
  execDev_frame h

/-! ## Prefixes (`pan_prefix_wf`, C08 / C10) -/

/-- **Every prefix of an accepted script is accepted**, completely and without refusal, so
every cut position of C10 is a state the device really reaches. -/
theorem pan_prefix_wf (sh : Shared) (cs : List Cmd) (v : Vsys) (j : Nat)
    (hj : j ≤ (execAll sh v cs).2.1) :
    (execAll sh v (cs.take j)).2.1 = j ∧ (execAll sh v (cs.take j)).2.2 = none :=
  execAll_prefix sh cs v j hj

/-! ## Resume (`pan_resume_converges`, C10, rule order) -/

/-- **Resume.**  Cut the rule-order requests of a plan after any number `k` of them: the device
has accepted them, its rule names `l` are still pairwise distinct (so it is a legitimate device
state), and a second run — with whatever target rule names `bNames` (distinct) and whatever
valid normalised script the new comparison yields — again generates fresh names and converges
to the order its own script describes.  (The full C10 statement needs the convergence of the
content as well; that part is checked end to end by the oracle from every cut.) -/
theorem pan_resume_converges (diff : Differ) (hd : GoodDiffer diff) (a b : Vsys)
    (ha : (ruleNames a.rules).Nodup) (hb : (ruleNames b.rules).Nodup) (k : Nat) :
    ∃ l, runOrd (ruleNames a.rules) (((planVsys diff a b).filterMap ordOf).take k) = some l ∧ l.Nodup ∧
      ∀ (bNames : List String) (eq : Nat → Nat → Bool) (rs : List Range), bNames.Nodup →
        validScript eq l.length (uniqNames l bNames).length rs = true → normalised rs = true →
        runOrd l (orderOps l (uniqNames l bNames) rs) = some (targetOrder l (uniqNames l bNames) rs) := by
  obtain ⟨hrun, _⟩ := pan_rules_converge diff hd a b ha hb
  obtain ⟨l, hl⟩ := runOrd_take _ _ _ k hrun
  have hnd := runOrd_nodup _ _ _ hl ha
  refine ⟨l, hl, hnd, ?_⟩
  intro bNames eq rs hbn hv hn
  exact order_converges l _ rs hv hn (uniqNames_nodup_append suffixInj l bNames hnd hbn)

/-! ## Idempotence (`pan_idempotent`) -/

/-- **No rule request for an identity script.**  If the comparison of the rule lists pairs
every device rule with a target rule (all ranges are equal ranges — what Myers returns for a
device whose rules already match the target's one by one), the plan contains no `delete`,
`set` or `move` of a rule. -/
theorem pan_idempotent_rules (diff : Differ) (a b : Vsys)
    (h : ∀ r ∈ ruleScript diff a b, r.kind = .eq) :
    (planVsys diff a b).filterMap ordOf = [] := by
  rw [planVsys_ord, orderOps_identity _ _ _ h]

/-- **No member request for an equal list.**  A source / destination list that already equals
the target's (no groups involved) yields no request and leaves the planner state unchanged. -/
theorem pan_idempotent_lists (diff : Differ) (hid : IdentityDiffer diff) (fuel : Nat) (st : St)
    (la : List String) (n : String) (f : Fld)
    (hA : ∀ x ∈ la, st.aGrpIdx x = none) (hB : ∀ y ∈ la, st.bGrpIdx y = none) :
    equalizeList diff (fuel + 1) st la la n f = st :=
  equalizeList_same diff hid fuel st la n f hA hB

/-! ## Refuted statements -/

def idDiff : Differ := fun n m _ => [⟨0, n, 0, m⟩]

def sgDev : Vsys :=
  { name := "v",
    rules := [{ name := "r1", hdr := "h", src := ["any"], dst := ["any"], srv := ["test"] }],
    svcs := [{ name := "tcp 80", val := "80" }, { name := "tcp 443", val := "443" }],
    sgroups := [{ name := "test", members := ["tcp 80", "tcp 443"] }] }

def sgTgt : Vsys :=
  { name := "v",
    rules := [{ name := "r1", hdr := "h", src := ["any"], dst := ["any"], srv := ["test"] }],
    svcs := [{ name := "tcp 81", val := "81" }, { name := "tcp 443", val := "443" }],
    sgroups := [{ name := "test", members := ["tcp 81", "tcp 443"] }] }

/-- **F-C03a (known).**  "Executing the plan yields an equivalent vsys and every request is
executable" is false when a service-group keeps its name and changes its members: the members
are sent with `set`, which merges; `delete service tcp 80` is then refused because the group
still holds `tcp 80`, and even a device that let it pass would not be equivalent.  (The edit
script here is the identity, which is what Myers returns for these rule lists; replayed on the
real planner: corpus:F-C03a; pinned by the repository's test 'Change members of service-group'.) -/
theorem pan_sgroup_set_merges_counterexample :
    wellFormed [] sgDev = true ∧ wellFormed [] sgTgt = true ∧
      planVsys idDiff sgDev sgTgt =
        [.setSvc "tcp 81" "81", .setSGrp "test" ["tcp 81", "tcp 443"], .delSvc "tcp 80"] ∧
      (execAll [] sgDev (planVsys idDiff sgDev sgTgt)).2 = (2, some "delete-referenced-service") ∧
      equiv (execAll [] sgDev (planVsys idDiff sgDev sgTgt)).1 sgTgt = false := by
  decide

/-- The script Myers returns for the lists `[IP_1, g0]` / `[G0, IP_1]` (equality matrix
`0110`: only `IP_1 = IP_1` and `g0 ~ G0`), the identity otherwise. -/
def mixDiff : Differ := fun n m eq =>
  if n == 2 && m == 2 && !eq 0 0 then [⟨0, 1, 0, 0⟩, ⟨1, 2, 0, 1⟩, ⟨2, 2, 1, 2⟩] else [⟨0, n, 0, m⟩]

def mixDev : Vsys :=
  { name := "v",
    rules := [{ name := "r1", hdr := "h", src := ["IP_1", "g0"], dst := ["any"], srv := ["any"] }],
    addrs := [{ name := "IP_1", val := "1" }, { name := "IP_2", val := "2" }],
    groups := [{ name := "g0", members := ["IP_2"] }] }

def mixTgt : Vsys :=
  { name := "v",
    rules := [{ name := "r1", hdr := "h", src := ["G0", "IP_1"], dst := ["any"], srv := ["any"] }],
    addrs := [{ name := "IP_1", val := "1" }, { name := "IP_2", val := "2" }],
    groups := [{ name := "G0", members := ["IP_2"] }] }

/-- **F-C03e (known).**  "A second compare reports no change" is false for a list that mixes an
address-group with other members: the device below is equivalent to the target from the start,
yet the plan deletes member `IP_1` and adds it again (the sorted lists `[IP_1, g0]` and
`[G0, IP_1]` cannot be aligned on both the address and the group); the device accepts, stays
equivalent, and the next plan is the same again.  (The script for the 2×2 list is the one the
real `myers.Diff` returns — valid and normalised; replayed on the real planner: corpus:F-C03e.) -/
theorem pan_mixed_list_not_idempotent_counterexample :
    wellFormed [] mixDev = true ∧ wellFormed [] mixTgt = true ∧ equiv mixDev mixTgt = true ∧
      validScript (fun i j => [[false, true], [true, false]].getD i [] |>.getD j false) 2 2
        [⟨0, 1, 0, 0⟩, ⟨1, 2, 0, 1⟩, ⟨2, 2, 1, 2⟩] = true ∧
      normalised [⟨0, 1, 0, 0⟩, ⟨1, 2, 0, 1⟩, ⟨2, 2, 1, 2⟩] = true ∧
      planVsys mixDiff mixDev mixTgt = [.delMem "r1" .src "IP_1", .addMem "r1" .src ["IP_1"]] ∧
      (execAll [] mixDev (planVsys mixDiff mixDev mixTgt)).2 = (2, none) ∧
      equiv (execAll [] mixDev (planVsys mixDiff mixDev mixTgt)).1 mixTgt = true ∧
      planVsys mixDiff (execAll [] mixDev (planVsys mixDiff mixDev mixTgt)).1 mixTgt =
        [.delMem "r1" .src "IP_1", .addMem "r1" .src ["IP_1"]] := by
  decide

/-! ## Repaired findings: the planner as it was, and as it is -/

/-- Number of leading positions with `eq i i`. -/
def leading (eq : Nat → Nat → Bool) : Nat → Nat → Nat
  | 0, _ => 0
  | fuel + 1, i => if eq i i then leading eq fuel (i + 1) + 1 else 0

/-- Common prefix, then delete the rest of the device side, then insert the rest of the target
side.  On the witnesses below this is the script `myers.Diff` returns (the witnesses were
replayed on the real planner). -/
def prefixDiff : Differ := fun n m eq =>
  let k := leading eq (min n m) 0
  (if k > 0 then [⟨0, k, 0, k⟩] else []) ++ (if k < n then [⟨k, n, k, k⟩] else []) ++
    (if k < m then [⟨n, n, k, m⟩] else [])

def mkRule (n : String) (src : List String) (srv : String) : Rule :=
  { name := n, hdr := "h", src := src, dst := ["any"], srv := [srv] }
def mkGrp (n : String) (ms : List String) : Grp := { name := n, members := ms }
def mkObjs (l : List String) : List Obj := l.map (fun n => ⟨n, n⟩)
def mkVsys (rules : List Rule) (addrs : List String) (groups : List Grp) (svcs : List String) : Vsys :=
  { name := "v", rules := rules, addrs := mkObjs addrs, groups := groups, svcs := mkObjs svcs }

def fDev := mkVsys [mkRule "r1" ["g1"] "s1", mkRule "r2" ["g3"] "s2"] ["a1", "a2", "a3", "a5"]
  [mkGrp "g1" ["a1", "a2", "a5"], mkGrp "g3" ["a3"]] ["s1", "s2"]
def fTgt := mkVsys [mkRule "r1" ["g3"] "s1", mkRule "r2" ["g3"] "s2"] ["a3", "a4"]
  [mkGrp "g3" ["a3", "a4"]] ["s1", "s2"]

/-- **F-C03f (repaired, cfbdae7).**  On the unchanged tree "every request is executable" was
false for plain Netspoc shapes: rule `r1` changes from the large group `g1` to `g3`; the list is
replaced and names `g3-1`, the name under which the target's `g3` is going to be transferred;
then rule `r2` claims the device's `g3` for the same target group (one member to add), which
cancels the transfer: `g3-1` never exists and the `edit` of `r1` is refused. -/
theorem pan_group_transfer_cancelled_counterexample :
    wellFormed [] fDev = true ∧ wellFormed [] fTgt = true ∧
      planVsysOld prefixDiff fDev fTgt =
        [.setAddr "a4" "a4", .editList "r1" .src ["g3-1"], .setGrp "g3" ["a4"], .delGrp "g1",
         .delAddr "a1", .delAddr "a2", .delAddr "a5"] ∧
      (execAll [] fDev (planVsysOld prefixDiff fDev fTgt)).2 = (1, some "dangling-reference") := by
  decide

/-- … and with the repair the same pair converges: all nine requests are accepted, the result
is equivalent to the target, the next plan is empty. -/
theorem pan_group_transfer_repaired :
    (execAll [] fDev (planVsys prefixDiff fDev fTgt)).2 = (9, none) ∧
      equiv (execAll [] fDev (planVsys prefixDiff fDev fTgt)).1 fTgt = true ∧
      planVsys prefixDiff (execAll [] fDev (planVsys prefixDiff fDev fTgt)).1 fTgt = [] := by
  decide

def dDev := mkVsys [mkRule "r1" ["g1", "a5"] "s1", mkRule "r2" ["g2"] "s2"] ["a1", "a4", "a5"]
  [mkGrp "g1" ["a1"], mkGrp "g2" ["a4"]] ["s1", "s2"]
def dTgt := mkVsys [mkRule "r1" ["g1", "g2", "a5"] "s1"] ["a1", "a2", "a5"]
  [mkGrp "g1" ["a1"], mkGrp "g2" ["a2"]] ["s1"]

/-- **F-C03d (repaired, 7da130b).**  On the unchanged tree a group inserted incrementally into
an existing list was sent under its Netspoc name `g2` although it is transferred as `g2-1`:
the rule then names the device's other group `g2`, whose removal is refused. -/
theorem pan_inserted_group_name_counterexample :
    wellFormed [] dDev = true ∧ wellFormed [] dTgt = true ∧
      planVsysOld prefixDiff dDev dTgt =
        [.setAddr "a2" "a2", .setGrp "g2-1" ["a2"], .addMem "r1" .src ["g2"], .delRule "r2",
         .delGrp "g2", .delAddr "a4", .delSvc "s2"] ∧
      (execAll [] dDev (planVsysOld prefixDiff dDev dTgt)).2 = (4, some "delete-referenced-group") := by
  decide

theorem pan_inserted_group_name_repaired :
    (execAll [] dDev (planVsys prefixDiff dDev dTgt)).2 = (7, none) ∧
      equiv (execAll [] dDev (planVsys prefixDiff dDev dTgt)).1 dTgt = true := by
  decide

def cDev := mkVsys [mkRule "x" ["a1"] "s1"] ["a1"] [] ["s1"]
def cTgt := mkVsys [{ mkRule "x" ["a1"] "s1" with hdr := "h2" }, mkRule "x-1" ["any"] "s1"] ["a1"] [] ["s1"]

/-- **F-C03c (repaired, 86e0d84)** on a whole vsys: the target's changed rule `x` is renamed to
`x-1`, the name of another target rule; the second `set` would merge into the first rule — the
strict device refuses it. -/
theorem pan_generated_rule_name_counterexample :
    (execAll [] cDev (planVsysOld prefixDiff cDev cTgt)).2 = (2, some "set-existing-rule") ∧
      (execAll [] cDev (planVsys prefixDiff cDev cTgt)).2 = (3, none) ∧
      equiv (execAll [] cDev (planVsys prefixDiff cDev cTgt)).1 cTgt = true := by
  decide

/-! ## Non-vacuity: the hypotheses of the theorems are satisfiable on non-trivial values -/

example : GoodDiffer trivialDiff := trivialDiff_good
example : (ruleNames mixDev.rules).Nodup ∧ (ruleNames mixTgt.rules).Nodup := by decide
/-- a two-rule device and a three-rule target: the order theorem applies and gives three names -/
example : (targetOrder ["r1", "r2"] (uniqNames ["r1", "r2"] ["r1", "r2", "r3"])
    [⟨0, 1, 0, 0⟩, ⟨1, 2, 0, 1⟩, ⟨2, 2, 1, 3⟩]) = ["r2", "r2-1", "r3"] := by decide
example : runOrd ["r1", "r2"] (orderOps ["r1", "r2"] (uniqNames ["r1", "r2"] ["r1", "r2", "r3"])
    [⟨0, 1, 0, 0⟩, ⟨1, 2, 0, 1⟩, ⟨2, 2, 1, 3⟩]) = some ["r2", "r2-1", "r3"] := by decide
/-- a plain list in a state without groups: hypotheses of `pan_members_converge` -/
example : (∀ x ∈ ["a", "b"], (initSt sgDev sgTgt []).aGrpIdx x = none) ∧ ["a", "b"].Nodup := by decide
example : (execAll [] sgDev (planVsys idDiff sgDev sgTgt)).2.1 = 2 := by decide
/-- hypotheses of `pan_removals_last_unreferenced`: rule r1 of `mixTgt` names address IP_1 -/
example : (mixDev.addrs.map (·.name)).Nodup ∧ (∀ g ∈ mixTgt.groups, g.name ≠ "IP_1") ∧
    (∃ o ∈ mixTgt.addrs, o.name = "IP_1") := by decide
example : (match planDevice idDiff "d" "d" [sgDev] [sgTgt] with
    | .ok l => l.map (·.1) == ["v"] | .error _ => false) = true := by decide


/-! ## Round 3: whole-vsys and whole-device theorems

The per-part results above are composed here into statements about a whole vsys and a whole
device, for every device vsys `a`, every target `b` and every valid normalised differ — on the
fragment `PlainPair sh a b` (decidable): no address-groups and no service-groups on either side,
names are keys, no member twice in a source / destination list, every name a target rule uses is
`any` / `application-default`, shared, or defined by the target, and the device vsys defines no
object under a reserved or shared name.  Numbers of rules, members, objects, vsys are unbounded;
the rule script is any valid normalised script (including the nothing-in-common script).

The FULL statements (for every `wellFormed` pair, groups included) are false of the unchanged
planner — `pan_sgroup_set_merges_counterexample` (F-C03a) refutes convergence and executability,
`pan_mixed_list_not_idempotent_counterexample` (F-C03e) refutes idempotence — so the theorems
carry the suffix `_partial`; for pairs with address-groups outside those two findings the whole
statement rests on the per-part theorems above and on the oracle. -/

/-- Identity when the two sides are equal position by position, else delete all / insert all:
a differ that is both `GoodDiffer` and `IdentityDiffer`. -/
def stdDiff : Differ := fun n m eq =>
  if n = m ∧ pairsEq eq 0 0 n = true then [⟨0, n, 0, n⟩] else trivialDiff n m eq

theorem pairsEq_of_diag (eq : Nat → Nat → Bool) : ∀ (k a : Nat), (∀ i, a ≤ i → i < a + k → eq i i = true) →
    pairsEq eq a a k = true := by
  intro k
  induction k with
  | zero => intro a _; rfl
  | succ k ih =>
    intro a h
    simp only [pairsEq, Bool.and_eq_true]
    exact ⟨h a (Nat.le_refl _) (by omega), ih (a + 1) (fun i h1 h2 => h i (by omega) (by omega))⟩

theorem stdDiff_good : GoodDiffer stdDiff := by
  intro n m eq
  unfold stdDiff
  split
  · rename_i h
    obtain ⟨rfl, hp⟩ := h
    simp [validScript, validFrom, normalised, hp]
  · exact trivialDiff_good n m eq

theorem stdDiff_identity : IdentityDiffer stdDiff := by
  intro n eq h
  unfold stdDiff
  rw [if_pos ⟨rfl, pairsEq_of_diag eq n 0 (fun i _ hi => h i (by omega))⟩]

/-- **`panos_vsys_converges`** on the group-free fragment.  The strict device accepts every
request of the plan, and the vsys it reaches has the target's rules in the target's order —
header equal, source / destination / service the same sets, objects compared by content
(`equiv`).  (Full statement, false because of F-C03a:
`wellFormed sh a → wellFormed sh b → ∃ w, Runs sh a (planVsys diff a b) w ∧ equiv w b`.) -/
theorem panos_vsys_converges_partial (sh : Shared) (diff : Differ) (hd : GoodDiffer diff) (a b : Vsys)
    (hP : PlainPair sh a b) :
    ∃ w, execAll sh a (planVsys diff a b) = (w, (planVsys diff a b).length, none) ∧ equiv w b = true ∧
      w.name = a.name ∧ w.rules.length = b.rules.length ∧ (ruleNames w.rules).Nodup ∧
      (∀ (t : Nat) (r : Rule), w.rules[t]? = some r → RuleLike r (b.rules.getD t default)) := by
  obtain ⟨w, h1, h2, _, _, h5, h6, h7, h8⟩ := plain_converges sh diff hd a b hP
  exact ⟨w, h1, h2, h5, h6, h7, h8⟩

/-- **`panos_executable`** (C08) on the group-free fragment.  Every request of the plan is
accepted by the strict device in the state the preceding requests produce — that device refuses
`set` / `edit` of a rule or member list naming an object that does not exist at that moment,
`delete` of an object something still refers to, `move` before a rule that is not there, `set`
of a rule whose name is taken.  Said for every cut: the first `k` requests are accepted without
refusal, whatever `k`.  (Full statement false because of F-C03a.) -/
theorem panos_executable_partial (sh : Shared) (diff : Differ) (hd : GoodDiffer diff) (a b : Vsys)
    (hP : PlainPair sh a b) (k : Nat) :
    (execAll sh a ((planVsys diff a b).take k)).2 = (min k (planVsys diff a b).length, none) := by
  obtain ⟨w, h1, _⟩ := plain_converges sh diff hd a b hP
  have hsplit : planVsys diff a b = (planVsys diff a b).take k ++ (planVsys diff a b).drop k :=
    (List.take_append_drop k _).symm
  have h1' : Runs sh a ((planVsys diff a b).take k ++ (planVsys diff a b).drop k) w := by
    rw [← hsplit]; exact h1
  obtain ⟨ak, h2, _⟩ := Runs.of_append _ _ _ _ h1'
  unfold Runs at h2
  rw [h2, List.length_take]

/-- **`panos_unchanged_only_if_equivalent`** on the group-free fragment: an empty plan ("device
unchanged") is only reported for a device that is equivalent to the target. -/
theorem panos_unchanged_only_if_equivalent_partial (sh : Shared) (diff : Differ) (hd : GoodDiffer diff)
    (a b : Vsys) (hP : PlainPair sh a b) (h : planVsys diff a b = []) : equiv a b = true := by
  obtain ⟨w, h1, h2, _⟩ := plain_converges sh diff hd a b hP
  rw [h] at h1
  rw [runs_nil_eq h1] at h2
  exact h2

/-- **`panos_idempotent`** on the group-free fragment: for the device reached by executing the
plan, the next plan is empty (second compare: no change).  Needs a differ that returns the
identity script for two sides equal position by position (`IdentityDiffer`; checked for the real
`myers.Diff` on every such call the harness observes), a target that defines no object under a
reserved or shared name, and service lists without repetition.  (Full statement false because
of F-C03e.) -/
theorem panos_idempotent_partial (sh : Shared) (diff : Differ) (hd : GoodDiffer diff)
    (hid : IdentityDiffer diff) (a b : Vsys) (hP : PlainPair sh a b) (hN : TgtNames sh b)
    (hsa : SrvNodup a) (hsb : SrvNodup b) :
    ∃ w, execAll sh a (planVsys diff a b) = (w, (planVsys diff a b).length, none) ∧
      planVsys diff w b = [] :=
  let ⟨w, h1, _, h3⟩ := plain_idempotent sh diff hd hid a b hP hN hsa hsb
  ⟨w, h1, h3⟩

/-- **A device that already says what the target says gets an empty plan** (same rules at the
same positions, every object a target rule uses present with the target's value, no other
object): the fixpoint statement `panos_idempotent_partial` rests on. -/
theorem panos_settled_plan_empty_partial (sh : Shared) (diff : Differ) (hd : GoodDiffer diff)
    (hid : IdentityDiffer diff) (w b : Vsys) (hP : PlainPair sh w b) (hS : Settled w b) :
    planVsys diff w b = [] :=
  plain_fixpoint sh diff hd hid w b hP hS

/-- **`panos_resume`** (C10) on the group-free fragment.  Execute any prefix of the plan (the
device accepts it), plan again from the state reached, execute that plan: every request is
accepted and the result is equivalent to the target.  (Needs `TgtNames`: the target defines no
object under a reserved or shared name.  Full statement false because of F-C03a.) -/
theorem panos_resume_partial (sh : Shared) (diff : Differ) (hd : GoodDiffer diff) (a b : Vsys)
    (hP : PlainPair sh a b) (hN : TgtNames sh b) (k : Nat) :
    ∃ ak w, execAll sh a ((planVsys diff a b).take k) = (ak, ((planVsys diff a b).take k).length, none) ∧
      execAll sh ak (planVsys diff ak b) = (w, (planVsys diff ak b).length, none) ∧
      equiv w b = true :=
  plain_resume sh diff hd a b hP hN k

/-- **`panos_outside_vsys_untouched`** (C07), for every device, every target, every differ, no
side condition.  Execute the plan of `GetChanges` — or any part of it, any cut, in any order
(`l'` only has to address vsys the plan addresses) — on the device: no vsys is added or removed,
and every vsys the target does not name is exactly what it was. -/
theorem panos_outside_vsys_untouched (sh : Shared) (diff : Differ) (devA devB : String) (dev tgt : List Vsys)
    (l l' : List (String × List Cmd)) (hplan : planDevice diff devA devB dev tgt = .ok l)
    (hsub : ∀ p ∈ l', ∃ q ∈ l, q.1 = p.1) (d' : Device) (hx : execDevAll sh dev l' = .ok d') :
    d'.length = dev.length ∧
      ∀ (i : Nat) (v : Vsys), dev[i]? = some v → (∀ t ∈ tgt, t.name ≠ v.name) → d'[i]? = some v := by
  obtain ⟨h1, h2⟩ := execDevAll_frame l' dev d' hx
  refine ⟨h1, fun i v hi hne => h2 i v hi ?_⟩
  intro p hp e
  obtain ⟨q, hq, hqe⟩ := hsub p hp
  obtain ⟨_, ⟨t, ht, htn⟩⟩ := pan_scope diff devA devB dev tgt l hplan q hq
  exact hne t ht (htn.trans (hqe.trans e))

/-- **Several vsys.**  On a device whose vsys names are distinct, if every (device vsys, target
vsys) pair is in the group-free fragment, the strict device accepts the whole plan of
`GetChanges`; afterwards every vsys the target names is equivalent to its target and every
other vsys is what it was. -/
theorem panos_device_converges_partial (sh : Shared) (diff : Differ) (hd : GoodDiffer diff)
    (devA devB : String) (dev tgt : List Vsys) (l : List (String × List Cmd))
    (hplan : planDevice diff devA devB dev tgt = .ok l) (hnd : (dev.map (·.name)).Nodup)
    (hP : ∀ v1 ∈ dev, ∀ v2, vsysMap tgt v1.name = some v2 → PlainPair sh v1 v2) :
    ∃ d', execDevAll sh dev l = .ok d' ∧ d'.length = dev.length ∧
      ∀ (i : Nat) (v1 : Vsys), dev[i]? = some v1 →
        (vsysMap tgt v1.name = none → d'[i]? = some v1) ∧
        (∀ v2, vsysMap tgt v1.name = some v2 → ∃ w, d'[i]? = some w ∧ equiv w v2 = true) := by
  obtain ⟨d', e1, e2, e3⟩ := execDevAll_planDevice sh diff devA devB dev tgt l hplan hnd
    (fun v1 hv1 v2 hv2 => by
      obtain ⟨w, hw, _⟩ := plain_converges sh diff hd v1 v2 (hP v1 hv1 v2 hv2)
      exact ⟨w, hw⟩)
  refine ⟨d', e1, e2, fun i v1 hi => ⟨(e3 i v1 hi).1, fun v2 hv2 => ?_⟩⟩
  obtain ⟨w, hw1, hw2⟩ := (e3 i v1 hi).2 v2 hv2
  obtain ⟨w', hw', heq, _⟩ := plain_converges sh diff hd v1 v2 (hP v1 (List.mem_of_getElem? hi) v2 hv2)
  have : w = w' := by
    unfold Runs at hw2 hw'
    rw [hw2] at hw'
    exact (Prod.mk.inj hw').1
  subst this
  exact ⟨w, hw1, heq⟩

/-! ### Non-vacuity of the round-3 hypotheses, on a pair that exercises every phase -/

/-- device: two rules, an address and a service the target no longer uses -/
def plainDev : Vsys :=
  mkVsys [mkRule "r1" ["a1", "a2"] "s1", mkRule "r2" ["a2"] "s1"] ["a1", "a2"] [] ["s1"]
/-- target: r1 with another source list and service, a new rule in front, new objects -/
def plainTgt : Vsys :=
  mkVsys [mkRule "r0" ["a3"] "s2", mkRule "r1" ["a1", "a3"] "s2"] ["a1", "a3"] [] ["s2"]

example : GoodDiffer stdDiff ∧ IdentityDiffer stdDiff := ⟨stdDiff_good, stdDiff_identity⟩
example : PlainPair ["shared-1"] plainDev plainTgt := by decide
example : TgtNames ["shared-1"] plainTgt := by decide
example : SrvNodup plainDev ∧ SrvNodup plainTgt := by decide
/-- nothing in common (the services differ): transfers, deletes, new rules under fresh names, removals -/
example : planVsys stdDiff plainDev plainTgt =
    [.setAddr "a3" "a3", .setSvc "s2" "s2", .delRule "r1", .delRule "r2",
     .setRule (mkRule "r0" ["a3"] "s2"), .setRule (mkRule "r1-1" ["a1", "a3"] "s2"),
     .delAddr "a2", .delSvc "s1"] := by decide
example : (execAll ["shared-1"] plainDev (planVsys stdDiff plainDev plainTgt)).2 = (8, none) ∧
    planVsys stdDiff (execAll ["shared-1"] plainDev (planVsys stdDiff plainDev plainTgt)).1 plainTgt = [] := by
  decide
/-- rules paired one by one: a member list replaced inside an equal range -/
def plainTgt2 : Vsys :=
  mkVsys [mkRule "r1" ["a1", "a3"] "s1", mkRule "r2" ["a2"] "s1"] ["a1", "a2", "a3"] [] ["s1"]
example : PlainPair [] plainDev plainTgt2 ∧ TgtNames [] plainTgt2 := by decide
example : planVsys stdDiff plainDev plainTgt2 =
    [.setAddr "a3" "a3", .editList "r1" .src ["a1", "a3"]] ∧
    planVsys stdDiff (execAll [] plainDev (planVsys stdDiff plainDev plainTgt2)).1 plainTgt2 = [] := by decide
/-- a settled device -/
example : Settled plainTgt plainTgt :=
  ⟨rfl, fun _ _ => ⟨rfl, fun _ => Iff.rfl, fun _ => Iff.rfl, fun _ => Iff.rfl⟩, by decide, by decide,
    fun _ _ _ => rfl, (by unfold RefAddr; decide), fun _ _ _ => rfl, (by unfold RefSvc; decide)⟩
/-- a device with two vsys of which the target names one -/
example : (match planDevice stdDiff "d" "d" [plainDev, { plainDev with name := "w" }] [plainTgt] with
    | .ok l => l.map (·.1) == ["v"] | .error _ => false) = true ∧
    ([plainDev, { plainDev with name := "w" }].map (·.name)).Nodup := by decide

/-- hypothesis `hok` of `pan_group_members_converge` together with its other hypotheses, for a
differ with `GoodDiffer`: an empty device group gets two members (one merging `set`), and an
equal member list is answered `true` without a request -/
example : (hasEqLists stdDiff 1 (initSt sgDev sgTgt []) [] ["a", "b"] (.group "g")).1 = true ∧
    (hasEqLists stdDiff 1 (initSt sgDev sgTgt []) [] ["a", "b"] (.group "g")).2.out = [.setGrp "g" ["a", "b"]] ∧
    (hasEqLists stdDiff 1 (initSt sgDev sgTgt []) ["a", "b"] ["a", "b"] (.group "g")).1 = true ∧
    (∀ y ∈ ["a", "b"], (initSt sgDev sgTgt []).bGrpIdx y = none) := by decide

/-- **The theorems' `equiv` (header text equal) implies the oracle's `equivSem`** (header
elements with PAN-OS's default content count as absent: no `<rule-type>` = `universal`, …), for
any normalisation `f` of header texts. -/
theorem panos_equiv_implies_equivSem (dev tgt : Vsys) (h : equiv dev tgt = true) :
    equivSem dev tgt = true := equivBy_of_equiv hdrSem dev tgt h

example : equiv plainTgt plainTgt = true := by decide

/-! ### Round 3c: whole-vsys theorems WITH address-groups (fragment `GrpPair`)

`GrpPair sh a b` (decidable, `NA/Model/PanOsGrpPair.lean`) is the shape Netspoc generates: a source /
destination list holds addresses only or exactly one address-group; groups hold addresses of their
vsys (no nesting); no service-groups; group names — the device's, the target's, the generated ones —
are no address names, not reserved, not shared; everything the rules name resolves.  It contains
`PlainPair` up to the side conditions on empty lists.  Groups may be shared between rules, renamed,
renumbered, changed in place, claimed for another target group, or transferred under a fresh name.
Excluded: lists mixing a group with other members (F-C03e), service-groups (F-C03a), nested groups
(F-C03n).  The differ must also return the identity script for two sides that are equal position by
position (`IdentityDiffer`, checked for the real `myers.Diff` on every such call). -/

/-- **`panos_vsys_converges` with address-groups.**  The strict device accepts every request of
the plan — transfers (groups under fresh names included), group-member requests interleaved with
rule requests, removals — and the vsys it reaches has the target's rules in the target's order,
each equivalent by expanded content. -/
theorem panos_vsys_converges_groups_partial (sh : Shared) (diff : Differ) (hd : GoodDiffer diff)
    (hid : IdentityDiffer diff) (a b : Vsys) (hP : GrpPair sh a b) :
    ∃ w, execAll sh a (planVsys diff a b) = (w, (planVsys diff a b).length, none) ∧ equiv w b = true ∧
      w.name = a.name ∧ w.rules.length = b.rules.length :=
  grp_converges sh diff hd hid a b hP

/-- **`panos_executable` (C08) with address-groups**: every prefix of the plan is accepted — no
request names a group or address that does not exist at that moment, no group or address is
deleted while a rule or a group still names it. -/
theorem panos_executable_groups_partial (sh : Shared) (diff : Differ) (hd : GoodDiffer diff)
    (hid : IdentityDiffer diff) (a b : Vsys) (hP : GrpPair sh a b) (k : Nat) :
    (execAll sh a ((planVsys diff a b).take k)).2 = (min k (planVsys diff a b).length, none) := by
  obtain ⟨w, h1, _⟩ := grp_converges sh diff hd hid a b hP
  have hsplit : planVsys diff a b = (planVsys diff a b).take k ++ (planVsys diff a b).drop k :=
    (List.take_append_drop k _).symm
  have h1' : Runs sh a ((planVsys diff a b).take k ++ (planVsys diff a b).drop k) w := by
    rw [← hsplit]; exact h1
  obtain ⟨ak, h2, _⟩ := Runs.of_append _ _ _ _ h1'
  unfold Runs at h2
  rw [h2, List.length_take]

/-- **`panos_unchanged_only_if_equivalent` with address-groups.** -/
theorem panos_unchanged_only_if_equivalent_groups_partial (sh : Shared) (diff : Differ) (hd : GoodDiffer diff)
    (hid : IdentityDiffer diff) (a b : Vsys) (hP : GrpPair sh a b) (h : planVsys diff a b = []) :
    equiv a b = true := by
  obtain ⟨w, h1, h2, _⟩ := grp_converges sh diff hd hid a b hP
  rw [h] at h1
  rw [runs_nil_eq h1] at h2
  exact h2

/-- **Several vsys, with address-groups.** -/
theorem panos_device_converges_groups_partial (sh : Shared) (diff : Differ) (hd : GoodDiffer diff)
    (hid : IdentityDiffer diff) (devA devB : String) (dev tgt : List Vsys) (l : List (String × List Cmd))
    (hplan : planDevice diff devA devB dev tgt = .ok l) (hnd : (dev.map (·.name)).Nodup)
    (hP : ∀ v1 ∈ dev, ∀ v2, vsysMap tgt v1.name = some v2 → GrpPair sh v1 v2) :
    ∃ d', execDevAll sh dev l = .ok d' ∧ d'.length = dev.length ∧
      ∀ (i : Nat) (v1 : Vsys), dev[i]? = some v1 →
        (vsysMap tgt v1.name = none → d'[i]? = some v1) ∧
        (∀ v2, vsysMap tgt v1.name = some v2 → ∃ w, d'[i]? = some w ∧ equiv w v2 = true) := by
  obtain ⟨d', e1, e2, e3⟩ := execDevAll_planDevice sh diff devA devB dev tgt l hplan hnd
    (fun v1 hv1 v2 hv2 => by
      obtain ⟨w, hw, _⟩ := grp_converges sh diff hd hid v1 v2 (hP v1 hv1 v2 hv2)
      exact ⟨w, hw⟩)
  refine ⟨d', e1, e2, fun i v1 hi => ⟨(e3 i v1 hi).1, fun v2 hv2 => ?_⟩⟩
  obtain ⟨w, hw1, hw2⟩ := (e3 i v1 hi).2 v2 hv2
  obtain ⟨w', hw', heq, _⟩ := grp_converges sh diff hd hid v1 v2 (hP v1 (List.mem_of_getElem? hi) v2 hv2)
  have : w = w' := by
    unfold Runs at hw2 hw'
    rw [hw2] at hw'
    exact (Prod.mk.inj hw').1
  subst this
  exact ⟨w, hw1, heq⟩

/-- device: r1 uses group g1 (three addresses), r2 and r3 share g3; the target renumbers: r1 and r2
now use g3 with another content, r3 uses a new group g2 with the old content of g3 -/
def grpDev : Vsys :=
  mkVsys [mkRule "r1" ["g1"] "s1", mkRule "r2" ["g3"] "s1", mkRule "r3" ["g3"] "s1"]
    ["a1", "a2", "a3", "a4", "a5"] [mkGrp "g1" ["a1", "a2", "a5"], mkGrp "g3" ["a3"]] ["s1"]
def grpTgt : Vsys :=
  mkVsys [mkRule "r1" ["g3"] "s1", mkRule "r2" ["g3"] "s1", mkRule "r3" ["g2"] "s1"]
    ["a3", "a4"] [mkGrp "g3" ["a3", "a4"], mkGrp "g2" ["a3"]] ["s1"]

example : GrpPair ["shared-1"] grpDev grpTgt := by decide
/-- the plan of that pair: a group transferred under a fresh name (r1, r2 pointed to it), a device
group claimed for a target group of another name without a request (r3), a device group and its
addresses removed; accepted by the strict device; equivalent -/
example : planVsys stdDiff grpDev grpTgt =
    [.setGrp "g3-1" ["a3", "a4"], .editList "r1" .src ["g3-1"], .editList "r2" .src ["g3-1"],
     .delGrp "g1", .delAddr "a1", .delAddr "a2", .delAddr "a5"] := by
  set_option maxRecDepth 8192 in decide
example : (execAll ["shared-1"] grpDev (planVsys stdDiff grpDev grpTgt)).2 = (7, none) ∧
    equiv (execAll ["shared-1"] grpDev (planVsys stdDiff grpDev grpTgt)).1 grpTgt = true := by
  set_option maxRecDepth 8192 in decide

/-- the per-pair hypothesis of `panos_device_converges_partial` on that device -/
example : ∀ v1 ∈ [plainDev, { plainDev with name := "w" }], ∀ v2,
    vsysMap [plainTgt] v1.name = some v2 → PlainPair [] v1 v2 := by
  intro v1 hv1 v2 h
  simp only [List.mem_cons, List.not_mem_nil, or_false] at hv1
  rcases hv1 with rfl | rfl
  · have : vsysMap [plainTgt] plainDev.name = some plainTgt := by decide
    rw [this] at h
    cases h
    decide
  · have : vsysMap [plainTgt] ({ plainDev with name := "w" } : Vsys).name = none := by decide
    rw [this] at h
    cases h

/-! ## F-C03g (repaired): a generated group name that is the name of an address -/

/-- device: group g0 (four addresses) used by r1; an address named g0-1 used by r2 -/
def gDev : Vsys :=
  { name := "v",
    rules := [mkRule "r1" ["g0"] "s1", { mkRule "r2" ["any"] "s1" with dst := ["g0-1"] }],
    addrs := mkObjs ["a1", "a2", "a3", "a4", "a5", "g0-1"],
    groups := [mkGrp "g0" ["a1", "a2", "a3", "a4"]], svcs := mkObjs ["s1"] }
/-- target: the same, but g0 holds a5 only -/
def gTgt : Vsys := { gDev with groups := [mkGrp "g0" ["a5"]] }

/-- **F-C03g (repaired).**  Address and address-group share a name space on the device.
`genUniqGroupNames` avoided the names of the groups of both sides only: the target's `g0`
(other content, so it is transferred under a new name) became `g0-1` although the device has an
ADDRESS of that name — the device would refuse the `set` (in the model: the state reached is
not well-formed).  After the repair the generated name also avoids the address names of both
sides: `g0-2`, and the state reached is well-formed and equivalent.  (Replayed on the real
planner: corpus:generated-group-name-is-an-address-name.) -/
theorem pan_group_name_address_clash_counterexample :
    wellFormed [] gDev = true ∧ wellFormed [] gTgt = true ∧
    uniqNames (gDev.groups.map (·.name)) (gTgt.groups.map (·.name)) = ["g0-1"] ∧
    "g0-1" ∈ gDev.addrs.map (·.name) := by
  decide

theorem pan_group_name_address_clash_repaired :
    groupNamesFor gDev gTgt = ["g0-2"] ∧
    (execAll [] gDev (planVsys stdDiff gDev gTgt)).2.2 = none ∧
    wellFormed [] (execAll [] gDev (planVsys stdDiff gDev gTgt)).1 = true ∧
    equiv (execAll [] gDev (planVsys stdDiff gDev gTgt)).1 gTgt = true := by
  set_option maxRecDepth 8192 in decide

/-- After the repair a GENERATED name is never the name of an address of either side (for all
configurations): part of `groupNamesFor_spec`. -/
theorem pan_group_names_avoid_addresses (a b : Vsys) (hnd : (b.groups.map (·.name)).Nodup) :
    (∀ n ∈ groupNamesFor a b, n ∉ a.groups.map (·.name)) ∧ (groupNamesFor a b).Nodup ∧
    (∀ n ∈ groupNamesFor a b, n ∈ b.groups.map (·.name) ∨
      (n ∉ a.addrs.map (·.name) ∧ n ∉ b.addrs.map (·.name))) :=
  let ⟨h1, h2, h3, _⟩ := groupNamesFor_spec suffixInj a b hnd
  ⟨h1, h2, h3⟩

example : (gTgt.groups.map (·.name)).Nodup := by decide

/-! ## Nothing is left behind (C03 / C10: a completed approve removes what nothing mentions) -/

/-- **`panos_nothing_left_behind`** on the group-free fragment.  After the whole plan the vsys
holds no address and no service that no rule mentions (`unreferenced`, the predicate the oracle
applies to every completed approve and to every completed resume).  Equivalence does not see such
objects; a planner that skips its final block of removals is equivalent and still wrong.  (Full
statement, false because of F-C03h / F-C03a:
`wellFormed sh a → wellFormed sh b → ∃ w, Runs sh a (planVsys diff a b) w ∧ unreferenced w = []`.) -/
theorem panos_nothing_left_behind_partial (sh : Shared) (diff : Differ) (hd : GoodDiffer diff) (a b : Vsys)
    (hP : PlainPair sh a b) :
    ∃ w, execAll sh a (planVsys diff a b) = (w, (planVsys diff a b).length, none) ∧ unreferenced w = [] := by
  obtain ⟨w, h1, _, hg, hsg, _, hlen, _, hlike, _, _, hA, hS⟩ := plain_converges_full sh diff hd a b hP
  refine ⟨w, h1, ?_⟩
  -- a rule of the target at index t is matched by the rule of w at index t, with the same members
  have hrule : ∀ rb ∈ b.rules, ∃ r ∈ w.rules, RuleLike r rb := by
    intro rb hrb
    obtain ⟨t, ht, he⟩ := List.getElem_of_mem hrb
    have htw : t < w.rules.length := by omega
    refine ⟨w.rules[t], List.getElem_mem htw, ?_⟩
    have := hlike t w.rules[t] (by simp [htw])
    rw [show b.rules.getD t default = rb by simp [List.getD, ht, he]] at this
    exact this
  have hAu : ∀ x ∈ w.addrs.map (·.name), addrUsed w x = true := by
    intro x hx
    obtain ⟨rb, hrb, hm⟩ := hA x hx
    obtain ⟨r, hr, _, hs, hd', _⟩ := hrule rb hrb
    simp only [addrUsed, Bool.or_eq_true, List.any_eq_true, List.contains_iff_mem]
    refine Or.inl ⟨r, hr, ?_⟩
    rcases hm with hm | hm
    · exact Or.inl ((hs x).2 hm)
    · exact Or.inr ((hd' x).2 hm)
  have hSu : ∀ x ∈ w.svcs.map (·.name), srvUsed w x = true := by
    intro x hx
    obtain ⟨rb, hrb, hm⟩ := hS x hx
    obtain ⟨r, hr, _, _, _, hv⟩ := hrule rb hrb
    simp only [srvUsed, Bool.or_eq_true, List.any_eq_true, List.contains_iff_mem]
    exact Or.inl ⟨r, hr, (hv x).2 hm⟩
  simp only [unreferenced, hg, hsg, List.map_nil, List.append_nil, List.append_eq_nil_iff,
    List.filter_eq_nil_iff, Bool.not_eq_true']
  exact ⟨fun x hx => by simp [hAu x hx], fun x hx => by simp [hSu x hx]⟩

/-- the fragment is inhabited, and the predicate is not constantly `[]`: the device of the example
holds `a2`, `s1`, which the target no longer needs, until the last block of the plan -/
example : unreferenced (execAll ["shared-1"] plainDev ((planVsys stdDiff plainDev plainTgt).take 6)).1 ≠ [] ∧
    unreferenced (execAll ["shared-1"] plainDev (planVsys stdDiff plainDev plainTgt)).1 = [] := by
  set_option maxRecDepth 8192 in decide

/-- device after an approve that was cut right after `set service 'TCP 443 X'`: the service-group
still lists `tcp 443`, which rule r2 uses too -/
def hDev : Vsys :=
  { name := "v", rules := [mkRule "r1" ["any"] "SG", mkRule "r2" ["any"] "tcp 443"],
    svcs := [⟨"tcp 80", "tcp/80"⟩, ⟨"tcp 443", "tcp/443"⟩, ⟨"TCP 443 X", "tcp/443"⟩],
    sgroups := [mkGrp "SG" ["tcp 80", "tcp 443"]] }
/-- target: the group's member `tcp 443` is now called `TCP 443 X` (rule r2 still uses `tcp 443`) -/
def hTgt : Vsys :=
  { name := "v", rules := [mkRule "r1" ["any"] "SG", mkRule "r2" ["any"] "tcp 443"],
    svcs := [⟨"tcp 80", "tcp/80"⟩, ⟨"tcp 443", "tcp/443"⟩, ⟨"TCP 443 X", "tcp/443"⟩],
    sgroups := [mkGrp "SG" ["tcp 80", "TCP 443 X"]] }

/-- **F-C03h (known).**  Same-named service-groups are compared by CONTENT: the device's `SG`
(`tcp 80`, `tcp 443`) passes for the target's (`tcp 80`, `TCP 443 X`) and is not sent; the service
`TCP 443 X` is kept because the target's group names it and the device has it with that value.
No request is planned, and `TCP 443 X` stays on the device although nothing mentions it.  The
state arises when an approve is cut between `set service 'TCP 443 X'` and the `set` of the
group's members.  (Replayed on the real planner: known C10 / C03 F-C03h.) -/
theorem pan_sgroup_member_kept_unreferenced_counterexample :
    wellFormed [] hDev = true ∧ wellFormed [] hTgt = true ∧
    planVsys stdDiff hDev hTgt = [] ∧ equiv hDev hTgt = true ∧ unreferenced hDev = ["TCP 443 X"] := by
  set_option maxRecDepth 8192 in decide

def obligations : List Lean.Name := [
  ``pan_rules_converge, ``pan_rules_converge_on_device, ``pan_members_converge, ``pan_group_members_converge,
  ``pan_group_reuse_sound, ``pan_uniq_names, ``pan_uniq_names_counterexample,
  ``pan_uniq_names_partial, ``pan_objects_before_rules, ``pan_removals_last_unreferenced, ``pan_scope, ``pan_frame, ``pan_prefix_wf,
  ``pan_resume_converges, ``pan_idempotent_rules, ``pan_idempotent_lists,
  ``pan_sgroup_set_merges_counterexample, ``pan_mixed_list_not_idempotent_counterexample,
  ``pan_group_transfer_cancelled_counterexample, ``pan_group_transfer_repaired,
  ``pan_inserted_group_name_counterexample, ``pan_inserted_group_name_repaired,
  ``pan_generated_rule_name_counterexample,
  ``trivialDiff_good, ``suffixInj,
  ``panos_vsys_converges_partial, ``panos_executable_partial, ``panos_unchanged_only_if_equivalent_partial,
  ``panos_idempotent_partial, ``panos_settled_plan_empty_partial, ``panos_resume_partial,
  ``panos_outside_vsys_untouched, ``panos_device_converges_partial, ``stdDiff_good, ``stdDiff_identity,
  ``sortStrings_canonical, ``panos_equiv_implies_equivSem,
  ``panos_vsys_converges_groups_partial, ``panos_executable_groups_partial,
  ``panos_unchanged_only_if_equivalent_groups_partial, ``panos_device_converges_groups_partial,
  ``pan_group_name_address_clash_counterexample, ``pan_group_name_address_clash_repaired,
  ``pan_group_names_avoid_addresses,
  ``panos_nothing_left_behind_partial, ``pan_sgroup_member_kept_unreferenced_counterexample]

end NA.PanOs
