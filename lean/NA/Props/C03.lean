import NA.Proofs.C03Plan
import NA.Proofs.C03Spec
/-!
# C03 — PAN-OS approve converges to the Netspoc-equivalent rulebase
(with the PAN-OS theorems of C07, C08, C10; names prefixed `pan_`)

Property theorems only.  `planVsys diff a b` is the model of `diffConfig(a, b)` (tied to the real
planner on every run), `planDevice` the model of `GetChanges`; `exec` / `execAll` / `execDev` is
the strict candidate tree of the device; `diff` is ANY function that returns valid normalised
edit scripts (`GoodDiffer`; `myers.Diff` is validated on every call the harness observes).
Numbers of rules, members, groups, vsys are unbounded everywhere.
-/
namespace NA.PanOs

/-- Delete everything, insert everything: a (bad but) valid and normalised script for every pair. -/
def trivialDiff : Differ := fun n m _ =>
  if n = 0 then [⟨0, 0, 0, m⟩] else if m = 0 then [⟨0, n, 0, 0⟩] else [⟨0, n, 0, 0⟩, ⟨n, n, 0, m⟩]

/-- Non-vacuity of `GoodDiffer`. -/
theorem trivialDiff_good : GoodDiffer trivialDiff := by
  intro n m eq
  unfold trivialDiff
  by_cases hn : n = 0
  · subst hn
    simp [validScript, validFrom, normalised, Range.isInsert]
  · by_cases hm : m = 0
    · subst hm
      simp [hn, validScript, validFrom, normalised, Range.isDelete]
    · have hn' : (n == 0) = false := by simpa using hn
      have hm' : (0 == m) = false := by
        have : 0 ≠ m := fun e => hm e.symm
        simpa using this
      have h0n : (0 == n) = false := by
        have : 0 ≠ n := fun e => hn e.symm
        simpa using this
      simp [hn, hm, validScript, validFrom, normalised, Range.isInsert, Range.isDelete, Range.op, h0n, hm']

/-! ## Rule order (`pan_rules_converge`) -/

/-- **Rules converge.**  For every device vsys `a` with distinct rule names, every target `b`
with distinct rule names, and every valid normalised edit script: the order-relevant requests of
the plan (deletes in range order, `set` of every inserted rule deferred to the end and followed
by `move … where=before <next surviving rule>`) are all applicable in sequence, and they turn
the device's rule sequence into the target's (`targetOrder`: device name at kept positions, new
name at inserted positions, one entry per target rule). -/
theorem pan_rules_converge (diff : Differ) (hd : GoodDiffer diff) (hinj : SuffixInj) (a b : Vsys)
    (ha : (ruleNames a.rules).Nodup) (hb : (ruleNames b.rules).Nodup) :
    runOrd (ruleNames a.rules) ((planVsys diff a b).filterMap ordOf) =
        some (targetOrder (ruleNames a.rules) (newRuleNames a b) (ruleScript diff a b)) ∧
      (targetOrder (ruleNames a.rules) (newRuleNames a b) (ruleScript diff a b)).length =
        b.rules.length := by
  obtain ⟨eq, hv, hn⟩ := ruleScript_good diff hd a b
  have hlenB := newRuleNames_length a b
  have hnd : (ruleNames a.rules ++ newRuleNames a b).Nodup :=
    uniqNames_nodup_append hinj _ _ ha hb
  constructor
  · rw [planVsys_ord]
    exact order_converges _ _ _ hv hn hnd
  · unfold validScript at hv
    rw [Bool.or_eq_true] at hv
    rcases hv with hv | hv
    · have := targetOrder_length (ruleNames a.rules) (newRuleNames a b) _ 0 0 hv
      simpa [hlenB] using this
    · simp only [Bool.and_eq_true, decide_eq_true_eq, beq_iff_eq] at hv
      obtain ⟨⟨_, hm0⟩, hrs⟩ := hv
      rw [hrs]
      have hk2 : (⟨0, 0, 0, (newRuleNames a b).length⟩ : Range).kind = .ins := by
        have : (0 == (newRuleNames a b).length) = false := by
          have : 0 ≠ (newRuleNames a b).length := by omega
          simpa using this
        simp [Range.kind, Range.isDelete, Range.isInsert, this]
      have hk1 : (⟨0, (ruleNames a.rules).length, 0, 0⟩ : Range).kind = .del := by
        simp [Range.kind, Range.isDelete]
      simp only [nothingCommon, targetOrder, hk1, hk2]
      simp [List.extract, hlenB]

/-- … on the strict device: executing the plan, the rule names after the accepted part are
those the order operations give; if the whole plan is accepted the device carries the target's
rule sequence; and whatever stops the run, it is never a missing rule, a taken rule name or a
missing move destination (the C08 share of the rule order). -/
theorem pan_rules_converge_on_device (diff : Differ) (hd : GoodDiffer diff) (hinj : SuffixInj)
    (sh : Shared) (a b : Vsys) (ha : (ruleNames a.rules).Nodup) (hb : (ruleNames b.rules).Nodup) :
    ((execAll sh a (planVsys diff a b)).2.2 = none →
        ruleNames (execAll sh a (planVsys diff a b)).1.rules =
          targetOrder (ruleNames a.rules) (newRuleNames a b) (ruleScript diff a b)) ∧
      (∀ e, (execAll sh a (planVsys diff a b)).2.2 = some e → orderError e = false) := by
  obtain ⟨hrun, _⟩ := pan_rules_converge diff hd hinj a b ha hb
  constructor
  · intro hnone
    have hk := ((execAll_count sh (planVsys diff a b) a).2).mp hnone
    have := execAll_ord sh (planVsys diff a b) a
    rw [hk, List.take_length, hrun] at this
    exact (Option.some.inj this).symm
  · intro e he
    exact execAll_no_order_error sh _ a _ hrun e he

/-! ## Generated names (`pan_uniq_names`) -/

/-- **Generated names are fresh and pairwise distinct** (after the repair 86e0d84): the new
names of the target's rules (resp. groups) avoid every name of the device, and no two target
entries get the same name — provided the target's own names are distinct. -/
theorem pan_uniq_names (hinj : SuffixInj) (taken names : List String) (hnd : names.Nodup) :
    (∀ n ∈ uniqNames taken names, n ∉ taken) ∧ (uniqNames taken names).Nodup ∧
      (uniqNames taken names).length = names.length :=
  uniqNames_spec hinj taken names hnd

/-- The statement is false of the loop as it was before the repair (new names were checked
against the device's names only): device rule `x`, target rules `x` and `x-1` — both end up as
`x-1` (replayed on the real planner: corpus:F-C03c). -/
theorem pan_uniq_names_counterexample :
    ∃ taken names : List String, names.Nodup ∧ ¬ (uniqNamesOld taken names).Nodup :=
  ⟨["x"], ["x", "x-1"], by decide, by decide⟩

/-- What held before the repair: every new name avoids the device's names. -/
theorem pan_uniq_names_partial (hinj : SuffixInj) (taken names : List String) :
    ∀ n ∈ uniqNamesOld taken names, n ∉ taken := by
  intro n hn
  simp only [uniqNamesOld, List.mem_map] at hn
  obtain ⟨x, _, rfl⟩ := hn
  split
  · exact freshName_not_mem hinj taken x
  · rename_i h; simpa using h

/-! ## Shape of the plan (`pan_objects_before_rules`, `pan_removals_last`) -/

/-- **Objects first, removals last.**  The plan is: definitions of objects (only `set` / `edit`
of addresses, address-groups, services, service-groups), then the requests on rules and member
lists (none of which defines or removes an address, service or service-group or removes a
group), then removals of objects (only those). -/
theorem pan_objects_before_rules (diff : Differ) (a b : Vsys) :
    ∃ t m r, planVsys diff a b = t ++ m ++ r ∧
      (∀ c ∈ t, c.isTransfer = true) ∧ (∀ c ∈ m, c.isRuleCmd = true) ∧ (∀ c ∈ r, c.isRemoval = true) := by
  refine ⟨_, _, _, rfl, transferCmds_kind _, ?_, removeCmds_kind _⟩
  exact planState_out_kind diff a b

/-! ## Scope (`pan_scope`, C07) -/

/-- **Scope.**  `GetChanges` emits requests only for vsys names that the device has and the
target names; and a request for one vsys changes no other vsys of the device. -/
theorem pan_scope (diff : Differ) (devA devB : String) (dev tgt : List Vsys)
    (l : List (String × List Cmd)) (h : planDevice diff devA devB dev tgt = .ok l) :
    ∀ p ∈ l, (∃ v ∈ dev, v.name = p.1) ∧ (∃ v ∈ tgt, v.name = p.1) := by
  unfold planDevice at h
  split at h
  · cases h
  · split at h
    · cases h
    · simp only [Except.ok.injEq] at h
      subst h
      intro p hp
      simp only [List.mem_filterMap] at hp
      obtain ⟨v1, hv1, hp⟩ := hp
      split at hp
      · cases hp
      · rename_i v2 hv2
        split at hp
        · cases hp
        · simp only [Option.some.injEq] at hp
          subst hp
          have hmem := vsysMap_mem hv2
          exact ⟨⟨v1, hv1, hmem.2.symm⟩, ⟨v2, hmem.1, rfl⟩⟩

/-- Frame: a request for vsys `vs` leaves every other vsys as it was. -/
theorem pan_frame {sh : Shared} {d d' : Device} {vs : String} {c : Cmd}
    (h : execDev sh d vs c = .ok d') :
    d'.length = d.length ∧ ∀ (i : Nat) (v : Vsys), d[i]? = some v → v.name ≠ vs → d'[i]? = some v :=
  execDev_frame h

/-! ## Prefixes (`pan_prefix_wf`, C08 / C10) -/

/-- **Every prefix of an accepted script is accepted**, completely and without refusal, so
every cut position of C10 is a state the device really reaches. -/
theorem pan_prefix_wf (sh : Shared) (cs : List Cmd) (v : Vsys) (j : Nat)
    (hj : j ≤ (execAll sh v cs).2.1) :
    (execAll sh v (cs.take j)).2.1 = j ∧ (execAll sh v (cs.take j)).2.2 = none :=
  execAll_prefix sh cs v j hj

/-! ## Refuted statements -/

def idDiff : Differ := fun n m _ => [⟨0, n, 0, m⟩]

def sgDev : Vsys :=
  { name := "v",
    rules := [{ name := "r1", hdr := "h", src := ["any"], dst := ["any"], srv := ["test"] }],
    svcs := [{ name := "tcp 80", val := "80" }, { name := "tcp 443", val := "443" }],
    sgroups := [{ name := "test", members := ["tcp 80", "tcp 443"] }] }

def sgTgt : Vsys :=
  { name := "v",
    rules := [{ name := "r1", hdr := "h", src := ["any"], dst := ["any"], srv := ["test"] }],
    svcs := [{ name := "tcp 81", val := "81" }, { name := "tcp 443", val := "443" }],
    sgroups := [{ name := "test", members := ["tcp 81", "tcp 443"] }] }

/-- **F-C03a (known).**  "Executing the plan yields an equivalent vsys and every request is
executable" is false when a service-group keeps its name and changes its members: the members
are sent with `set`, which merges; `delete service tcp 80` is then refused because the group
still holds `tcp 80`, and even a device that let it pass would not be equivalent.  (The edit
script here is the identity, which is what Myers returns for these rule lists; replayed on the
real planner: corpus:F-C03a; pinned by the repository's test 'Change members of service-group'.) -/
theorem pan_sgroup_set_merges_counterexample :
    wellFormed [] sgDev = true ∧ wellFormed [] sgTgt = true ∧
      planVsys idDiff sgDev sgTgt =
        [.setSvc "tcp 81" "81", .setSGrp "test" ["tcp 81", "tcp 443"], .delSvc "tcp 80"] ∧
      (execAll [] sgDev (planVsys idDiff sgDev sgTgt)).2 = (2, some "delete-referenced-service") ∧
      equiv (execAll [] sgDev (planVsys idDiff sgDev sgTgt)).1 sgTgt = false := by
  decide

def obligations : List Lean.Name := [
  ``pan_rules_converge, ``pan_rules_converge_on_device, ``pan_uniq_names, ``pan_uniq_names_counterexample,
  ``pan_uniq_names_partial, ``pan_objects_before_rules, ``pan_scope, ``pan_frame, ``pan_prefix_wf,
  ``pan_sgroup_set_merges_counterexample, ``trivialDiff_good]

end NA.PanOs
