import NA.Proofs.C18
import NA.Proofs.C18Conf
/-!
# C18 — raw and IPv6 parts are merged completely and in the documented order

Property theorems only.  `a` is the configuration merged so far (Netspoc IPv4, or IPv4 merged with
IPv6), `b` the part merged into it (IPv6 or the raw file); all statements hold for ALL lists.

Per backend (`asa_`, `ios_`, `linux_`, `pan_`, `nsx_`):
* `…_merge_perm`     the result is a permutation of `a ++ b` (every entry exactly once),
* `…_merge_sublist`  every part (`a`, the non-APPEND part of `b`, the APPEND part of `b`) is a sublist
                     of the result (relative order kept),
* `…_raw_first`      the non-APPEND entries of `b` are a prefix of the result, all entries of `a` follow
                     (ASA: except the documented trailing `deny ip any6 any6`),
* `…_append_after_last_permit_before_trailing_deny` (ASA, IOS, Linux) resp.
  `…_append_after_all_netspoc_entries` (PAN-OS, NSX),
* `…_raw_whole_order` the raw file as a whole (non-APPEND part then APPEND part) keeps its order.

The code as found is refuted by `…_old_…_counterexample`; the full theorems are about the repaired
code (`fix:` commits ab4fc9f, deffa57 in /repo).  `…_old_partial` states where old and new agree.
-/
namespace NA.C18

/-! ## ASA -/

/-- The placement law of the ASA merge; everything else follows from it. -/
theorem asa_append_after_last_permit_before_trailing_deny (a b : List Entry) :
    Placed Entry.notPermit (asaSplit a b).1 (asaSplit a b).2 (appPart b) (mergeASA a b) :=
  placed_insert _ _ _ _

theorem asa_merge_perm (a b : List Entry) : (mergeASA a b).Perm (a ++ b) := mergeASA_perm a b

theorem any6_notPermit (x : Entry) (h : x.isAny6 = true) : x.notPermit = true := by
  unfold Entry.isAny6 at h
  unfold Entry.notPermit Entry.isPermit
  cases hk : x.kind <;> simp_all

theorem trailing_snoc (q : Entry → Bool) (l : List Entry) (x : Entry) (h : q x = true) :
    trailing q (l ++ [x]) = trailing q l ++ [x] ∧ upto q (l ++ [x]) = upto q l := by
  unfold trailing upto
  simp [List.reverse_append, h]

theorem asa_merge_sublist (a b : List Entry) :
    a.Sublist (mergeASA a b) ∧ (nonApp b).Sublist (mergeASA a b) ∧ (appPart b).Sublist (mergeASA a b) := by
  have hp := asa_append_after_last_permit_before_trailing_deny a b
  refine ⟨?_, ?_, hp.sub_app⟩
  · rcases asaSplit_snd a b with h | ⟨x, _, h⟩
    · have := hp.sub_net; rwa [h] at this
    · have := hp.sub_net
      rw [h] at this
      exact (List.sublist_append_left a [x]).trans this
  · rcases asaSplit_fst a b with h | ⟨x, hx, hP, hN⟩
    · have := hp.sub_top; rwa [h] at this
    · -- the moved any6 line is the last line of the result
      have hm : mergeASA a b = (asaSplit a b).1 ++
          (upto Entry.notPermit (asaSplit a b).2 ++ appPart b ++ trailing Entry.notPermit (asaSplit a b).2) := rfl
      rw [hP, hm, hN]
      have ht := trailing_snoc Entry.notPermit a x (any6_notPermit x hx)
      rw [ht.1, ht.2]
      refine List.Sublist.append (List.Sublist.refl _) ?_
      exact (List.sublist_append_right (trailing Entry.notPermit a) [x]).trans
        (List.sublist_append_right (upto Entry.notPermit a ++ appPart b) _)

/-- Raw first: the non-APPEND lines of `b` (without a moved trailing `deny ip any6 any6`) are a prefix of
the result and every line of `a` comes behind them. -/
theorem asa_raw_first (a b : List Entry) :
    ∃ rest, mergeASA a b = (asaSplit a b).1 ++ rest ∧ a.Sublist rest ∧
      ((asaSplit a b).1 = nonApp b ∨ ∃ x, x.isAny6 = true ∧ nonApp b = (asaSplit a b).1 ++ [x]) := by
  refine ⟨insertBeforeTrailing Entry.notPermit (asaSplit a b).2 (appPart b), rfl, ?_, ?_⟩
  · have hp : Placed Entry.notPermit [] (asaSplit a b).2 (appPart b)
        ([] ++ insertBeforeTrailing Entry.notPermit (asaSplit a b).2 (appPart b)) := placed_insert _ _ _ _
    have hs := hp.sub_net
    simp only [List.nil_append] at hs
    rcases asaSplit_snd a b with h | ⟨x, _, h⟩
    · rw [h] at hs ⊢; exact hs
    · rw [h] at hs ⊢; exact (List.sublist_append_left a [x]).trans hs
  · rcases asaSplit_fst a b with h | ⟨x, hx, hP, _⟩
    · exact Or.inl h
    · exact Or.inr ⟨x, hx, hP⟩

/-- The raw file as a whole keeps its order, unless the any6 exception moves a line. -/
theorem asa_raw_whole_order (a b : List Entry) (h : (asaSplit a b).1 = nonApp b) :
    (nonApp b ++ appPart b).Sublist (mergeASA a b) := by
  have := (asa_append_after_last_permit_before_trailing_deny a b).sub_top_app
  rwa [h] at this

/-- Code as found, F-C18a: `[APPEND]` lines and no permit line ⇒ `acl[:-1]` panics. -/
theorem asa_old_panic_counterexample :
    ∃ a b, mergeASAOld a b = none :=
  ⟨[⟨10, .deny, false⟩], [⟨1, .deny, false⟩, ⟨2, .deny, true⟩], by decide⟩

/-- Code as found, F-C18d: the last permit line is a prepended raw line ⇒ the `[APPEND]` lines land
in front of later non-APPEND raw lines; the raw file does not keep its order. -/
theorem asa_old_raw_order_counterexample :
    ∃ a b r, (asaSplit a b).1 = nonApp b ∧ mergeASAOld a b = some r ∧ ¬ (nonApp b ++ appPart b).Sublist r :=
  ⟨[⟨10, .deny, false⟩], [⟨1, .permit, false⟩, ⟨2, .deny, false⟩, ⟨3, .deny, true⟩],
   [⟨1, .permit, false⟩, ⟨3, .deny, true⟩, ⟨2, .deny, false⟩, ⟨10, .deny, false⟩], by decide⟩

/-- Where the code as found agrees with the repaired code: no `[APPEND]` line, or a permit line
among the Netspoc entries (the complement of F-C18a / F-C18d). -/
theorem asa_old_partial (a b : List Entry)
    (h : appPart b = [] ∨ ∃ e ∈ (asaSplit a b).2, e.isPermit = true) :
    mergeASAOld a b = some (mergeASA a b) := by
  unfold mergeASAOld mergeASA
  rcases h with h | ⟨e, he, hpe⟩
  · simp [h, insertBeforeTrailing_nil]
  · by_cases hA : appPart b = []
    · simp [hA, insertBeforeTrailing_nil]
    · have hany : ((asaSplit a b).1 ++ (asaSplit a b).2).any Entry.isPermit = true := by
        simp only [List.any_eq_true]
        exact ⟨e, List.mem_append_right _ he, hpe⟩
      simp only [hA, if_false, hany, if_true]
      have := trailing_append_of_exists Entry.notPermit (asaSplit a b).1 (asaSplit a b).2
        ⟨e, he, by simp [Entry.notPermit, hpe]⟩
      unfold insertBeforeTrailing
      rw [this.1, this.2]
      simp [List.append_assoc]

/-! ## IOS -/

theorem ios_append_after_last_permit_before_trailing_deny (a b : List Entry) :
    Placed Entry.notPermit (nonApp b) a (appPart b) (mergeIOS a b) :=
  placed_insert _ _ _ _

theorem ios_merge_perm (a b : List Entry) : (mergeIOS a b).Perm (a ++ b) :=
  perm_parts a b _ (ios_append_after_last_permit_before_trailing_deny a b).perm

theorem ios_merge_sublist (a b : List Entry) :
    a.Sublist (mergeIOS a b) ∧ (nonApp b).Sublist (mergeIOS a b) ∧ (appPart b).Sublist (mergeIOS a b) :=
  let h := ios_append_after_last_permit_before_trailing_deny a b
  ⟨h.sub_net, h.sub_top, h.sub_app⟩

theorem ios_raw_first (a b : List Entry) :
    ∃ rest, mergeIOS a b = nonApp b ++ rest ∧ a.Sublist rest := by
  refine ⟨insertBeforeTrailing Entry.notPermit a (appPart b), rfl, ?_⟩
  have hp : Placed Entry.notPermit [] a (appPart b) ([] ++ insertBeforeTrailing Entry.notPermit a (appPart b)) :=
    placed_insert _ _ _ _
  simpa using hp.sub_net

theorem ios_raw_whole_order (a b : List Entry) : (nonApp b ++ appPart b).Sublist (mergeIOS a b) :=
  (ios_append_after_last_permit_before_trailing_deny a b).sub_top_app

theorem ios_old_panic_counterexample : ∃ a b, mergeIOSOld a b = none :=
  ⟨[], [⟨1, .deny, true⟩], by decide⟩

theorem ios_old_raw_order_counterexample :
    ∃ a b r, mergeIOSOld a b = some r ∧ ¬ (nonApp b ++ appPart b).Sublist r :=
  ⟨[⟨10, .deny, false⟩], [⟨1, .permit, false⟩, ⟨2, .deny, false⟩, ⟨3, .deny, true⟩],
   [⟨1, .permit, false⟩, ⟨3, .deny, true⟩, ⟨2, .deny, false⟩, ⟨10, .deny, false⟩], by decide⟩

theorem ios_old_partial (a b : List Entry) (h : appPart b = [] ∨ ∃ e ∈ a, e.isPermit = true) :
    mergeIOSOld a b = some (mergeIOS a b) := by
  unfold mergeIOSOld mergeIOS
  rcases h with h | ⟨e, he, hpe⟩
  · simp [h, insertBeforeTrailing_nil]
  · by_cases hA : appPart b = []
    · simp [hA, insertBeforeTrailing_nil]
    · have hany : (nonApp b ++ a).any Entry.isPermit = true := by
        simp only [List.any_eq_true]
        exact ⟨e, List.mem_append_right _ he, hpe⟩
      simp only [hA, if_false, hany, if_true]
      have := trailing_append_of_exists Entry.notPermit (nonApp b) a ⟨e, he, by simp [Entry.notPermit, hpe]⟩
      unfold insertBeforeTrailing
      rw [this.1, this.2]
      simp [List.append_assoc]

/-! ## Linux -/

theorem linux_append_after_last_permit_before_trailing_deny (a b : List Entry) :
    Placed Entry.isDrop (nonApp b) a (appPart b) (mergeLinux a b) :=
  placed_insert _ _ _ _

/-- In Linux terms: every ACCEPT rule of the Netspoc chain precedes the APPEND rules. -/
theorem linux_append_after_every_accept (a b : List Entry) :
    ∃ pre post, a = pre ++ post ∧ mergeLinux a b = nonApp b ++ pre ++ appPart b ++ post ∧
      ∀ e ∈ post, e.isPermit = false := by
  obtain ⟨pre, post, h1, h2, h3, _⟩ := linux_append_after_last_permit_before_trailing_deny a b
  refine ⟨pre, post, h1, h2, fun e he => ?_⟩
  have := h3 e he
  unfold Entry.isDrop at this
  unfold Entry.isPermit
  cases hk : e.kind <;> simp_all

theorem linux_merge_perm (a b : List Entry) : (mergeLinux a b).Perm (a ++ b) :=
  perm_parts a b _ (linux_append_after_last_permit_before_trailing_deny a b).perm

theorem linux_merge_sublist (a b : List Entry) :
    a.Sublist (mergeLinux a b) ∧ (nonApp b).Sublist (mergeLinux a b) ∧ (appPart b).Sublist (mergeLinux a b) :=
  let h := linux_append_after_last_permit_before_trailing_deny a b
  ⟨h.sub_net, h.sub_top, h.sub_app⟩

theorem linux_raw_first (a b : List Entry) :
    ∃ rest, mergeLinux a b = nonApp b ++ rest ∧ a.Sublist rest := by
  refine ⟨insertBeforeTrailing Entry.isDrop a (appPart b), rfl, ?_⟩
  have hp : Placed Entry.isDrop [] a (appPart b) ([] ++ insertBeforeTrailing Entry.isDrop a (appPart b)) :=
    placed_insert _ _ _ _
  simpa using hp.sub_net

theorem linux_raw_whole_order (a b : List Entry) : (nonApp b ++ appPart b).Sublist (mergeLinux a b) :=
  (linux_append_after_last_permit_before_trailing_deny a b).sub_top_app

/-- Code as found, F-C18b: two non-APPEND raw rules come out in reverse order. -/
theorem linux_old_prepend_reversed_counterexample :
    ∃ a b, ¬ (nonApp b).Sublist (mergeLinuxOld a b) :=
  ⟨[⟨10, .permit, false⟩], [⟨1, .permit, false⟩, ⟨2, .other, false⟩], by decide⟩

/-- Code as found, F-C18c: an APPEND part beginning with a DROP rule is reordered. -/
theorem linux_old_append_reordered_counterexample :
    ∃ a b, ¬ (appPart b).Sublist (mergeLinuxOld a b) :=
  ⟨[⟨10, .permit, false⟩, ⟨11, .deny, false⟩],
   [⟨1, .deny, true⟩, ⟨2, .permit, true⟩, ⟨3, .other, true⟩], by decide⟩

/-- Where the Linux code as found agrees with the repaired code: at most one non-APPEND rule
(complement of F-C18b), no DROP rule in the APPEND part except as its last rule (complement of F-C18c),
and the APPEND rules cannot slip in front of a prepended raw DROP rule (complement of the Linux case of F-C18d). -/
theorem linux_old_partial (a b : List Entry)
    (h1 : (nonApp b).length ≤ 1)
    (h2 : ∀ x ∈ (appPart b).dropLast, x.isDrop = false)
    (h3 : appPart b = [] ∨ (∃ x ∈ a, x.isDrop = false) ∨ ∀ p ∈ nonApp b, p.isDrop = false) :
    mergeLinuxOld a b = mergeLinux a b :=
  mergeLinuxOld_eq a b ⟨by simpa using h1, by simpa using h2, by simpa using h3⟩

/-! ## PAN-OS and NSX -/

theorem pan_merge_perm (a b : List Entry) : (mergePan a b).Perm (a ++ b) :=
  perm_parts a b _ (List.Perm.refl _)

theorem pan_merge_sublist (a b : List Entry) :
    a.Sublist (mergePan a b) ∧ (nonApp b).Sublist (mergePan a b) ∧ (appPart b).Sublist (mergePan a b) := by
  unfold mergePan
  refine ⟨?_, ?_, List.sublist_append_right _ _⟩
  · exact (List.sublist_append_right (nonApp b) a).trans (List.sublist_append_left _ _)
  · simp only [List.append_assoc]; exact List.sublist_append_left _ _

theorem pan_raw_first (a b : List Entry) :
    ∃ rest, mergePan a b = nonApp b ++ rest ∧ a.Sublist rest :=
  ⟨a ++ appPart b, by simp [mergePan], List.sublist_append_left _ _⟩

/-- PAN-OS: APPEND rules go to the end of the rulebase, behind all Netspoc rules. -/
theorem pan_append_after_all_netspoc_entries (a b : List Entry) :
    ∃ front, mergePan a b = front ++ appPart b ∧ a.Sublist front ∧ (nonApp b).Sublist front :=
  ⟨nonApp b ++ a, rfl, List.sublist_append_right _ _, List.sublist_append_left _ _⟩

theorem pan_raw_whole_order (a b : List Entry) : (nonApp b ++ appPart b).Sublist (mergePan a b) := by
  unfold mergePan
  simp only [List.append_assoc]
  exact List.Sublist.append (List.Sublist.refl _) (List.sublist_append_right _ _)

theorem nsx_merge_perm (a b : List Entry) : (mergeNsx a b).Perm (a ++ b) := List.Perm.refl _

theorem nsx_merge_sublist (a b : List Entry) : a.Sublist (mergeNsx a b) ∧ b.Sublist (mergeNsx a b) :=
  ⟨List.sublist_append_left _ _, List.sublist_append_right _ _⟩

/-- NSX: all rules of the merged part follow all rules merged so far. -/
theorem nsx_append_after_all_netspoc_entries (a b : List Entry) : mergeNsx a b = a ++ b := rfl

/-- PAN-OS objects: every object of both parts is in the merged vsys, each class in order. -/
theorem pan_objects_merged (a b : PanObjs) :
    (mergePanObjs a b).addresses = a.addresses ++ b.addresses ∧
    (mergePanObjs a b).addressGroups = a.addressGroups ++ b.addressGroups ∧
    (mergePanObjs a b).services = a.services ++ b.services ∧
    (mergePanObjs a b).serviceGroups = a.serviceGroups ++ b.serviceGroups := ⟨rfl, rfl, rfl, rfl⟩

/-- Code as found, F-C18h: a service-group of the raw (or IPv6) part is dropped. -/
theorem pan_old_service_group_dropped_counterexample :
    ∃ a b g, g ∈ b.serviceGroups ∧ g ∉ (mergePanObjsOld a b).serviceGroups :=
  ⟨{}, { services := [81], serviceGroups := [1] }, 1, by decide⟩

/-! ## The pipeline `loadSpoc`: IPv4, then IPv6, then raw (one ACL) -/

theorem asa_pipeline_perm (v4 v6 raw : List Entry) :
    (mergeASA (mergeASA v4 v6) raw).Perm (v4 ++ v6 ++ raw) :=
  (asa_merge_perm _ raw).trans ((asa_merge_perm v4 v6).append_right raw)

theorem asa_pipeline_sublist (v4 v6 raw : List Entry) :
    v4.Sublist (mergeASA (mergeASA v4 v6) raw) ∧ (nonApp v6).Sublist (mergeASA (mergeASA v4 v6) raw) ∧
    (nonApp raw).Sublist (mergeASA (mergeASA v4 v6) raw) ∧ (appPart raw).Sublist (mergeASA (mergeASA v4 v6) raw) := by
  have h1 := asa_merge_sublist v4 v6
  have h2 := asa_merge_sublist (mergeASA v4 v6) raw
  exact ⟨h1.1.trans h2.1, h1.2.1.trans h2.1, h2.2.1, h2.2.2⟩

/-! ## unmergeable_reported — the ACL-binding fragment of `mergeCmds` / `mergeRefs` (ASA and IOS)

`mergeCisco dev .new a f` is the repaired merge of file `f` (raw or IPv6) into configuration `a`;
`.error e` stands for the abort with a diagnostic, the second component of `.ok` for the
"Ignoring unused …" warnings. -/

/-- An unknown top-level command in a raw file is an error of the parser. -/
theorem raw_unknown_command_reported (dev : Dev) (f : File) (hr : f.isRaw = true) (hu : f.unknownTop = true) :
    f.parseErr dev = some .unknownCmd := by
  simp [File.parseErr, hr, hu]

/-- A binding that names an ACL the file does not define is an error of the parser. -/
theorem unknown_reference_reported (f : File) (k : Anchor) (hk : k ∈ f.anchors) (hn : f.table.has k.acl = false) :
    ∃ e, f.parseErr .asa = some e ∧ f.parseErr .ios = some e := by
  unfold File.parseErr
  by_cases h : (f.isRaw && f.unknownTop) = true
  · exact ⟨.unknownCmd, by simp [h], by simp [h]⟩
  · simp only [h]
    cases hf : f.anchors.find? (fun k => !(f.table.has k.acl)) with
    | some k' => exact ⟨_, rfl, rfl⟩
    | none =>
      have := List.find?_eq_none.mp hf k hk
      simp [hn] at this

/-- A parse error ends `loadSpoc` with that error. -/
theorem loadSpoc_reports_raw_parse_error (dev : Dev) (g : Gen) (v4 v6 raw : File) (e : Err)
    (h4 : v4.parseErr dev = none) (h6 : v6.parseErr dev = none) (hr : raw.parseErr dev = some e)
    (c : Conf) (w : List Nat) (hm : mergeSpoc dev g (v4.toConf dev) v6 = .ok (c, w)) :
    loadSpoc dev g v4 v6 raw = .error e := by
  simp [loadSpoc, h4, h6, hr, hm, bind, Except.bind, throw, throwThe, MonadExceptOf.throw]

/-- Doubly bound object: two bindings of a raw file name the same ACL ⇒ the merge ends in an error
(name clash or "Must reference … only once in raw"). -/
theorem cisco_bound_twice_reported (dev : Dev) (a : Conf) (f : File) (l1 l2 l3 : List Anchor) (k1 k2 : Anchor)
    (hraw : f.isRaw = true) (hl : f.anchors = l1 ++ k1 :: (l2 ++ k2 :: l3)) (hk : k1.acl = k2.acl) :
    ∃ e, mergeCisco dev .new a f = .error e := by
  unfold mergeCisco
  rw [hraw, hl]
  obtain ⟨e, he⟩ := fold_err_of_dup dev a.anchors f.table l1 l2 l3 k1 k2 hk { conts := a.conts, anchors := a.anchors }
  exact ⟨e, by rw [he]⟩

/-- Code as found, F-C18e: a raw ACL bound at a place Netspoc also binds and then at a new place is
merged twice without any message. -/
theorem cisco_old_bound_twice_counterexample :
    ∃ a f k1 k2, f.isRaw = true ∧ f.anchors = [k1, k2] ∧ k1.acl = k2.acl ∧
      (mergeCisco .asa .old a f).toBool = true :=
  ⟨{ conts := [(1, false, [⟨10, .permit, false⟩, ⟨11, .deny, false⟩])], anchors := [⟨0, 1⟩] },
   { isRaw := true, conts := [{ name := 2, lines := [{ e := ⟨1, .permit, false⟩ }] }], anchors := [⟨0, 2⟩, ⟨3, 2⟩] },
   ⟨0, 2⟩, ⟨3, 2⟩, by decide⟩

/-- Name clash: a raw binding at a place unknown to Netspoc whose ACL name Netspoc already uses ⇒ error. -/
theorem cisco_name_clash_reported (dev : Dev) (g : Gen) (a : Conf) (f : File) (k : Anchor) (rest : List Anchor)
    (hraw : f.isRaw = true) (hl : f.anchors = k :: rest)
    (hnew : a.anchors.find? (fun ka => ka.key == k.key) = none) (hclash : a.conts.has k.acl = true) :
    mergeCisco dev g a f = .error (.nameClash k.acl) := by
  unfold mergeCisco
  rw [hraw, hl]
  simp [foldExcept, ciscoStep, hnew, hclash]

/-- Unbound object: a raw ACL that no binding of the raw file names is listed in the warnings. -/
theorem cisco_unbound_raw_object_warned (dev : Dev) (g : Gen) (a : Conf) (f : File) (c : Conf) (w : List Nat)
    (h : mergeCisco dev g a f = .ok (c, w)) (hraw : f.isRaw = true) (ct : Cont) (hct : ct ∈ f.conts)
    (hun : ∀ k ∈ f.anchors, k.acl ≠ ct.name) : ct.name ∈ w := by
  obtain ⟨st, hst, _, rfl⟩ := mergeCisco_ok dev g a f c w h
  unfold unusedWarnings
  simp only [hraw, if_true, List.mem_filter, List.mem_map]
  refine ⟨?_, ?_⟩
  · have hh := table_has f ct hct
    unfold Table.has at hh
    obtain ⟨x, hx, hx2⟩ := List.any_eq_true.mp hh
    exact ⟨x, hx, by simpa using hx2⟩
  · have : ct.name ∉ st.refd := by
      intro hin
      rcases fold_refd_subset dev g f.isRaw a.anchors f.table _ st f.anchors hst ct.name hin with h0 | ⟨k, hk, hk2⟩
      · cases h0
      · exact hun k hk hk2
    simpa using this

/-- **unmergeable_reported** (for the lines the parser knows): merging a raw file either ends in an
error, or every ACL of the raw file is named in a warning, or it is bound and all its known lines are
in the ACL that the result binds at the same place. -/
theorem cisco_raw_lines_merged_or_reported (dev : Dev) (a : Conf) (f : File) (hraw : f.isRaw = true) :
    (∃ e, mergeCisco dev .new a f = .error e) ∨
    ∃ c w, mergeCisco dev .new a f = .ok (c, w) ∧ ∀ ct ∈ f.conts,
      ct.name ∈ w ∨
      ∃ k ∈ f.anchors, k.acl = ct.name ∧ ∃ k' ∈ c.anchors, k'.key = k.key ∧
        ∀ l ∈ ct.lines, l.known = true → l.e ∈ linesOf c.conts k'.acl := by
  cases h : mergeCisco dev .new a f with
  | error e => exact Or.inl ⟨e, rfl⟩
  | ok cw =>
    obtain ⟨c, w⟩ := cw
    right
    refine ⟨c, w, rfl, fun ct hct => ?_⟩
    by_cases hb : ∃ k ∈ f.anchors, k.acl = ct.name
    · right
      obtain ⟨k, hk, hka⟩ := hb
      obtain ⟨st, hst, rfl, _⟩ := mergeCisco_ok dev .new a f c w h
      rw [hraw] at hst
      have hsafe := safeRun_of_raw dev .new a.anchors f.table _ st f.anchors hst
      obtain ⟨k', hk', hkey, hl⟩ :=
        fold_landed dev true a.anchors f.table _ st f.anchors (fun ka hka => hka) hst hsafe k hk
      refine ⟨k, hk, hka, k', hk', hkey, fun l hl' hkn => hl _ ?_⟩
      rw [hka]
      exact table_lines f ct hct l hl' hkn
    · left
      refine cisco_unbound_raw_object_warned dev .new a f c w h hraw ct hct (fun k hk hka => hb ⟨k, hk, hka⟩)

/-- F-C18f: an unknown sub-command inside a raw IOS ACL is dropped without error or warning. -/
theorem cisco_unknown_subcommand_counterexample :
    ∃ (a : Conf) (f : File) (ct : Cont) (l : SrcLine) (c : Conf),
      f.isRaw = true ∧ ct ∈ f.conts ∧ l ∈ ct.lines ∧ l.known = false ∧ f.parseErr .ios = none ∧
      mergeCisco .ios .new a f = .ok (c, []) ∧ ∀ x ∈ c.conts, l.e ∉ x.2.2 :=
  ⟨{ conts := [(1, false, [⟨10, .permit, false⟩])], anchors := [⟨0, 1⟩] },
   { isRaw := true, conts := [{ name := 2, lines := [{ e := ⟨1, .permit, false⟩ }, { e := ⟨2, .permit, false⟩, known := false }] }],
     anchors := [⟨0, 2⟩] },
   { name := 2, lines := [{ e := ⟨1, .permit, false⟩ }, { e := ⟨2, .permit, false⟩, known := false }] },
   { e := ⟨2, .permit, false⟩, known := false },
   { conts := [(1, false, [⟨1, .permit, false⟩, ⟨10, .permit, false⟩])], anchors := [⟨0, 1⟩] },
   by decide⟩

/-- A raw merge never loses a line or a binding of the configuration merged so far. -/
theorem cisco_netspoc_lines_kept (dev : Dev) (a : Conf) (f : File) (c : Conf) (w : List Nat) (hraw : f.isRaw = true)
    (h : mergeCisco dev .new a f = .ok (c, w)) :
    (∀ n e, e ∈ linesOf a.conts n → e ∈ linesOf c.conts n) ∧ (∀ k ∈ a.anchors, k ∈ c.anchors) := by
  obtain ⟨st, hst, rfl, _⟩ := mergeCisco_ok dev .new a f c w h
  rw [hraw] at hst
  exact fold_grow dev true a.anchors f.table _ st f.anchors hst (safeRun_of_raw dev .new a.anchors f.table _ st f.anchors hst)

/-- The same for an IPv6 file, if no new binding of it reuses the name of an existing ACL
(`safeMerge`, decidable; its failure is F-C18g); then also all lines of the IPv6 file are merged. -/
theorem cisco_netspoc_lines_kept_partial (dev : Dev) (a : Conf) (f : File) (c : Conf) (w : List Nat)
    (hsafe : safeMerge dev .new a f = true)
    (h : mergeCisco dev .new a f = .ok (c, w)) :
    (∀ n e, e ∈ linesOf a.conts n → e ∈ linesOf c.conts n) ∧ (∀ k ∈ a.anchors, k ∈ c.anchors) ∧
    ∀ k ∈ f.anchors, ∃ k' ∈ c.anchors, k'.key = k.key ∧ ∀ e ∈ linesOf f.table k.acl, e ∈ linesOf c.conts k'.acl := by
  obtain ⟨st, hst, rfl, _⟩ := mergeCisco_ok dev .new a f c w h
  have hg := fold_grow dev f.isRaw a.anchors f.table _ st f.anchors hst hsafe
  exact ⟨hg.1, hg.2, fold_landed dev f.isRaw a.anchors f.table _ st f.anchors (fun ka hka => hka) hst hsafe⟩

/-- F-C18g: an IPv6 file that binds, at a place the IPv4 file does not bind, an ACL whose name the
IPv4 file uses: the IPv4 lines are gone, no message. -/
theorem cisco_v6_shared_name_counterexample :
    ∃ (a : Conf) (f : File) (c : Conf) (e : Entry),
      f.isRaw = false ∧ mergeCisco .asa .new a f = .ok (c, []) ∧ e ∈ linesOf a.conts 1 ∧ e ∉ linesOf c.conts 1 :=
  ⟨{ conts := [(1, false, [⟨1, .permit, false⟩, ⟨2, .deny, false⟩])], anchors := [⟨0, 1⟩] },
   { conts := [{ name := 1, lines := [{ e := ⟨3, .permit, false⟩ }, { e := ⟨4, .any6, false⟩ }] }], anchors := [⟨3, 1⟩] },
   { conts := [(1, false, [⟨3, .permit, false⟩, ⟨4, .any6, false⟩])], anchors := [⟨0, 1⟩, ⟨3, 1⟩] },
   ⟨1, .permit, false⟩, by decide⟩

/-- Link between the binding level and the list laws: a raw file with one binding at a place Netspoc
also binds yields, for that ACL, exactly the list merge of Netspoc's lines with the raw lines — so
`asa_…`/`ios_…` placement, permutation and order theorems apply to the ACL of the result. -/
theorem cisco_single_binding_merge (dev : Dev) (a : Conf) (f : File) (k ka : Anchor) (r : List Entry)
    (hl : f.anchors = [k]) (hm : a.anchors.find? (fun x => x.key == k.key) = some ka)
    (hr : mergeLines dev .new (linesOf a.conts ka.acl) (linesOf f.table k.acl) = .ok r) :
    ∃ c w, mergeCisco dev .new a f = .ok (c, w) ∧ linesOf c.conts ka.acl = r ∧ c.anchors = a.anchors := by
  unfold mergeCisco
  rw [hl]
  simp only [foldExcept, ciscoStep, hm, List.contains_nil, Bool.false_eq_true, if_false, hr]
  exact ⟨_, _, rfl, linesOf_set_same _ _ _ _, rfl⟩

/-- The name used in DESIGN.md for the main statement of this part. -/
theorem unmergeable_reported (dev : Dev) (a : Conf) (f : File) (hraw : f.isRaw = true) :
    (∃ e, mergeCisco dev .new a f = .error e) ∨
    ∃ c w, mergeCisco dev .new a f = .ok (c, w) ∧ ∀ ct ∈ f.conts,
      ct.name ∈ w ∨
      ∃ k ∈ f.anchors, k.acl = ct.name ∧ ∃ k' ∈ c.anchors, k'.key = k.key ∧
        ∀ l ∈ ct.lines, l.known = true → l.e ∈ linesOf c.conts k'.acl :=
  cisco_raw_lines_merged_or_reported dev a f hraw

/-! Non-vacuity: the hypotheses of the conditional theorems are satisfiable. -/
def exConf : Conf := { conts := [(1, false, [⟨10, .permit, false⟩, ⟨11, .deny, false⟩])], anchors := [⟨0, 1⟩] }
def exRaw : File :=
  { isRaw := true, conts := [{ name := 2, lines := [{ e := ⟨1, .permit, false⟩ }, { e := ⟨2, .deny, true⟩ }] }], anchors := [⟨0, 2⟩] }
def exRaw2 : File := { exRaw with anchors := [⟨0, 2⟩, ⟨3, 2⟩] }
def exV6 : File := { conts := [{ name := 1, lines := [{ e := ⟨3, .permit, false⟩ }, { e := ⟨4, .any6, false⟩ }] }], anchors := [⟨0, 1⟩] }
-- a raw merge that succeeds and one that binds an ACL twice
example : mergeCisco .asa .new exConf exRaw =
    .ok ({ conts := [(1, false, [⟨1, .permit, false⟩, ⟨10, .permit, false⟩, ⟨2, .deny, true⟩, ⟨11, .deny, false⟩])],
           anchors := [⟨0, 1⟩] }, []) := by decide
example : exRaw2.isRaw = true ∧ exRaw2.anchors = [] ++ ⟨0, 2⟩ :: ([] ++ ⟨3, 2⟩ :: []) := by decide
example : mergeCisco .asa .new exConf exRaw2 = .error (.onlyOnce 2) := by decide
-- an IPv6 merge that satisfies `safeMerge`
example : safeMerge .asa .new exConf exV6 = true := by decide
example : (mergeCisco .asa .new exConf exV6).toBool = true := by decide
-- name clash and parse errors
example : mergeCisco .ios .new exConf { exRaw with conts := [{ name := 1, lines := [] }], anchors := [⟨3, 1⟩] } = .error (.nameClash 1) := by
  decide
example : File.parseErr .asa { exRaw with anchors := [⟨0, 7⟩] } = some (.unknownRef 7) := by decide

example : (asaSplit [⟨10, .permit, false⟩] [⟨1, .deny, false⟩, ⟨2, .deny, true⟩]).1
    = nonApp [⟨1, .deny, false⟩, ⟨2, .deny, true⟩] := by decide
example : appPart [⟨1, .deny, false⟩] = [] ∨ ∃ e ∈ (asaSplit [] [⟨1, .deny, false⟩]).2, e.isPermit = true :=
  Or.inl (by decide)
example : ∃ e ∈ [(⟨10, .permit, false⟩ : Entry)], e.isPermit = true := ⟨_, List.mem_singleton.mpr rfl, by decide⟩
-- the test of linux_raw.t ("Merge Linux chains") meets the hypotheses of linux_old_partial
example : (nonApp [⟨1, .other, false⟩, ⟨2, .deny, true⟩]).length ≤ 1 ∧
    (∀ x ∈ (appPart [⟨1, .other, false⟩, ⟨2, .deny, true⟩]).dropLast, x.isDrop = false) ∧
    (∃ x ∈ [(⟨10, .permit, false⟩ : Entry), ⟨11, .deny, false⟩], x.isDrop = false) := by decide

/-- Spec consistency only — NOT counted as obligations.  For these the small model of rounds 1/2 IS the
specification form (`mergePan := nonApp b ++ a ++ appPart b`, `mergeNsx := a ++ b`, `unknownTop` is a field of the
model's `File`), so the statements hold by unfolding; they only show that the spec is self-consistent.  What the real
PAN-OS / NSX / Linux code does is covered by the ports in `NA/Model/MergeOther.lean` and `NA/Props/C18Other.lean`. -/
def specConsistency : List Lean.Name := [
  ``nsx_merge_perm, ``nsx_merge_sublist, ``nsx_append_after_all_netspoc_entries, ``pan_merge_perm,
  ``pan_merge_sublist, ``pan_raw_first, ``pan_append_after_all_netspoc_entries, ``pan_raw_whole_order,
  ``pan_objects_merged, ``raw_unknown_command_reported, ``unknown_reference_reported,
  ``loadSpoc_reports_raw_parse_error, ``cisco_name_clash_reported]

def obligations : List Lean.Name := [
  ``asa_merge_perm, ``asa_merge_sublist, ``asa_raw_first,
  ``asa_append_after_last_permit_before_trailing_deny, ``asa_raw_whole_order, ``asa_old_panic_counterexample,
  ``asa_old_raw_order_counterexample, ``asa_old_partial, ``ios_merge_perm, ``ios_merge_sublist,
  ``ios_raw_first, ``ios_append_after_last_permit_before_trailing_deny, ``ios_raw_whole_order,
  ``ios_old_panic_counterexample, ``ios_old_raw_order_counterexample, ``ios_old_partial, ``linux_merge_perm,
  ``linux_merge_sublist, ``linux_raw_first, ``linux_append_after_last_permit_before_trailing_deny,
  ``linux_append_after_every_accept, ``linux_raw_whole_order, ``linux_old_prepend_reversed_counterexample,
  ``linux_old_append_reordered_counterexample, ``linux_old_partial,
  ``pan_old_service_group_dropped_counterexample, ``asa_pipeline_perm, ``asa_pipeline_sublist,
  ``cisco_bound_twice_reported, ``cisco_old_bound_twice_counterexample, ``cisco_unbound_raw_object_warned,
  ``cisco_raw_lines_merged_or_reported, ``unmergeable_reported, ``cisco_single_binding_merge,
  ``cisco_unknown_subcommand_counterexample, ``cisco_netspoc_lines_kept, ``cisco_netspoc_lines_kept_partial,
  ``cisco_v6_shared_name_counterexample]

end NA.C18
