import NA.Proofs.C18
/-!
# C18 — raw and IPv6 parts are merged completely and in the documented order

Property theorems only.  `a` is the configuration merged so far (Netspoc IPv4, or IPv4 merged with
IPv6), `b` the part merged into it (IPv6 or the raw file); all statements hold for ALL lists.

Per backend (`asa_`, `ios_`, `linux_`, `pan_`, `nsx_`):
* `…_merge_perm`     the result is a permutation of `a ++ b` (every entry exactly once),
* `…_merge_sublist`  every part (`a`, the non-APPEND part of `b`, the APPEND part of `b`) is a sublist
                     of the result (relative order kept),
* `…_raw_first`      the non-APPEND entries of `b` are a prefix of the result, all entries of `a` follow
                     (ASA: except the documented trailing `deny ip any6 any6`),
* `…_append_after_last_permit_before_trailing_deny` (ASA, IOS, Linux) resp.
  `…_append_after_all_netspoc_entries` (PAN-OS, NSX),
* `…_raw_whole_order` the raw file as a whole (non-APPEND part then APPEND part) keeps its order.

The code as found is refuted by `…_old_…_counterexample`; the full theorems are about the repaired
code (`fix:` commits ab4fc9f, deffa57 in /repo).  `…_old_partial` states where old and new agree.
-/
namespace NA.C18

/-! ## ASA -/

/-- The two shapes of `asaSplit`: nothing is moved, or the last non-APPEND line of `b` is
`deny ip any6 any6` and goes behind the lines of `a`. -/
theorem asaSplit_cases (a b : List Entry) :
    asaSplit a b = (nonApp b, a) ∨
    ∃ init x, x.isAny6 = true ∧ nonApp b = init ++ [x] ∧ asaSplit a b = (init, a ++ [x]) := by
  unfold asaSplit
  simp only
  split
  · rename_i x hx
    split
    · rename_i h6
      right
      obtain ⟨ys, hys⟩ := List.getLast?_eq_some_iff.mp hx
      exact ⟨ys, x, h6, hys, by rw [hys]; simp⟩
    · left; rfl
  · left; rfl

theorem asaSplit_fst (a b : List Entry) :
    (asaSplit a b).1 = nonApp b ∨
    ∃ x, x.isAny6 = true ∧ nonApp b = (asaSplit a b).1 ++ [x] ∧ (asaSplit a b).2 = a ++ [x] := by
  rcases asaSplit_cases a b with h | ⟨init, x, hx, hp, h⟩
  · left; rw [h]
  · right; exact ⟨x, hx, by rw [h]; exact hp, by rw [h]⟩

theorem asaSplit_snd (a b : List Entry) :
    (asaSplit a b).2 = a ∨ ∃ x, x.isAny6 = true ∧ (asaSplit a b).2 = a ++ [x] := by
  rcases asaSplit_cases a b with h | ⟨init, x, hx, _, h⟩
  · left; rw [h]
  · right; exact ⟨x, hx, by rw [h]⟩

/-- `(top lines) ++ (Netspoc lines incl. a moved any6 line)` is a permutation of `nonApp b ++ a`. -/
theorem asaSplit_perm (a b : List Entry) :
    ((asaSplit a b).1 ++ (asaSplit a b).2).Perm (nonApp b ++ a) := by
  rcases asaSplit_cases a b with h | ⟨init, x, _, hp, h⟩
  · rw [h]
  · rw [h, hp]
    simp only [List.append_assoc]
    refine List.Perm.append_left _ ?_
    exact List.perm_append_comm

/-- The placement law of the ASA merge; everything else follows from it. -/
theorem asa_append_after_last_permit_before_trailing_deny (a b : List Entry) :
    Placed Entry.notPermit (asaSplit a b).1 (asaSplit a b).2 (appPart b) (mergeASA a b) :=
  placed_insert _ _ _ _

theorem asa_merge_perm (a b : List Entry) : (mergeASA a b).Perm (a ++ b) := by
  have h := (asa_append_after_last_permit_before_trailing_deny a b).perm
  refine h.trans ?_
  have h1 := (asaSplit_perm a b).append_right (appPart b)
  refine h1.trans ?_
  -- nonApp b ++ a ++ appPart b ~ a ++ b
  have h2 : (nonApp b ++ a ++ appPart b).Perm (a ++ (nonApp b ++ appPart b)) := by
    simp only [List.append_assoc]
    exact (List.perm_append_comm_assoc (nonApp b) a (appPart b))
  exact h2.trans (List.Perm.append_left a (nonApp_append_appPart_perm b))

theorem any6_notPermit (x : Entry) (h : x.isAny6 = true) : x.notPermit = true := by
  unfold Entry.isAny6 at h
  unfold Entry.notPermit Entry.isPermit
  cases hk : x.kind <;> simp_all

theorem trailing_snoc (q : Entry → Bool) (l : List Entry) (x : Entry) (h : q x = true) :
    trailing q (l ++ [x]) = trailing q l ++ [x] ∧ upto q (l ++ [x]) = upto q l := by
  unfold trailing upto
  simp [List.reverse_append, h]

theorem asa_merge_sublist (a b : List Entry) :
    a.Sublist (mergeASA a b) ∧ (nonApp b).Sublist (mergeASA a b) ∧ (appPart b).Sublist (mergeASA a b) := by
  have hp := asa_append_after_last_permit_before_trailing_deny a b
  refine ⟨?_, ?_, hp.sub_app⟩
  · rcases asaSplit_snd a b with h | ⟨x, _, h⟩
    · have := hp.sub_net; rwa [h] at this
    · have := hp.sub_net
      rw [h] at this
      exact (List.sublist_append_left a [x]).trans this
  · rcases asaSplit_fst a b with h | ⟨x, hx, hP, hN⟩
    · have := hp.sub_top; rwa [h] at this
    · -- the moved any6 line is the last line of the result
      have hm : mergeASA a b = (asaSplit a b).1 ++
          (upto Entry.notPermit (asaSplit a b).2 ++ appPart b ++ trailing Entry.notPermit (asaSplit a b).2) := rfl
      rw [hP, hm, hN]
      have ht := trailing_snoc Entry.notPermit a x (any6_notPermit x hx)
      rw [ht.1, ht.2]
      refine List.Sublist.append (List.Sublist.refl _) ?_
      exact (List.sublist_append_right (trailing Entry.notPermit a) [x]).trans
        (List.sublist_append_right (upto Entry.notPermit a ++ appPart b) _)

/-- Raw first: the non-APPEND lines of `b` (without a moved trailing `deny ip any6 any6`) are a prefix of
the result and every line of `a` comes behind them. -/
theorem asa_raw_first (a b : List Entry) :
    ∃ rest, mergeASA a b = (asaSplit a b).1 ++ rest ∧ a.Sublist rest ∧
      ((asaSplit a b).1 = nonApp b ∨ ∃ x, x.isAny6 = true ∧ nonApp b = (asaSplit a b).1 ++ [x]) := by
  refine ⟨insertBeforeTrailing Entry.notPermit (asaSplit a b).2 (appPart b), rfl, ?_, ?_⟩
  · have hp : Placed Entry.notPermit [] (asaSplit a b).2 (appPart b)
        ([] ++ insertBeforeTrailing Entry.notPermit (asaSplit a b).2 (appPart b)) := placed_insert _ _ _ _
    have hs := hp.sub_net
    simp only [List.nil_append] at hs
    rcases asaSplit_snd a b with h | ⟨x, _, h⟩
    · rw [h] at hs ⊢; exact hs
    · rw [h] at hs ⊢; exact (List.sublist_append_left a [x]).trans hs
  · rcases asaSplit_fst a b with h | ⟨x, hx, hP, _⟩
    · exact Or.inl h
    · exact Or.inr ⟨x, hx, hP⟩

/-- The raw file as a whole keeps its order, unless the any6 exception moves a line. -/
theorem asa_raw_whole_order (a b : List Entry) (h : (asaSplit a b).1 = nonApp b) :
    (nonApp b ++ appPart b).Sublist (mergeASA a b) := by
  have := (asa_append_after_last_permit_before_trailing_deny a b).sub_top_app
  rwa [h] at this

/-- Code as found, F-C18a: `[APPEND]` lines and no permit line ⇒ `acl[:-1]` panics. -/
theorem asa_old_panic_counterexample :
    ∃ a b, mergeASAOld a b = none :=
  ⟨[⟨10, .deny, false⟩], [⟨1, .deny, false⟩, ⟨2, .deny, true⟩], by decide⟩

/-- Code as found, F-C18d: the last permit line is a prepended raw line ⇒ the `[APPEND]` lines land
in front of later non-APPEND raw lines; the raw file does not keep its order. -/
theorem asa_old_raw_order_counterexample :
    ∃ a b r, (asaSplit a b).1 = nonApp b ∧ mergeASAOld a b = some r ∧ ¬ (nonApp b ++ appPart b).Sublist r :=
  ⟨[⟨10, .deny, false⟩], [⟨1, .permit, false⟩, ⟨2, .deny, false⟩, ⟨3, .deny, true⟩],
   [⟨1, .permit, false⟩, ⟨3, .deny, true⟩, ⟨2, .deny, false⟩, ⟨10, .deny, false⟩], by decide⟩

/-- Where the code as found agrees with the repaired code: no `[APPEND]` line, or a permit line
among the Netspoc entries (the complement of F-C18a / F-C18d). -/
theorem asa_old_partial (a b : List Entry)
    (h : appPart b = [] ∨ ∃ e ∈ (asaSplit a b).2, e.isPermit = true) :
    mergeASAOld a b = some (mergeASA a b) := by
  unfold mergeASAOld mergeASA
  rcases h with h | ⟨e, he, hpe⟩
  · simp [h, insertBeforeTrailing_nil]
  · by_cases hA : appPart b = []
    · simp [hA, insertBeforeTrailing_nil]
    · have hany : ((asaSplit a b).1 ++ (asaSplit a b).2).any Entry.isPermit = true := by
        simp only [List.any_eq_true]
        exact ⟨e, List.mem_append_right _ he, hpe⟩
      simp only [hA, if_false, hany, if_true]
      have := trailing_append_of_exists Entry.notPermit (asaSplit a b).1 (asaSplit a b).2
        ⟨e, he, by simp [Entry.notPermit, hpe]⟩
      unfold insertBeforeTrailing
      rw [this.1, this.2]
      simp [List.append_assoc]

/-! ## IOS -/

theorem ios_append_after_last_permit_before_trailing_deny (a b : List Entry) :
    Placed Entry.notPermit (nonApp b) a (appPart b) (mergeIOS a b) :=
  placed_insert _ _ _ _

theorem perm_parts (a b r : List Entry) (h : r.Perm (nonApp b ++ a ++ appPart b)) : r.Perm (a ++ b) := by
  refine h.trans ?_
  have h2 : (nonApp b ++ a ++ appPart b).Perm (a ++ (nonApp b ++ appPart b)) := by
    simp only [List.append_assoc]
    exact (List.perm_append_comm_assoc (nonApp b) a (appPart b))
  exact h2.trans (List.Perm.append_left a (nonApp_append_appPart_perm b))

theorem ios_merge_perm (a b : List Entry) : (mergeIOS a b).Perm (a ++ b) :=
  perm_parts a b _ (ios_append_after_last_permit_before_trailing_deny a b).perm

theorem ios_merge_sublist (a b : List Entry) :
    a.Sublist (mergeIOS a b) ∧ (nonApp b).Sublist (mergeIOS a b) ∧ (appPart b).Sublist (mergeIOS a b) :=
  let h := ios_append_after_last_permit_before_trailing_deny a b
  ⟨h.sub_net, h.sub_top, h.sub_app⟩

theorem ios_raw_first (a b : List Entry) :
    ∃ rest, mergeIOS a b = nonApp b ++ rest ∧ a.Sublist rest := by
  refine ⟨insertBeforeTrailing Entry.notPermit a (appPart b), rfl, ?_⟩
  have hp : Placed Entry.notPermit [] a (appPart b) ([] ++ insertBeforeTrailing Entry.notPermit a (appPart b)) :=
    placed_insert _ _ _ _
  simpa using hp.sub_net

theorem ios_raw_whole_order (a b : List Entry) : (nonApp b ++ appPart b).Sublist (mergeIOS a b) :=
  (ios_append_after_last_permit_before_trailing_deny a b).sub_top_app

theorem ios_old_panic_counterexample : ∃ a b, mergeIOSOld a b = none :=
  ⟨[], [⟨1, .deny, true⟩], by decide⟩

theorem ios_old_raw_order_counterexample :
    ∃ a b r, mergeIOSOld a b = some r ∧ ¬ (nonApp b ++ appPart b).Sublist r :=
  ⟨[⟨10, .deny, false⟩], [⟨1, .permit, false⟩, ⟨2, .deny, false⟩, ⟨3, .deny, true⟩],
   [⟨1, .permit, false⟩, ⟨3, .deny, true⟩, ⟨2, .deny, false⟩, ⟨10, .deny, false⟩], by decide⟩

theorem ios_old_partial (a b : List Entry) (h : appPart b = [] ∨ ∃ e ∈ a, e.isPermit = true) :
    mergeIOSOld a b = some (mergeIOS a b) := by
  unfold mergeIOSOld mergeIOS
  rcases h with h | ⟨e, he, hpe⟩
  · simp [h, insertBeforeTrailing_nil]
  · by_cases hA : appPart b = []
    · simp [hA, insertBeforeTrailing_nil]
    · have hany : (nonApp b ++ a).any Entry.isPermit = true := by
        simp only [List.any_eq_true]
        exact ⟨e, List.mem_append_right _ he, hpe⟩
      simp only [hA, if_false, hany, if_true]
      have := trailing_append_of_exists Entry.notPermit (nonApp b) a ⟨e, he, by simp [Entry.notPermit, hpe]⟩
      unfold insertBeforeTrailing
      rw [this.1, this.2]
      simp [List.append_assoc]

/-! ## Linux -/

theorem linux_append_after_last_permit_before_trailing_deny (a b : List Entry) :
    Placed Entry.isDrop (nonApp b) a (appPart b) (mergeLinux a b) :=
  placed_insert _ _ _ _

/-- In Linux terms: every ACCEPT rule of the Netspoc chain precedes the APPEND rules. -/
theorem linux_append_after_every_accept (a b : List Entry) :
    ∃ pre post, a = pre ++ post ∧ mergeLinux a b = nonApp b ++ pre ++ appPart b ++ post ∧
      ∀ e ∈ post, e.isPermit = false := by
  obtain ⟨pre, post, h1, h2, h3, _⟩ := linux_append_after_last_permit_before_trailing_deny a b
  refine ⟨pre, post, h1, h2, fun e he => ?_⟩
  have := h3 e he
  unfold Entry.isDrop at this
  unfold Entry.isPermit
  cases hk : e.kind <;> simp_all

theorem linux_merge_perm (a b : List Entry) : (mergeLinux a b).Perm (a ++ b) :=
  perm_parts a b _ (linux_append_after_last_permit_before_trailing_deny a b).perm

theorem linux_merge_sublist (a b : List Entry) :
    a.Sublist (mergeLinux a b) ∧ (nonApp b).Sublist (mergeLinux a b) ∧ (appPart b).Sublist (mergeLinux a b) :=
  let h := linux_append_after_last_permit_before_trailing_deny a b
  ⟨h.sub_net, h.sub_top, h.sub_app⟩

theorem linux_raw_first (a b : List Entry) :
    ∃ rest, mergeLinux a b = nonApp b ++ rest ∧ a.Sublist rest := by
  refine ⟨insertBeforeTrailing Entry.isDrop a (appPart b), rfl, ?_⟩
  have hp : Placed Entry.isDrop [] a (appPart b) ([] ++ insertBeforeTrailing Entry.isDrop a (appPart b)) :=
    placed_insert _ _ _ _
  simpa using hp.sub_net

theorem linux_raw_whole_order (a b : List Entry) : (nonApp b ++ appPart b).Sublist (mergeLinux a b) :=
  (linux_append_after_last_permit_before_trailing_deny a b).sub_top_app

/-- Code as found, F-C18b: two non-APPEND raw rules come out in reverse order. -/
theorem linux_old_prepend_reversed_counterexample :
    ∃ a b, ¬ (nonApp b).Sublist (mergeLinuxOld a b) :=
  ⟨[⟨10, .permit, false⟩], [⟨1, .permit, false⟩, ⟨2, .other, false⟩], by decide⟩

/-- Code as found, F-C18c: an APPEND part beginning with a DROP rule is reordered. -/
theorem linux_old_append_reordered_counterexample :
    ∃ a b, ¬ (appPart b).Sublist (mergeLinuxOld a b) :=
  ⟨[⟨10, .permit, false⟩, ⟨11, .deny, false⟩],
   [⟨1, .deny, true⟩, ⟨2, .permit, true⟩, ⟨3, .other, true⟩], by decide⟩

/-- Code as found: a single rule is placed as by the repaired code when … it is the only one. -/
theorem linux_old_partial (a : List Entry) (e : Entry) :
    mergeLinuxOld a [e] = mergeLinux a [e] := by
  unfold mergeLinuxOld mergeLinux linuxStepOld nonApp appPart
  cases he : e.app with
  | false => simp [he, insertBeforeTrailing_nil]
  | true => simp [he]

/-! ## PAN-OS and NSX -/

theorem pan_merge_perm (a b : List Entry) : (mergePan a b).Perm (a ++ b) :=
  perm_parts a b _ (List.Perm.refl _)

theorem pan_merge_sublist (a b : List Entry) :
    a.Sublist (mergePan a b) ∧ (nonApp b).Sublist (mergePan a b) ∧ (appPart b).Sublist (mergePan a b) := by
  unfold mergePan
  refine ⟨?_, ?_, List.sublist_append_right _ _⟩
  · exact (List.sublist_append_right (nonApp b) a).trans (List.sublist_append_left _ _)
  · simp only [List.append_assoc]; exact List.sublist_append_left _ _

theorem pan_raw_first (a b : List Entry) :
    ∃ rest, mergePan a b = nonApp b ++ rest ∧ a.Sublist rest :=
  ⟨a ++ appPart b, by simp [mergePan], List.sublist_append_left _ _⟩

/-- PAN-OS: APPEND rules go to the end of the rulebase, behind all Netspoc rules. -/
theorem pan_append_after_all_netspoc_entries (a b : List Entry) :
    ∃ front, mergePan a b = front ++ appPart b ∧ a.Sublist front ∧ (nonApp b).Sublist front :=
  ⟨nonApp b ++ a, rfl, List.sublist_append_right _ _, List.sublist_append_left _ _⟩

theorem pan_raw_whole_order (a b : List Entry) : (nonApp b ++ appPart b).Sublist (mergePan a b) := by
  unfold mergePan
  simp only [List.append_assoc]
  exact List.Sublist.append (List.Sublist.refl _) (List.sublist_append_right _ _)

theorem nsx_merge_perm (a b : List Entry) : (mergeNsx a b).Perm (a ++ b) := List.Perm.refl _

theorem nsx_merge_sublist (a b : List Entry) : a.Sublist (mergeNsx a b) ∧ b.Sublist (mergeNsx a b) :=
  ⟨List.sublist_append_left _ _, List.sublist_append_right _ _⟩

/-- NSX: all rules of the merged part follow all rules merged so far. -/
theorem nsx_append_after_all_netspoc_entries (a b : List Entry) : mergeNsx a b = a ++ b := rfl

/-! ## The pipeline `loadSpoc`: IPv4, then IPv6, then raw (one ACL) -/

theorem asa_pipeline_perm (v4 v6 raw : List Entry) :
    (mergeASA (mergeASA v4 v6) raw).Perm (v4 ++ v6 ++ raw) :=
  (asa_merge_perm _ raw).trans ((asa_merge_perm v4 v6).append_right raw)

theorem asa_pipeline_sublist (v4 v6 raw : List Entry) :
    v4.Sublist (mergeASA (mergeASA v4 v6) raw) ∧ (nonApp v6).Sublist (mergeASA (mergeASA v4 v6) raw) ∧
    (nonApp raw).Sublist (mergeASA (mergeASA v4 v6) raw) ∧ (appPart raw).Sublist (mergeASA (mergeASA v4 v6) raw) := by
  have h1 := asa_merge_sublist v4 v6
  have h2 := asa_merge_sublist (mergeASA v4 v6) raw
  exact ⟨h1.1.trans h2.1, h1.2.1.trans h2.1, h2.2.1, h2.2.2⟩

/-! Non-vacuity: the hypotheses of the conditional theorems are satisfiable. -/
example : (asaSplit [⟨10, .permit, false⟩] [⟨1, .deny, false⟩, ⟨2, .deny, true⟩]).1
    = nonApp [⟨1, .deny, false⟩, ⟨2, .deny, true⟩] := by decide
example : appPart [⟨1, .deny, false⟩] = [] ∨ ∃ e ∈ (asaSplit [] [⟨1, .deny, false⟩]).2, e.isPermit = true :=
  Or.inl (by decide)
example : ∃ e ∈ [(⟨10, .permit, false⟩ : Entry)], e.isPermit = true := ⟨_, List.mem_singleton.mpr rfl, by decide⟩

def obligations : List Lean.Name := [
  ``asa_merge_perm, ``asa_merge_sublist, ``asa_raw_first, ``asa_append_after_last_permit_before_trailing_deny,
  ``asa_raw_whole_order, ``asa_old_panic_counterexample, ``asa_old_raw_order_counterexample, ``asa_old_partial,
  ``ios_merge_perm, ``ios_merge_sublist, ``ios_raw_first, ``ios_append_after_last_permit_before_trailing_deny,
  ``ios_raw_whole_order, ``ios_old_panic_counterexample, ``ios_old_raw_order_counterexample, ``ios_old_partial,
  ``linux_merge_perm, ``linux_merge_sublist, ``linux_raw_first, ``linux_append_after_last_permit_before_trailing_deny,
  ``linux_append_after_every_accept, ``linux_raw_whole_order,
  ``linux_old_prepend_reversed_counterexample, ``linux_old_append_reordered_counterexample, ``linux_old_partial,
  ``pan_merge_perm, ``pan_merge_sublist, ``pan_raw_first, ``pan_append_after_all_netspoc_entries, ``pan_raw_whole_order,
  ``nsx_merge_perm, ``nsx_merge_sublist, ``nsx_append_after_all_netspoc_entries,
  ``asa_pipeline_perm, ``asa_pipeline_sublist]

end NA.C18
