import NA.Proofs.VpnSeq
import NA.Proofs.VpnMatch
import NA.Proofs.VpnEngine
import NA.Proofs.VpnConverge
import NA.Proofs.VpnUnordered
import NA.Model.CryptoMapDev
import NA.Props.VpnGraph
/-!
# Crypto maps of the ASA backend: what `matchCryptoMap`, `makeEqual` and the reuse of simple objects guarantee

Models: `NA.Vpn.matchCryptoMap` (NA/Model/CryptoMap.lean), `NA.Vpn.engine` (NA/Model/CryptoMapEngine.lean);
both are compared with the real code on every run (harness/asavpn, driver nadrv-c10).
All theorems hold for command lists of any length and any sequence numbers.
-/
namespace NA.Vpn

/-! ## fresh sequence numbers -/

/-- **Fresh sequence numbers** handed out by the second loop of `matchCryptoMap` (`used` = the sequence
numbers of the device's map, `ks` = for every target entry without partner, in ascending order, whether its
peer is static; counters start at `st` = 1 and `dy` = 65535):
* none of them is used on the device,
* the static ones are what a counter yields that starts at `st`, skips used numbers and steps by one
  (`ChainUp`: each is the LEAST free number not below its predecessor + 1), hence strictly ascending,
* the dynamic ones the same downward from `dy` (`ChainDown`), hence strictly descending,
* all of them are pairwise distinct as long as `st + 2·|used| + |ks| < dy`
  (for the real start values: `2·|device entries| + |added entries| < 65534`). -/
theorem crypto_seq_fresh (used : List Int) (ks : List Bool) (st dy : Int) :
    (∀ x ∈ freshSeqs used ks st dy, x ∉ used) ∧
    ChainUp used st (part true (freshSeqs used ks st dy) ks) ∧
    ChainDown used dy (part false (freshSeqs used ks st dy) ks) ∧
    (part true (freshSeqs used ks st dy) ks).Pairwise (· < ·) ∧
    (part false (freshSeqs used ks st dy) ks).Pairwise (· > ·) ∧
    (st + 2 * (used.length : Int) + ks.length < dy → (freshSeqs used ks st dy).Nodup) := by
  have hu := freshSeqs_chainUp used ks st dy
  have hd := freshSeqs_chainDown used ks st dy
  have hl := freshSeqs_length used ks st dy
  refine ⟨?_, hu, hd, chainUp_sorted hu, chainDown_sorted hd, ?_⟩
  · intro x hx
    rcases mem_parts _ ks hl x hx with h | h
    · exact chainUp_free hu x h
    · exact chainDown_free hd x h
  · intro hsz
    refine nodup_of_parts _ ks hl (pairwise_lt_nodup _ (chainUp_sorted hu)) (pairwise_gt_nodup _ (chainDown_sorted hd)) ?_
    intro x hx y hy
    have h1 := chainUp_ub hu x hx
    have h2 := chainDown_lb hd y hy
    have h3 := parts_length _ ks hl
    omega

/-- The calls of `f` that `matchCryptoMap` makes are: one per device entry (ascending), then one per target
entry that found no partner, carrying exactly the numbers of `crypto_seq_fresh` (and the device map's name). -/
theorem crypto_seq_fresh_applies (al bl : List Cmd) (calls : List Call) (h : matchCryptoMap al bl = some calls) :
    ∃ rest : List Int,
      rest = (seqKeys bl).filter (fun t => !((matchLoop al bl (seqKeys bl) (seqKeys al) []).2.contains t)) ∧
      calls = (matchLoop al bl (seqKeys bl) (seqKeys al) []).1 ++
        List.zipWith (fun t s => (⟨[], (entry bl t).map (renumber al s)⟩ : Call)) rest
          (freshSeqs (seqKeys al) (kindsOf bl rest) 1 65535) := by
  unfold matchCryptoMap at h
  by_cases hp : (allHavePeer al && allHavePeer bl) = true
  · rw [if_pos hp] at h
    cases h
    exact ⟨_, rfl, by rw [freshLoop_eq]; rfl⟩
  · rw [if_neg hp] at h; cases h

example : freshSeqs [1, 2, 4, 65535] [true, false, true, true] 1 65535 = [3, 65534, 5, 6] := by decide
/-- several new dynamic entries: the counter goes DOWN after each number handed out (never 65536, never a number twice) -/
example : freshSeqs [1, 65535] [false, false, false] 1 65535 = [65534, 65533, 65532] := by decide
example : freshSeqs [1] [false, false] 1 65535 = [65535, 65534] := by decide
/-- later entries skip numbers the device uses as well (the search is per entry, not once) -/
example : freshSeqs [1, 3, 4] [true, true, true] 1 65535 = [2, 5, 6] := by decide
example : matchCryptoMap
    [{ name := "M", seq := 5, key := "set peer P1", peer := some (.static "P1") }]
    [{ name := "M", seq := 1, key := "set peer P2", peer := some (.static "P2") },
     { name := "M", seq := 2, key := "set peer P1", peer := some (.static "P1") }] =
  some [⟨[{ name := "M", seq := 5, key := "set peer P1", peer := some (.static "P1") }],
         [{ name := "M", seq := 2, key := "set peer P1", peer := some (.static "P1") }]⟩,
        ⟨[], [{ name := "M", seq := 1, key := "set peer P2", peer := some (.static "P2") }]⟩] := by decide

/-! ## matching by peer -/

def cmdP (seq : Int) (p : String) : Cmd := { name := "M", seq := seq, key := "set peer " ++ p, peer := some (.static p) }


/-- **An existing entry is matched iff a target entry has the same peer**, deterministically:
the device entry with sequence number `s` (position `|pre|` of the ascending key list) and peer `p`
* is handed to `f` together with the target entry of the LOWEST sequence number among those with peer `p`,
  if such a target entry exists and no device entry with a lower sequence number has peer `p`;
* is handed to `f` alone (to be deleted) otherwise. -/
theorem crypto_match_by_peer (al bl : List Cmd) (pre post : List Int) (s : Int) (p : Peer)
    (hk : seqKeys al = pre ++ s :: post) (hp : getPeer (entry al s) = some p) :
    ((∃ t ∈ seqKeys bl, getPeer (entry bl t) = some p) ∧ (∀ s' ∈ pre, getPeer (entry al s') ≠ some p) →
      ∃ t, (matchLoop al bl (seqKeys bl) (seqKeys al) []).1[pre.length]? = some ⟨entry al s, entry bl t⟩ ∧
        t ∈ seqKeys bl ∧ getPeer (entry bl t) = some p ∧
        ∀ t' ∈ seqKeys bl, getPeer (entry bl t') = some p → t ≤ t') ∧
    (((∀ t ∈ seqKeys bl, getPeer (entry bl t) ≠ some p) ∨ ∃ s' ∈ pre, getPeer (entry al s') = some p) →
      (matchLoop al bl (seqKeys bl) (seqKeys al) []).1[pre.length]? = some ⟨entry al s, []⟩) := by
  rw [hk]
  exact ⟨fun h => matched_of_peer al bl pre post s p hp h.1 h.2, fun h => unmatched_of_peer al bl pre post s p hp h⟩

example : seqKeys [cmdP 7 "A", cmdP 4 "B"] = [] ++ 4 :: [7] ∧ getPeer (entry [cmdP 7 "A", cmdP 4 "B"] 4) = some (.static "B") := by decide
example : (matchLoop [cmdP 7 "A", cmdP 4 "B"] [cmdP 1 "B", cmdP 2 "A", cmdP 3 "B"] [1, 2, 3] [4, 7] []).1 =
    [⟨[cmdP 4 "B"], [cmdP 1 "B"]⟩, ⟨[cmdP 7 "A"], [cmdP 2 "A"]⟩] := by decide

/-- **Every device entry is handed to `f` exactly once, in ascending order**: the device sides of the calls of the
matching loop are exactly the entries `entry al s` for `s` running through the device's sequence numbers, and that list of
numbers is strictly ascending (hence without repetition) and holds exactly the numbers that occur on the device. -/
theorem crypto_device_entries_once (al bl : List Cmd) :
    (matchLoop al bl (seqKeys bl) (seqKeys al) []).1.map (·.a) = (seqKeys al).map (entry al) ∧
    (seqKeys al).Pairwise (· < ·) ∧ (∀ s, s ∈ seqKeys al ↔ ∃ c ∈ al, c.seq = s) ∧
    ∀ s ∈ seqKeys al, entry al s ≠ [] :=
  ⟨matchLoop_a al bl _ _ _, seqKeys_sorted al, mem_seqKeys al, entry_ne_nil al⟩

/-- non-vacuity: two device entries given in descending order are visited in ascending order, once each -/
example : (matchLoop [cmdP 7 "A", cmdP 4 "B"] [] [] (seqKeys [cmdP 7 "A", cmdP 4 "B"]) []).1.map (·.a) =
    [[cmdP 4 "B"], [cmdP 7 "A"]] := by decide

/-- **Every target entry is handed to `f` exactly once**: in the matching loop iff it was consumed there
(then it is not in the list of the fresh-number loop), otherwise not at all in the matching loop (and it is
in that list).  Together with `crypto_match_by_peer` and `crypto_seq_fresh`: after the run the map holds
one entry per target entry — under the device's number where the peer existed, under a fresh number otherwise. -/
theorem crypto_target_entries_once (al bl : List Cmd) (t : Int) (ht : t ∈ seqKeys bl) :
    (t ∈ (matchLoop al bl (seqKeys bl) (seqKeys al) []).2 →
        hits bl t (matchLoop al bl (seqKeys bl) (seqKeys al) []).1 = 1 ∧
        t ∉ (seqKeys bl).filter (fun t => !((matchLoop al bl (seqKeys bl) (seqKeys al) []).2.contains t))) ∧
    (t ∉ (matchLoop al bl (seqKeys bl) (seqKeys al) []).2 →
        hits bl t (matchLoop al bl (seqKeys bl) (seqKeys al) []).1 = 0 ∧
        t ∈ (seqKeys bl).filter (fun t => !((matchLoop al bl (seqKeys bl) (seqKeys al) []).2.contains t))) := by
  have hne := entry_ne_nil bl t ht
  constructor
  · intro h
    exact ⟨matched_once al bl _ _ t hne h, by simp [h]⟩
  · intro h
    exact ⟨unmatched_zero al bl _ _ t hne h, by simp [h, ht]⟩

/-- **Stability of a second run** (entry level): if the target's peers are pairwise distinct and each of them
occurs on the device, no entry is added. -/
theorem crypto_nothing_added_partial (al bl : List Cmd)
    (hdist : ∀ t ∈ seqKeys bl, ∀ t' ∈ seqKeys bl, getPeer (entry bl t) = getPeer (entry bl t') → t = t')
    (hpeer : ∀ t ∈ seqKeys bl, (getPeer (entry bl t)).isSome)
    (hcover : ∀ t ∈ seqKeys bl, ∃ s ∈ seqKeys al, getPeer (entry al s) = getPeer (entry bl t)) :
    (seqKeys bl).filter (fun t => !((matchLoop al bl (seqKeys bl) (seqKeys al) []).2.contains t)) = [] :=
  nothing_added al bl hdist hpeer hcover

/-! ## the commands address the device's entry -/

/-- **Every `crypto map NAME SEQ …` line emitted for a matched entry carries the DEVICE's name and sequence
number** (`diffCmds` for the pair handed over by `matchCryptoMap`: name and number adoption for inserted
commands, `makeEqual` with `b.name = a.name; b.seq = a.seq`, `delCmds`).  `a0 :: rest` = the commands of
the device entry as found in the state, all with the device entry's name and number; the first is not
`needed`; the unordered diff finds an equal line.  `AddrOK n s c`: `c` is `crypto map n s …`,
`no crypto map n s …`, or not a crypto map entry line at all (a transform-set definition). -/
theorem crypto_commands_address_device_seq (st : St) (ma mb : String) (aIds bIds : List Nat) (a0 : ACmd) (rest : List ACmd)
    (hA : aIds.filterMap (st.aCmd ma) = a0 :: rest)
    (hsame : ∀ a ∈ a0 :: rest, a.c.name = a0.c.name ∧ a.c.seq = a0.c.seq)
    (hn : a0.needed = false)
    (hEq : (unorderedA ((bIds.filterMap (st.bCmd mb)).map (·.c.key)) ((a0 :: rest).map (·.c.key)) 0 []).1.isEmpty = false) :
    ∃ e, (diffEntry st ma mb aIds bIds).out = st.out ++ e ∧ ∀ c ∈ e, AddrOK a0.c.name a0.c.seq c :=
  diffEntry_addresses_device st ma mb aIds bIds a0 rest hA hsame hn hEq

/-- device entry `M 5` (peer P, pfs group2), target entry `M 1` (peer P, pfs group5, lifetime): everything is sent to `M 5` -/
def exA : List (Cmd × String) :=
  [({ id := 0, name := "M", seq := 5, key := "set peer P", body := ["set peer P"], peer := some (.static "P") }, "set peer P"),
   ({ id := 1, name := "M", seq := 5, key := "set pfs group2", body := ["set pfs group2"] }, "set pfs group2")]
def exB : List (Cmd × String) :=
  [({ id := 0, name := "M", seq := 1, key := "set peer P", body := ["set peer P"], peer := some (.static "P") }, ""),
   ({ id := 1, name := "M", seq := 1, key := "set pfs group5", body := ["set pfs group5"] }, ""),
   ({ id := 2, name := "M", seq := 1, key := "set security-association lifetime seconds 3600",
      body := ["set security-association lifetime seconds 3600"] }, "")]
def exSt : St := initSt { maps := [("M", false, exA)] } { maps := [("M", false, exB)] }

example : ∃ e, (diffEntry exSt "M" "M" [0, 1] [0, 1, 2]).out = exSt.out ++ e ∧ ∀ c ∈ e, AddrOK "M" 5 c :=
  crypto_commands_address_device_seq exSt "M" "M" [0, 1] [0, 1, 2]
    { c := exA[0].1, orig := "set peer P" } [{ c := exA[1].1, orig := "set pfs group2" }]
    (by decide) (by decide) (by decide) (by decide)

example : ((diffEntry exSt "M" "M" [0, 1] [0, 1, 2]).out.map Chg.render) =
    ["no crypto map M 5 set pfs group2", "crypto map M 5 set pfs group5",
     "crypto map M 5 set security-association lifetime seconds 3600"] := by decide

/-- the hypothesis `hEq` holds whenever the two entries share a key, e.g. the `set peer` line they were matched by -/
theorem crypto_equal_line_exists (aKeys bKeys : List String) (k : String) (ha : k ∈ aKeys) (hb : k ∈ bKeys) :
    (unorderedA bKeys aKeys 0 []).1.isEmpty = false :=
  unorderedA_hasEq bKeys aKeys 0 [] ⟨k, ha, hb, rfl⟩

/-- **`diffUnordered` is a set difference** when the device's keys are pairwise distinct (the attribute lines of one
crypto map entry, the bindings per interface, sub-commands): position `p` of the device list is deleted iff its key does
not occur in the target; it is paired with target position `j` iff `j` is the last target position with the same key
(so paired lines have EQUAL keys); target position `q` is inserted iff its key does not occur on the device.  Hence
(device keys − deleted) ∪ inserted = target keys. -/
theorem diffUnordered_is_set_diff (aKeys bKeys : List String) (hnd : aKeys.Nodup) :
    (∀ p, p ∈ (unorderedA bKeys aKeys 0 []).2.1 ↔ ∃ k, aKeys[p]? = some k ∧ k ∉ bKeys) ∧
    (∀ p j, (p, j) ∈ (unorderedA bKeys aKeys 0 []).1 ↔ ∃ k, aKeys[p]? = some k ∧ lastIdx bKeys k = some j) ∧
    (∀ p j, (p, j) ∈ (unorderedA bKeys aKeys 0 []).1 → ∃ k, aKeys[p]? = some k ∧ bKeys[j]? = some k) ∧
    (∀ q, q ∈ (insertRuns (unorderedA bKeys aKeys 0 []).2.2 bKeys 0 []).flatten ↔ ∃ k, bKeys[q]? = some k ∧ k ∉ aKeys) := by
  have h := unorderedA_spec bKeys aKeys 0 [] hnd (by intro k _ hk; cases hk)
  refine ⟨?_, ?_, ?_, ?_⟩
  · intro p; rw [h.1 p]; simp
  · intro p j; rw [h.2.1 p j]; simp
  · intro p j hm
    obtain ⟨_, k, h1, h2⟩ := (h.2.1 p j).1 hm
    exact ⟨k, by simpa using h1, lastIdx_spec bKeys k j h2⟩
  · intro q
    rw [insertRuns_spec]
    constructor
    · rintro (hq | ⟨_, k, h1, h2⟩)
      · cases hq
      · have h1' : bKeys[q]? = some k := by simpa using h1
        refine ⟨k, h1', ?_⟩
        intro hka
        have : k ∈ (unorderedA bKeys aKeys 0 []).2.2 := (h.2.2 k).2 (Or.inr ⟨hka, List.mem_of_getElem? h1'⟩)
        have : (unorderedA bKeys aKeys 0 []).2.2.contains k = true := by simpa using this
        rw [this] at h2; cases h2
    · rintro ⟨k, h1, h2⟩
      right
      refine ⟨Nat.zero_le _, k, by simpa using h1, ?_⟩
      have : k ∉ (unorderedA bKeys aKeys 0 []).2.2 := by
        intro hm
        rcases (h.2.2 k).1 hm with h' | ⟨h', _⟩
        · cases h'
        · exact h2 h'
      simpa using this

example : unorderedA ["set peer P", "set pfs group5", "set nat-t-disable"] ["set pfs group2", "set peer P"] 0 [] =
    ([(1, 0)], [0], ["set peer P"]) := by decide
example : insertRuns ["set peer P"] ["set peer P", "set pfs group5", "set nat-t-disable"] 0 [] = [[1, 2]] := by decide

/-! ## simple objects -/

/-- **A transform-set found on the device has equal content** (`findSimpleObject`). -/
theorem simple_object_reuse_sound (ats : List DevTS) (content n : String) (h : findSimple ats content = some n) :
    ∃ t ∈ ats, t.name = n ∧ t.content = content :=
  findSimple_sound ats content n h

example : findSimple [{ name := "Zzz", content := "esp-aes" }, { name := "Aaa-DRC-1", content := "esp-aes" },
    { name := "B", content := "esp-3des" }] "esp-aes" = some "Aaa-DRC-1" := by decide

/-! ## what is false -/

def cP (seq : Int) : Cmd := { name := "M", seq := seq, key := "set peer 10.0.0.6", body := ["set peer 10.0.0.6"], peer := some (.static "10.0.0.6") }
def cX (id : Nat) (seq : Int) (k : String) : Cmd := { id := id, name := "M", seq := seq, key := k, body := [k] }

/-- device: one entry for peer 10.0.0.6; target: two entries for that peer -/
def exDev : Config :=
  { intfs := ["outside"], maps := [("M", false, [(cP 1, "set peer 10.0.0.6")])], binds := [("M", "outside")] }
def exTgt : Config :=
  { maps := [("M", false, [(cP 1, ""), ({ cP 2 with id := 1 }, ""), (cX 2 2 "set pfs", "")])], binds := [("M", "outside")] }

/-- **Idempotence is false when the target has two entries for one peer** (F-VPN-duppeer): the first run adds the
second entry under a fresh number, the strict device accepts the script, the device then shows both entries —
and the second run deletes the added entry and adds it again.  Kernel-evaluated on the engine model and
the specification-side device. -/
theorem crypto_idempotent_counterexample :
    (engine exDev exTgt).isSome = true ∧
    (((engine exDev exTgt).bind (applyAll exDev)).bind fun a1 => engine a1 exTgt) ≠ some [] ∧
    (((engine exDev exTgt).bind (applyAll exDev)).map view) = some (view exTgt) := by
  decide

/-- The same at the level of `matchCryptoMap`: with two device entries and two target entries of one peer
the second device entry is handed over alone (deleted) and the second target entry is added under number 3. -/
theorem crypto_duplicate_peer_counterexample :
    matchCryptoMap [cP 1, cP 2] [cP 1, cP 2] =
      some [⟨[cP 1], [cP 1]⟩, ⟨[cP 2], []⟩, ⟨[], [cP 3]⟩] := by
  decide

/-- With pairwise distinct peers the second run of the example hands every entry over with its partner
and adds nothing (instance of `crypto_nothing_added_partial`). -/
example : matchCryptoMap [cP 4, { cP 7 with peer := some (.static "B") }] [{ cP 1 with peer := some (.static "B") }, cP 2] =
    some [⟨[cP 4], [cP 2]⟩, ⟨[{ cP 7 with peer := some (.static "B") }], [{ cP 1 with peer := some (.static "B") }]⟩] := by
  decide

def obligations : List Lean.Name := [
  ``crypto_seq_fresh, ``crypto_seq_fresh_applies, ``crypto_match_by_peer, ``crypto_device_entries_once,
  ``crypto_target_entries_once, ``crypto_nothing_added_partial, ``crypto_commands_address_device_seq,
  ``crypto_equal_line_exists, ``diffUnordered_is_set_diff, ``simple_object_reuse_sound, ``crypto_idempotent_counterexample,
  ``crypto_duplicate_peer_counterexample,
  -- named object graphs (NA/Props/VpnGraph.lean)
  ``NA.Vpn.G.cert_refs_created_first, ``NA.Vpn.G.cert_webvpn_exit_first, ``NA.Vpn.G.cert_repoint_counterexample,
  ``NA.Vpn.G.graph_unchanged_only_if_equivalent, ``NA.Vpn.G.graph_converges_partial, ``NA.Vpn.G.graph_fuel_suffices,
  ``NA.Vpn.G.graph_cleanup_accepted, ``NA.Vpn.G.graph_refs_created_first, ``NA.Vpn.G.graph_exec_frame, ``NA.Vpn.G.graph_body_targets,
  ``NA.Vpn.G.graph_unmanaged_untouched, ``NA.Vpn.G.graph_untagged_not_pending, ``NA.Vpn.G.graph_chain_protected]

end NA.Vpn
