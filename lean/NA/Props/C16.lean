import NA.Proofs.C16
import NA.Gen.MapRanges
import NA.Gen.MapRangesDescr
/-!
# C16 — output is a deterministic function of the inputs

Go does not specify the order in which `for k, v := range m` visits a map, and the runtime
randomises it per loop.  The output of `drc` is a function of the inputs iff **every** loop
over a map computes the same result for every visiting order.  This file states, for all
entry lists and all their permutations:

* the library (`NA.PermFold`): `foldl_perm`, `sort_perm`, `find?_perm_invariant_iff`,
  `findSome?_perm_invariant_iff`;
* one theorem `site_…` per `range`-over-map loop of go/pkg/... (site models of
  `NA.Model.MapSites`), and `every_site_described_or_hash_tied`: every site of the list **regenerated from
  the source** (`NA.Gen.MapRanges.sites`: file, function, map expression, hash of the loop
  text, syntactic class) is matched by a line of `expected` whose shape theorem holds — a new
  loop or a changed loop body has no proof and the build fails;
* for the loops that were order-dependent on the unchanged tree: a `…_counterexample`
  (two visiting orders, different results; replayed on the real binary by the harness), a
  `…_partial` (invariant when there is no tie), and — after the `fix:` commits that iterate
  in sorted key order — `…_fixed_deterministic` for all inputs; `repaired_stay_sorted` demands
  that these loops still are `range slices.Sorted(maps.Keys(X))` in the source.
-/
namespace NA.C16
open NA.PermFold NA.Gen.MapRanges

/-! ## The library, restated (names without `?` for the audit) -/

/-- "find first satisfying" is invariant under reordering iff at most one candidate satisfies. -/
theorem findFirst_invariant_iff {α : Type} [DecidableEq α] (p : α → Bool) (l : List α) :
    (∀ l₁ l₂ : List α, l₁.Perm l → l₂.Perm l → l₁.find? p = l₂.find? p) ↔ AtMostOne p l :=
  find?_perm_invariant_iff p l

/-- A loop that leaves at the first entry producing a result is invariant under reordering iff
all results that entries can produce agree. -/
theorem firstResult_invariant_iff {α ρ : Type} [DecidableEq α] (f : α → Option ρ) (l : List α) :
    (∀ l₁ l₂ : List α, l₁.Perm l → l₂.Perm l → firstIn f l₁ = firstIn f l₂) ↔ Agree f l :=
  findSome?_perm_invariant_iff f l

/-! ## Loops that are order-insensitive as they stand -/

theorem site_isValidOutput {κ ν : Type} (hit : κ × ν → Bool) {es₁ es₂ : Entries κ ν}
    (p : es₁.Perm es₂) : Site.isValidOutput hit es₁ = Site.isValidOutput hit es₂ :=
  findSome?_perm (fun _ _ _ _ _ _ _ _ => rfl) p

theorem site_mergeSpocMakeMaps {κ ν μ : Type} [DecidableEq κ] (empty : μ) {es₁ es₂ : Entries κ ν}
    (hm : IsMap es₁) (p : es₁.Perm es₂) (s : κ → Option μ) :
    es₁.foldl (Site.mergeSpocMakeMaps (ν := ν) empty).step s
      = es₂.foldl (Site.mergeSpocMakeMaps (ν := ν) empty).step s :=
  ownKey_perm _ hm p s

theorem site_mergeSpocWarnings {κ : Type} (msg : κ → String) (init : List String)
    {es₁ es₂ : Entries κ Bool} (p : es₁.Perm es₂) :
    Site.mergeSpocWarnings msg init es₁ = Site.mergeSpocWarnings msg init es₂ :=
  collectSorted_perm strLe_lawful _ _ init p

/-- The anchor probe takes the flag of whichever entry comes first: invariant iff all command
types found under the prefix agree on `anchor` … -/
theorem site_anchorProbe {κ ν : Type} (typAnchor : ν → Bool) {es₁ es₂ : Entries κ ν}
    (hagree : ∀ e, e ∈ es₁ → ∀ e', e' ∈ es₁ → typAnchor e.2 = typAnchor e'.2) (p : es₁.Perm es₂) :
    Site.anchorProbe typAnchor es₁ = Site.anchorProbe typAnchor es₂ := by
  apply findSome?_perm _ p
  intro a ha b hb x y hx hy
  simp only [Option.some.injEq] at hx hy
  rw [← hx, ← hy]
  exact hagree a ha b hb

/-- … which is a fact about the regenerated command table: all command types of one device
that are stored under the same prefix carry the same `anchor` flag. -/
theorem anchor_table_agrees :
    anchorTable.all (fun r => anchorTable.all (fun r' =>
      !(r.1 == r'.1 && r.2.1 == r'.2.1) || r.2.2 == r'.2.2)) = true := by decide

theorem site_onlyAnchorNames {ν : Type} (isAnchor : ν → Bool) {es₁ es₂ : Entries String ν}
    (p : es₁.Perm es₂) : Site.onlyAnchorNames isAnchor es₁ = Site.onlyAnchorNames isAnchor es₂ :=
  collectSorted_perm strLe_lawful _ _ [] p

theorem site_posAfterAdd {κ : Type} [DecidableEq κ] (i : Nat) {es₁ es₂ : Entries κ Nat}
    (hm : IsMap es₁) (p : es₁.Perm es₂) (s : κ → Nat) :
    es₁.foldl (Site.posAfterAdd i).step s = es₂.foldl (Site.posAfterAdd i).step s :=
  ownKey_perm _ hm p s

theorem site_posAfterDel {κ : Type} [DecidableEq κ] (i : Nat) {es₁ es₂ : Entries κ Nat}
    (hm : IsMap es₁) (p : es₁.Perm es₂) (s : κ → Nat) :
    es₁.foldl (Site.posAfterDel i).step s = es₂.foldl (Site.posAfterDel i).step s :=
  ownKey_perm _ hm p s

theorem site_deleteUnusedCollect {κ ν δ : Type} [DecidableEq κ] (del : κ → ν → Option δ)
    (reach : κ × ν → κ → Bool) {es₁ es₂ : Entries κ ν} (hm : IsMap es₁) (p : es₁.Perm es₂)
    (s : (κ → Option δ) × (κ → Bool)) :
    es₁.foldl (Site.deleteUnusedCollect del reach) s = es₂.foldl (Site.deleteUnusedCollect del reach) s :=
  foldl_perm _ p
    (CommOn.prod ((ownKey _).commOn (ownKey_disjoint _ hm))
      (CommOn.of_rightComm (setInsert_rightComm reach) es₁)) s

theorem site_deleteStillReferenced {κ δ : Type} [DecidableEq κ] (still : κ → Bool)
    {es₁ es₂ : Entries κ δ} (hm : IsMap es₁) (p : es₁.Perm es₂) (s : κ → Option δ) :
    es₁.foldl (Site.deleteStillReferenced still).step s
      = es₂.foldl (Site.deleteStillReferenced still).step s :=
  ownKey_perm _ hm p s

theorem site_markReferenced {κ ν β : Type} (refs : κ × ν → β → Bool) {es₁ es₂ : Entries κ ν}
    (p : es₁.Perm es₂) (s : β → Bool) :
    es₁.foldl (Site.markReferenced refs) s = es₂.foldl (Site.markReferenced refs) s :=
  foldl_perm_of_rightComm _ (setInsert_rightComm refs) p s

theorem site_generateNames {ι μ α : Type} [DecidableEq ι] (cmds : α → List ι)
    (rename : α → ι → μ → μ) {l₁ l₂ : List α} (hsep : Separate cmds l₁) (p : l₁.Perm l₂)
    (s : ι → μ) :
    l₁.foldl (Site.generateNames cmds rename).step s = l₂.foldl (Site.generateNames cmds rename).step s :=
  perObject_perm cmds rename hsep p s

theorem site_sortGroups {ι μ α : Type} [DecidableEq ι] (group : α → ι) (sortSub : μ → μ)
    {l₁ l₂ : List α} (hsep : Separate (fun a => [group a]) l₁) (p : l₁.Perm l₂) (s : ι → μ) :
    l₁.foldl (Site.sortGroups (α := α) group sortSub).step s
      = l₂.foldl (Site.sortGroups (α := α) group sortSub).step s :=
  perObject_perm _ _ hsep p s

theorem site_ignoreCryptoGDOI {κ ν δ : Type} [DecidableEq κ] {es₁ es₂ : Entries κ ν}
    (hm : IsMap es₁) (p : es₁.Perm es₂) (s : κ → Option δ) :
    es₁.foldl (Site.ignoreCryptoGDOI (ν := ν) (δ := δ)).step s
      = es₂.foldl (Site.ignoreCryptoGDOI (ν := ν) (δ := δ)).step s :=
  ownKey_perm _ hm p s

theorem site_addDefaults {κ ν μ : Type} [DecidableEq κ] (known : κ → Bool) (add : κ → ν → μ → μ)
    {es₁ es₂ : Entries κ ν} (hm : IsMap es₁) (p : es₁.Perm es₂) (s : κ → μ) :
    es₁.foldl (Site.addDefaults known add).step s = es₂.foldl (Site.addDefaults known add).step s :=
  ownKey_perm _ hm p s

theorem site_rewriteCommands {ι μ α : Type} [DecidableEq ι] (cmds : α → List ι)
    (f : α → ι → μ → μ) {l₁ l₂ : List α} (hsep : Separate cmds l₁) (p : l₁.Perm l₂) (s : ι → μ) :
    l₁.foldl (Site.rewriteCommands cmds f).step s = l₂.foldl (Site.rewriteCommands cmds f).step s :=
  perObject_perm cmds f hsep p s

theorem site_rewriteAndSetTypeRef {ι μ α γ : Type} [DecidableEq ι] (cmds : α → List ι)
    (f : α → ι → μ → μ) (touches : α → Bool) (refs : γ) {l₁ l₂ : List α}
    (hsep : Separate cmds l₁) (p : l₁.Perm l₂) (s : (ι → μ) × Option γ) :
    l₁.foldl (Site.rewriteAndSetTypeRef cmds f touches refs) s
      = l₂.foldl (Site.rewriteAndSetTypeRef cmds f touches refs) s :=
  foldl_perm _ p
    (CommOn.prod ((perObject cmds f).commOn (perObject_disjoint cmds f hsep))
      (CommOn.of_rightComm (constFlag_rightComm touches refs) l₁)) s

theorem site_normalizeIPTables {κ ν : Type} [DecidableEq κ] (norm : κ → ν → ν)
    {es₁ es₂ : Entries κ ν} (hm : IsMap es₁) (p : es₁.Perm es₂) (s : κ → ν) :
    es₁.foldl (Site.normalizeIPTables norm).step s = es₂.foldl (Site.normalizeIPTables norm).step s :=
  ownKey_perm _ hm p s

theorem site_dropUnmanagedUsers {κ ν : Type} [DecidableEq κ] (managed : ν → Bool)
    {es₁ es₂ : Entries κ ν} (hm : IsMap es₁) (p : es₁.Perm es₂) (s : κ → Option ν) :
    es₁.foldl (Site.dropUnmanagedUsers managed).step s = es₂.foldl (Site.dropUnmanagedUsers managed).step s :=
  ownKey_perm _ hm p s

theorem site_copyKeys {κ ν : Type} [DecidableEq κ] {es₁ es₂ : Entries κ ν}
    (hm : IsMap es₁) (p : es₁.Perm es₂) (s : κ → Bool) :
    es₁.foldl (Site.copyKeys (ν := ν)).step s = es₂.foldl (Site.copyKeys (ν := ν)).step s :=
  ownKey_perm _ hm p s

theorem site_loadDefaults (seen : String → Bool) {es₁ es₂ : Entries String String}
    (hm : IsMap es₁) (p : es₁.Perm es₂) (s : Option (String → Option Nat)) :
    es₁.foldl (Site.loadDefaults seen) s = es₂.foldl (Site.loadDefaults seen) s :=
  foldl_perm _ p (exitOrOwnKey_commOn _ _ hm) s

/-- The regenerated literal `defaultVals`: distinct keys, every value a numeral — `insert`
never fails on it, the early `return` of the loop is never taken. -/
theorem default_vals_parse :
    defaultVals.all (fun kv => Site.isNumeral kv.2) = true ∧ (defaultVals.map Prod.fst).Nodup := by
  decide

/-! ## Shapes, and the tie to the regenerated site list -/

/-- The statement proved for every loop of a given shape. -/
def ShapeHolds : Shape → Prop
  | .anyHit => ∀ (κ ν : Type) (hit : κ × ν → Bool) (es₁ es₂ : Entries κ ν), es₁.Perm es₂ →
      Site.isValidOutput hit es₁ = Site.isValidOutput hit es₂
  | .ownKey => ∀ (κ ν μ : Type) [DecidableEq κ] (g : κ → ν → μ → μ) (es₁ es₂ : Entries κ ν),
      IsMap es₁ → es₁.Perm es₂ → ∀ s, es₁.foldl (ownKey g).step s = es₂.foldl (ownKey g).step s
  | .collectSorted => ∀ (α : Type) (p : α → Bool) (f : α → String) (init : List String)
      (es₁ es₂ : List α), es₁.Perm es₂ →
      collectSorted strLe p f init es₁ = collectSorted strLe p f init es₂
  | .agreeFirst => ∀ (α ρ : Type) (f : α → Option ρ) (es₁ es₂ : List α), Agree f es₁ →
      es₁.Perm es₂ → firstIn f es₁ = firstIn f es₂
  | .perObject => ∀ (ι μ α : Type) [DecidableEq ι] (objs : α → List ι) (upd : α → ι → μ → μ)
      (l₁ l₂ : List α), Separate objs l₁ → l₁.Perm l₂ →
      ∀ s, l₁.foldl (perObject objs upd).step s = l₂.foldl (perObject objs upd).step s
  | .perObjectConst => ∀ (ι μ α γ : Type) [DecidableEq ι] (objs : α → List ι) (upd : α → ι → μ → μ)
      (q : α → Bool) (c : γ) (l₁ l₂ : List α), Separate objs l₁ → l₁.Perm l₂ →
      ∀ s, l₁.foldl (Site.rewriteAndSetTypeRef objs upd q c) s
        = l₂.foldl (Site.rewriteAndSetTypeRef objs upd q c) s
  | .ownKeySetInsert => ∀ (κ ν δ : Type) [DecidableEq κ] (del : κ → ν → Option δ)
      (reach : κ × ν → κ → Bool) (es₁ es₂ : Entries κ ν), IsMap es₁ → es₁.Perm es₂ →
      ∀ s, es₁.foldl (Site.deleteUnusedCollect del reach) s
        = es₂.foldl (Site.deleteUnusedCollect del reach) s
  | .setInsert => ∀ (α β : Type) (items : α → β → Bool) (l₁ l₂ : List α), l₁.Perm l₂ →
      ∀ s, l₁.foldl (setInsertStep items) s = l₂.foldl (setInsertStep items) s
  | .exitOrOwnKey => ∀ (κ ν μ : Type) [DecidableEq κ] (skip : κ → Bool) (parse : κ → ν → Option μ)
      (es₁ es₂ : Entries κ ν), IsMap es₁ → es₁.Perm es₂ →
      ∀ s, es₁.foldl (exitOrOwnKeyStep skip parse) s = es₂.foldl (exitOrOwnKeyStep skip parse) s

theorem shape_holds : ∀ sh, ShapeHolds sh := by
  intro sh
  cases sh
  · intro κ ν hit es₁ es₂ p; exact site_isValidOutput hit p
  · intro κ ν μ _ g es₁ es₂ hm p s; exact ownKey_perm g hm p s
  · intro α p f init es₁ es₂ perm; exact collectSorted_perm strLe_lawful p f init perm
  · intro α ρ f es₁ es₂ h p; exact findSome?_perm h p
  · intro ι μ α _ objs upd l₁ l₂ h p s; exact perObject_perm objs upd h p s
  · intro ι μ α γ _ objs upd q c l₁ l₂ h p s; exact site_rewriteAndSetTypeRef objs upd q c h p s
  · intro κ ν δ _ del reach es₁ es₂ hm p s; exact site_deleteUnusedCollect del reach hm p s
  · intro α β items l₁ l₂ p s; exact foldl_perm_of_rightComm _ (setInsert_rightComm items) p s
  · intro κ ν μ _ skip parse es₁ es₂ hm p s; exact foldl_perm _ p (exitOrOwnKey_commOn skip parse hm) s

/-- A site is tied if its regenerated descriptor describes the body (then `runBody_perm` covers it
for every semantics, no hand-written row needed), or — for a body the translator cannot describe —
if it matches a row of `expected` by file, function, hash of the alpha-normalised loop text and class. -/
def siteTied (s : Site) (d : NA.C16.D.SiteDescr) : Bool :=
  (s.file == d.file && s.fn == d.fn && s.mapExpr == d.mapExpr && s.ord == d.ord) &&
    (d.body.described || expected.any (fun e => e.matchesSite s.file s.fn s.hash s.cls))

/-- Sites that are neither described nor matched by a row. -/
def uncovered : List (Site × NA.C16.D.SiteDescr) :=
  (sites.zip NA.Gen.MapRangesDescr.descrs).filter (fun p => !siteTied p.1 p.2)

def sortedCount (file fn : String) : Nat := (sortedRanges.filter (fun r => r.1 == file && r.2.1 == fn)).length

-- Diagnostic only (the theorems below are what counts).
#eval (do
  unless uncovered.isEmpty do
    throw (IO.userError ("C16: range-over-map loops whose body the translator cannot describe and that match no row of `expected`: " ++
      toString (uncovered.map fun p => s!"{p.1.file} {p.1.fn} range {p.1.mapExpr} #{p.1.ord} hash={p.1.hash} class={p.1.cls} descriptor={repr p.2.body}")))
  let lost := repaired.filter (fun r => sortedCount r.1 r.2.1 < r.2.2)
  unless lost.isEmpty do
    throw (IO.userError ("C16: functions whose repaired loops no longer iterate over sorted keys (file, function, expected number): " ++ toString lost))
  : IO Unit)

/-- **The tie (T-gen).** Every `range` over a map found in the source is either *described* by the
descriptor regenerated from the source (same run, same site), or matches a row of `expected`. -/
theorem sites_covered :
    sites.length = NA.Gen.MapRangesDescr.descrs.length ∧
    (sites.zip NA.Gen.MapRangesDescr.descrs).all (fun p => siteTied p.1 p.2) = true := by decide

/-- Every `range` over a map in the source: its body is described by the regenerated descriptor — then
it is order-insensitive for every semantics by `runBody_perm` (Props/C16Run.lean:
`described_sites_order_insensitive`) — or it is **tied by hash** to a row of `expected` whose shape
has a generic theorem (`ShapeHolds`, true of every shape: for these loops the assignment of the shape
is by hand and checked against the source only through the hash and the table facts). -/
theorem every_site_described_or_hash_tied :
    ∀ p, p ∈ sites.zip NA.Gen.MapRangesDescr.descrs →
      p.2.body.described = true ∨
      ∃ e, e ∈ expected ∧ e.matchesSite p.1.file p.1.fn p.1.hash p.1.cls = true ∧ ShapeHolds e.shape := by
  intro p hp
  have h := List.all_eq_true.mp sites_covered.2 p hp
  simp only [siteTied, Bool.and_eq_true, Bool.or_eq_true] at h
  rcases h.2 with hd | hr
  · exact Or.inl hd
  · obtain ⟨e, he, hm⟩ := List.any_eq_true.mp hr
    exact Or.inr ⟨e, he, hm, shape_holds e.shape⟩

/-- The functions whose loops were repaired still iterate over sorted keys (any spelling). -/
theorem repaired_stay_sorted : repaired.all (fun r => decide (r.2.2 ≤ sortedCount r.1 r.2.1)) = true := by decide

/-- No unordered map iterator (`maps.Keys`, `maps.Values`, `maps.All` outside `slices.Sorted…`). -/
theorem no_loose_iterators : looseIters = [] := by decide

/-! ## Whole runs -/

/-- **Schedule independence of a run, given order-insensitive stages.** Conditional statement: a
`Stage` carries the order-insensitivity of its loop as the field `inv`; IF every loop the program
executes is such a stage, the final state is the same for every two schedules. The field is
discharged for the loops of the repository in Props/C16Run.lean (`stageOf`,
`drc_planning_deterministic`): proved for the described sites, an explicit hypothesis for the
three hash-tied ones. -/
theorem run_schedule_independent {σ ε : Type} (next : σ → Option (Stage σ ε))
    (sch₁ sch₂ : Schedule σ ε) (h₁ : sch₁.Valid) (h₂ : sch₂.Valid) (fuel i : Nat) (s : σ) :
    execRun next sch₁ fuel i s = execRun next sch₂ fuel i s := by
  induction fuel generalizing i s with
  | zero => rfl
  | succ n ih =>
    simp only [execRun]
    cases hn : next s with
    | none => rfl
    | some st =>
      simp only []
      rw [st.inv s _ (h₁ i s _), st.inv s _ (h₂ i s _)]
      exact ih (i + 1) _

/-! ## Loops that depended on the iteration order on the unchanged tree -/

private def gA : Group := ⟨false, 0, [1, 2]⟩

/-- `findGroupOnDevice` (cisco and nsx) on the unchanged tree: two identical unused groups on
the device, two visiting orders, two different groups taken over. -/
theorem findGroup_unfixed_counterexample :
    ∃ es₁ es₂ : Entries String Group, IsMap es₁ ∧ es₁.Perm es₂ ∧
      findGroupUnfixed 0 [1, 2] es₁ ≠ findGroupUnfixed 0 [1, 2] es₂ :=
  ⟨[("g1", gA), ("g2", gA)], [("g2", gA), ("g1", gA)], by decide, List.Perm.swap _ _ _, by decide⟩

/-- Without a tie (at most one candidate) the unchanged loop is order-insensitive. -/
theorem findGroup_unfixed_partial {κ : Type} (typ : Nat) (target : List Nat) {es₁ es₂ : Entries κ Group}
    (huniq : ∀ a, a ∈ es₁ → ∀ b, b ∈ es₁ → (groupMatches typ target a).isSome →
      (groupMatches typ target b).isSome → a = b)
    (p : es₁.Perm es₂) : findGroupUnfixed typ target es₁ = findGroupUnfixed typ target es₂ := by
  apply findSome?_perm _ p
  intro a ha b hb x y hx hy
  have := huniq a ha b hb (by simp [hx]) (by simp [hy])
  subst this
  rw [hx] at hy
  exact Option.some.inj hy

/-- Repaired loop: the same group for every visiting order, for all inputs. -/
theorem findGroup_fixed_deterministic {κ : Type} {le : κ → κ → Bool} (h : LawfulLe le) (typ : Nat)
    (target : List Nat) {es₁ es₂ : Entries κ Group} (hm : IsMap es₁) (p : es₁.Perm es₂) :
    findGroupFixed le typ target es₁ = findGroupFixed le typ target es₂ :=
  firstInSorted_perm h _ hm p

/-- … namely the candidate with the least name. -/
theorem findGroup_fixed_least {κ : Type} {le : κ → κ → Bool} (h : LawfulLe le) (typ : Nat)
    (target : List Nat) (es : Entries κ Group) (k : κ) (hk : findGroupFixed le typ target es = some k) :
    (∃ g, (k, g) ∈ es ∧ (groupMatches typ target (k, g)).isSome) ∧
      ∀ e, e ∈ es → (groupMatches typ target e).isSome → le k e.1 = true := by
  obtain ⟨e, he, hfe, hmin⟩ := firstInSorted_least h _ es k hk
  have hk' : e.1 = k := by
    simp only [groupMatches] at hfe
    split at hfe
    · exact Option.some.inj hfe
    · cases hfe
  subst hk'
  exact ⟨⟨e.2, he, by simp [hfe]⟩, hmin⟩

/-- `mapPeerToSeq` on the unchanged tree: two crypto map entries with the same peer. -/
theorem peerMap_unfixed_counterexample :
    ∃ es₁ es₂ : Entries Nat (Option Nat), IsMap es₁ ∧ es₁.Perm es₂ ∧
      peerObs (peerMapUnfixed es₁) [7] ≠ peerObs (peerMapUnfixed es₂) [7] :=
  ⟨[(1, some 7), (2, some 7)], [(2, some 7), (1, some 7)], by decide, List.Perm.swap _ _ _, by decide⟩

/-- … and two entries without peer: the abort names a different entry. -/
theorem peerMap_unfixed_abort_counterexample :
    ∃ es₁ es₂ : Entries Nat (Option Nat), IsMap es₁ ∧ es₁.Perm es₂ ∧
      peerObs (peerMapUnfixed es₁) [] ≠ peerObs (peerMapUnfixed es₂) [] :=
  ⟨[(1, none), (2, none)], [(2, none), (1, none)], by decide, List.Perm.swap _ _ _, by decide⟩

/-- Every entry has a peer and the peers are pairwise different: order-insensitive. -/
theorem peerMap_unfixed_partial {π : Type} [DecidableEq π] {es₁ es₂ : Entries Nat (Option π)}
    (hsome : ∀ e, e ∈ es₁ → e.2.isSome) (hpeers : UniqueKeys Prod.snd es₁) (p : es₁.Perm es₂) :
    peerMapUnfixed es₁ = peerMapUnfixed es₂ :=
  foldl_perm _ p (peerStepUnfixed_commOn hsome hpeers) _

theorem peerMap_fixed_deterministic {π : Type} [DecidableEq π] {es₁ es₂ : Entries Nat (Option π)}
    (hm : IsMap es₁) (p : es₁.Perm es₂) : peerMapFixed es₁ = peerMapFixed es₂ :=
  sorted_deterministic natLe_lawful Prod.fst (fun l => l.foldl peerStepFixed (.ok fun _ => none)) hm p

/-- First error of `checkReferences` (also: first abort of cisco `MergeSpoc`, of the
`aaa-server` loop of `postprocessParsed`) on the unchanged tree: two entries with an error. -/
theorem firstError_unfixed_counterexample :
    ∃ es₁ es₂ : Entries (String × String) (Option String), IsMap es₁ ∧ es₁.Perm es₂ ∧
      firstErrorUnfixed es₁ ≠ firstErrorUnfixed es₂ :=
  ⟨[(("access-list", "a1"), some "unknown object-group ga"), (("access-list", "a2"), some "unknown object-group gb")],
   [(("access-list", "a2"), some "unknown object-group gb"), (("access-list", "a1"), some "unknown object-group ga")],
   by decide, List.Perm.swap _ _ _, by decide⟩

theorem firstError_unfixed_partial {κ ρ : Type} {es₁ es₂ : Entries κ (Option ρ)}
    (huniq : ∀ a, a ∈ es₁ → ∀ b, b ∈ es₁ → a.2.isSome → b.2.isSome → a = b) (p : es₁.Perm es₂) :
    firstErrorUnfixed es₁ = firstErrorUnfixed es₂ := by
  apply findSome?_perm _ p
  intro a ha b hb x y hx hy
  have := huniq a ha b hb (by simp [hx]) (by simp [hy])
  subst this
  rw [hx] at hy
  exact Option.some.inj hy

theorem firstError_fixed_deterministic {κ ρ : Type} {le : κ → κ → Bool} (h : LawfulLe le)
    {es₁ es₂ : Entries κ (Option ρ)} (hm : IsMap es₁) (p : es₁.Perm es₂) :
    firstErrorFixed le es₁ = firstErrorFixed le es₂ :=
  firstInSorted_perm h _ hm p

/-- The order used by the repaired nested loops of `checkReferences` and `MergeSpoc`
(ascending prefix, then ascending name) is a linear order. -/
theorem prefix_name_order_lawful : LawfulLe (lexLe strLe strLe) :=
  LawfulLe.lex strLe_lawful strLe_lawful

theorem firstAbort_fixed_deterministic {κ ρ : Type} {le : κ → κ → Bool} (h : LawfulLe le)
    {es₁ es₂ : Entries κ (Option ρ)} (hm : IsMap es₁) (p : es₁.Perm es₂) :
    firstAbortFixed le es₁ = firstAbortFixed le es₂ :=
  firstInSorted_perm h _ hm p

/-- First differing option of `diffIPTables` on the unchanged tree: a rule that differs in two options. -/
theorem firstOption_unfixed_counterexample :
    ∃ (b : String → String) (es₁ es₂ : Entries String String), IsMap es₁ ∧ es₁.Perm es₂ ∧
      firstOptionUnfixed b es₁ ≠ firstOptionUnfixed b es₂ :=
  ⟨fun k => if k = "-s" then "10.1.1.9" else "10.2.2.9",
   [("-s", "10.1.1.1"), ("-d", "10.2.2.2")], [("-d", "10.2.2.2"), ("-s", "10.1.1.1")],
   by decide, List.Perm.swap _ _ _, by decide⟩

theorem firstOption_unfixed_partial {κ ν : Type} [DecidableEq ν] (b : κ → ν) {es₁ es₂ : Entries κ ν}
    (huniq : ∀ a, a ∈ es₁ → ∀ a', a' ∈ es₁ → b a.1 ≠ a.2 → b a'.1 ≠ a'.2 → a = a') (p : es₁.Perm es₂) :
    firstOptionUnfixed b es₁ = firstOptionUnfixed b es₂ := by
  apply findSome?_perm _ p
  intro a ha a' ha' x y hx hy
  have h1 : b a.1 ≠ a.2 := by
    intro h; simp [optionDiffers, h] at hx
  have h2 : b a'.1 ≠ a'.2 := by
    intro h; simp [optionDiffers, h] at hy
  have := huniq a ha a' ha' h1 h2
  subst this
  rw [hx] at hy
  exact Option.some.inj hy

theorem firstOption_fixed_deterministic {κ ν : Type} [DecidableEq ν] {le : κ → κ → Bool}
    (h : LawfulLe le) (b : κ → ν) {es₁ es₂ : Entries κ ν} (hm : IsMap es₁) (p : es₁.Perm es₂) :
    firstOptionFixed le b es₁ = firstOptionFixed le b es₂ :=
  firstInSorted_perm h _ hm p

/-- Messages of linux `MergeSpoc` on the unchanged tree: two new tables in the raw file. -/
theorem infoLog_unfixed_counterexample :
    ∃ es₁ es₂ : Entries String (Option String), IsMap es₁ ∧ es₁.Perm es₂ ∧
      infoLogUnfixed es₁ ≠ infoLogUnfixed es₂ :=
  ⟨[("mangle", some "Adding all chains of table \"mangle\""), ("nat", some "Adding all chains of table \"nat\"")],
   [("nat", some "Adding all chains of table \"nat\""), ("mangle", some "Adding all chains of table \"mangle\"")],
   by decide, List.Perm.swap _ _ _, by decide⟩

theorem infoLog_unfixed_partial {κ ρ : Type} {es₁ es₂ : Entries κ (Option ρ)}
    (huniq : ∀ a, a ∈ es₁ → ∀ b, b ∈ es₁ → a.2.isSome → b.2.isSome → a = b) (p : es₁.Perm es₂) :
    infoLogUnfixed es₁ = infoLogUnfixed es₂ :=
  filterMap_perm_of_atMostOne huniq p

theorem infoLog_fixed_deterministic {κ ρ : Type} {le : κ → κ → Bool} (h : LawfulLe le)
    {es₁ es₂ : Entries κ (Option ρ)} (hm : IsMap es₁) (p : es₁.Perm es₂) :
    infoLogFixed le es₁ = infoLogFixed le es₂ :=
  logInSorted_perm h _ hm p

/-! ## Non-vacuity -/

example : IsMap [("g1", gA), ("g2", gA), ("g3", (⟨true, 0, [1, 2]⟩ : Group))] := by decide
example : Separate (fun a : Nat × List Nat => a.2) [(1, [10, 11]), (2, [12])] := by
  intro a ha b hb hab i hi
  simp only [List.mem_cons, List.mem_nil_iff, or_false] at ha hb
  rcases ha with rfl | rfl <;> rcases hb with rfl | rfl <;> simp at hab hi <;> omega
example : peerObs ([(1, some 7), (2, some 7), (3, some 8)].foldl peerStepFixed (.ok fun _ => none)) [7, 8]
    = .inr [some 1, some 3] := by decide
example : (defaultVals.foldl (Site.loadDefaults fun _ => false) (some fun _ => none)).isSome = true := by
  decide

/-- A stage of `run_schedule_independent` built from a site theorem. -/
example : Stage (Entries String Bool × List String) (String × Bool) where
  entries s := s.1
  body s l := (s.1, Site.mergeSpocWarnings id [] l)
  inv := by intro s l p; rw [site_mergeSpocWarnings id [] p]

def obligations : List Lean.Name := [
  ``NA.PermFold.foldl_perm, ``NA.PermFold.sort_perm, ``NA.PermFold.sortBy_perm,
  ``findFirst_invariant_iff, ``firstResult_invariant_iff,
  ``NA.PermFold.strLe_lawful,
  ``run_schedule_independent, ``sites_covered, ``every_site_described_or_hash_tied, ``shape_holds, ``repaired_stay_sorted, ``no_loose_iterators,
  ``anchor_table_agrees, ``default_vals_parse,
  ``site_isValidOutput, ``site_mergeSpocMakeMaps, ``site_mergeSpocWarnings, ``site_anchorProbe,
  ``site_onlyAnchorNames, ``site_posAfterAdd, ``site_posAfterDel, ``site_deleteUnusedCollect,
  ``site_deleteStillReferenced, ``site_markReferenced, ``site_generateNames, ``site_sortGroups,
  ``site_ignoreCryptoGDOI, ``site_addDefaults, ``site_rewriteCommands, ``site_rewriteAndSetTypeRef,
  ``site_normalizeIPTables, ``site_copyKeys, ``site_dropUnmanagedUsers, ``site_loadDefaults,
  ``findGroup_unfixed_counterexample, ``findGroup_unfixed_partial, ``findGroup_fixed_deterministic,
  ``findGroup_fixed_least,
  ``peerMap_unfixed_counterexample, ``peerMap_unfixed_abort_counterexample, ``peerMap_unfixed_partial,
  ``peerMap_fixed_deterministic,
  ``firstError_unfixed_counterexample, ``firstError_unfixed_partial, ``firstError_fixed_deterministic,
  ``prefix_name_order_lawful, ``firstAbort_fixed_deterministic,
  ``firstOption_unfixed_counterexample, ``firstOption_unfixed_partial, ``firstOption_fixed_deterministic,
  ``infoLog_unfixed_counterexample, ``infoLog_unfixed_partial, ``infoLog_fixed_deterministic]

end NA.C16
