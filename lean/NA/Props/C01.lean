import NA.Props.AsaAcl
import NA.Props.C14
/-!
# C01 — ASA approve converges (the access-list line planner; routes)

The theorems proved for the ASA backend live in `NA.Props.AsaAcl` (convergence of `diffASAACLs`'
`line N` arithmetic for every merged list, position refinement, well-formed prefix states, resume)
.  This file only collects them for the C01 check.  The engine-level theorems (object-group
equalisation, name generation, bindings, routes, `deleteUnused`: `asa_F1_converges`, …) are in
`NA.Props.F1`, the VPN objects in `NA.Props.Vpn` / `NA.Props.VpnGraph`, the clean-up in `NA.Props.C07`;
all of them are modules of the C01 check (props/C01.json).  The generic lemma `NA.Route.routes_covered`
(NA.Props.C14) is applied to the engine's own route plan in `NA.Props.F1` / `NA.Props.F2`.
-/
namespace NA.C01
def obligations : List Lean.Name := [
  ``NA.Acl.asa_plan_converges, ``NA.Acl.asa_pos_refines,
  ``NA.Acl.asa_trace_states_masked, ``NA.Acl.asa_prefix_states_masked,
  ``NA.Acl.asa_resume_converges, ``NA.Acl.asaExec_nodup, ``NA.Acl.cellsOf_sound,
  ``NA.Acl.asa_plan_converges_script]
end NA.C01
