import NA.Props.AsaAcl
import NA.Props.C14
/-!
# C01 — ASA approve converges (the access-list line planner; routes)

The theorems proved for the ASA backend live in `NA.Props.AsaAcl` (convergence of `diffASAACLs`'
`line N` arithmetic for every merged list, position refinement, well-formed prefix states, resume)
and `NA.Props.C14` (`routes_covered`).  This file only collects them for the C01 check.
What is NOT proved for C01: the object-group equalisation, name generation, crypto/VPN objects
and `deleteUnused` are not modelled in Lean; they are covered by the configuration-level oracle
(harness/asacfg) only.  See DESIGN.md.
-/
namespace NA.C01
def obligations : List Lean.Name := [
  ``NA.Acl.asa_plan_converges, ``NA.Acl.asa_pos_refines,
  ``NA.Acl.asa_trace_states_masked, ``NA.Acl.asa_prefix_states_masked,
  ``NA.Acl.asa_resume_converges, ``NA.Acl.asaExec_nodup, ``NA.Acl.cellsOf_sound,
  ``NA.Acl.asa_plan_converges_script, ``NA.Route.routes_covered]
end NA.C01
