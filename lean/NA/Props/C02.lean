import NA.Props.IosAcl
import NA.Props.C14
/-!
# C02 — IOS approve converges (numbered ACL entries, permit/deny blocks; routes)

Collects the IOS theorems of `NA.Props.IosAcl` for the C02 check:
numbering refinement (`ios_numbers_strictly_increasing`, `ios_insert_by_number`, `ios_delete_by_number`,
`ios_reseq_is_numbered`), block equivalence implies equal filtering (`blockEq_same_semantics`,
`blockEquiv_same_semantics`), acceptance and final state of every plan (`ios_plan_final_state`),
convergence up to block equivalence for ACLs without remark lines (`ios_plan_block_equiv_partial`),
exact convergence without suppressed moves (`ios_plan_converges_no_suppression_partial`),
the refutation for remark lines (`ios_remark_suppression_counterexample`, finding F-C02r) and the
regression witness of the repaired defect F-C02 (`ios_split_block_move_not_suppressed`).
Interface bindings, VRF alignment and routes are modelled at engine level in `NA.Props.F2` (a module of the
C02 check: `ios_F2_converges_partial`, `ios_routes_converge`, `ios_routes_covered_every_step`, …); crypto map
filter ACLs: configuration-level oracle (harness/asavpn, IOS mode) only.
-/
namespace NA.C02
open NA.Acl.IosAclProps
def obligations : List Lean.Name := [
  ``NA.Acl.IosAclProps.ios_numbers_strictly_increasing, ``NA.Acl.IosAclProps.ios_runs_numbering_consistent, ``NA.Acl.IosAclProps.ios_insert_by_number,
  ``NA.Acl.IosAclProps.ios_delete_by_number, ``NA.Acl.IosAclProps.ios_reseq_is_numbered, ``NA.Acl.IosAclProps.block_swap_same_semantics, ``NA.Acl.IosAclProps.blockEq_same_semantics,
  ``NA.Acl.IosAclProps.blockEquiv_same_semantics, ``NA.Acl.IosAclProps.ios_plan_final_state, ``NA.Acl.IosAclProps.ios_plan_converges_no_suppression_partial,
  ``NA.Acl.IosAclProps.ios_plan_block_equiv_partial,
  ``NA.Acl.IosAclProps.ios_remark_suppression_counterexample, ``NA.Acl.IosAclProps.ios_split_block_move_not_suppressed,
  ``NA.Acl.IosAclProps.ios_log_change_lost_counterexample]
end NA.C02
