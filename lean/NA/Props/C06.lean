import NA.Proofs.C06Gate
import NA.Proofs.C06Text
/-!
# C06 — approve never changes a wrong, unmanaged or passive device

`runMain b env` is one whole run of `device.ApproveOrCompare` (drc FILE / do-approve approve)
of backend `b` against an **arbitrary** device `env.dev : history → request → reply` (any reply
may be a fault), any configuration `env.cfg`, any list `env.plan` of pending change commands.
`NoChange b tr`: the trace contains no configuration-changing request and no save/commit
(specification side: `NA.Gate.Spec.kind`).

* `wrong_hostname_no_change`   — all four backends that ask the device for its name
* `missing_marker_no_change_partial` — ASA, IOS, PAN-OS.  The statement for all backends is
  **false** of the code: `missing_marker_no_change_counterexample` (Linux: `GetErrUnmanaged`
  returns nil although `checkBanner` recorded the error; finding F-C06a, replayed against the
  real `drc` with the repository's simulator by `harness/c06`).
* `ha_passive_no_change`        — PAN-OS
* `marker_unconfigured_proceeds` — without `checkbanner` the gate is transparent (ASA, IOS,
  Linux, NSX).  On the unchanged tree the Linux instance was false
  (`marker_unconfigured_unfixed_counterexample`: nil dereference, F-C06b); repaired by a
  `fix:` commit, `linuxCheckBanner` models the repaired function and `skeleton_matches` pins it.
* `NA.Props.C06Tie`: `skeleton_matches`, `front_ends_match`, `gate_impls`, `errUnmanaged_writes` —
  the programs the theorems talk about have the call skeleton regenerated from the Go source on
  every run (order of calls in approve, the gate before applyCommands, the printed form of
  every guard, which field each `GetErrUnmanaged` returns, every write to `errUnmanaged`).
* `change_only_after_gate`, `commit_only_after_gate`, `change_implies_host_reported`,
  `change_implies_ha_active`, `change_implies_marker_seen` — the positive form: whatever was
  changed, hostname, marker and HA state had been established (any bound of the NSX paging and
  PAN-OS polling loops).
* `banner_word_check_iff`, `marker_split_across_outputs`, `marker_inside_longer_text`,
  `panMarked_iff`, `linux_issue_check_iff`, … — the marker checks as statements about strings.
-/
namespace NA.C06
open NA.Gate NA.Gate.Spec

/-- The names the device may report: base name of the code file, or the `name_list`. -/
def expectedNames (b : Backend) (cfg : Cfg) : List String :=
  match b with
  | .panos | .nsx => cfg.names
  | _ => [cfg.name]

/-- "lacks the managed-by marker", per platform. -/
def MarkerAbsent (b : Backend) (cfg : Cfg) (dev : Dev) : Prop :=
  match b with
  | .asa | .ios => ∃ m, cfg.banner = some m ∧ MarkerNever dev m
  | .linux => cfg.banner.isSome = true ∧ LinuxNoMarker cfg dev
  | .panos => PanNoMarker cfg dev
  | .nsx => False

/-- What "no change, diagnostic, non-zero status" means for a finished run. -/
def Refused (b : Backend) (f : St) : Prop :=
  NoChange b f.trace ∧ f.exit = 1 ∧ f.diagnostic.isSome = true

instance (b : Backend) (f : St) : Decidable (Refused b f) := by
  unfold Refused; exact inferInstance

theorem safe_tryNames (b : Backend) (body : String → Prog) (h : ∀ n, safe b (body n) = true) :
    ∀ names, safe b (tryNames body names) = true := by
  intro names
  induction names with
  | nil => rfl
  | cons n ns ih => simp [tryNames, safe, h n, ih]

theorem noCrash_tryNames (body : String → Prog) (h : ∀ n, noCrash (body n) = true) :
    ∀ names, noCrash (tryNames body names) = true := by
  intro names
  induction names with
  | nil => rfl
  | cons n ns ih => simp [tryNames, noCrash, h n, ih]

theorem safe_load (b : Backend) (cfg : Cfg) :
    (safe b (backendLoad b cfg) && safe b (backendGetChanges b)) = true := by
  cases b
  · rfl
  · rfl
  · rfl
  · have h : ∀ n, safe .panos (panLoginBody n) = true := fun n => by rfl
    have := safe_tryNames .panos panLoginBody h cfg.names
    simp only [backendLoad, backendGetChanges, panLoadDevice, errRet, safe, this, Bool.and_true,
      Bool.true_and]
    decide
  · have h : ∀ n, safe .nsx (nsxLoginBody n) = true := fun n => by rfl
    have := safe_tryNames .nsx nsxLoginBody h cfg.names
    simp only [backendLoad, backendGetChanges, nsxLoadDevice, safe, this, Bool.and_true, Bool.true_and]
    decide

/-- The load part of every backend with an interlock contains neither a nil dereference nor an
unbounded loop (NSX has the paging loops, and no interlock). -/
theorem noCrash_load (b : Backend) (hb : b ≠ .nsx) (cfg : Cfg) :
    (noCrash (backendLoad b cfg) && noCrash (backendGetChanges b)) = true := by
  cases b
  · rfl
  · rfl
  · rfl
  · have h : ∀ n, noCrash (panLoginBody n) = true := fun n => by rfl
    have := noCrash_tryNames panLoginBody h cfg.names
    simp only [backendLoad, backendGetChanges, panLoadDevice, errRet, noCrash, this, Bool.and_true,
      Bool.true_and]
    decide
  · exact absurd rfl hb

/-- If the load part of approve stops or leaves the gate shut, the run is refused. -/
theorem refused_of_shut (b : Backend) (hb : b ≠ .nsx) (env : Env) (hc : env.cfg.isCompare = false)
    (hshut : (exec env (backendGetChanges b) (exec env (backendLoad b env.cfg) {})).status.isRunning = true →
      consults b = true ∧ (exec env (backendGetChanges b) (exec env (backendLoad b env.cfg) {})).errU ≠ []) :
    Refused b (runMain b env) := by
  rw [runMain_approve b env hc]
  exact approveWith_blocked env b _ _ _ _ (safe_load b env.cfg) (noCrash_load b hb env.cfg) hshut

/-- **Wrong hostname.**  A device that never reports (one of) the expected name(s) is not changed:
no configuration-changing request, no save/commit, exit status 1, an ERROR line — for every
backend that asks for the name, every device behaviour, every configuration, every plan. -/
theorem wrong_hostname_no_change (b : Backend) (hb : b ≠ .nsx) (env : Env)
    (hc : env.cfg.isCompare = false) (h : WrongHost b (expectedNames b env.cfg) env.dev) :
    Refused b (runMain b env) := by
  apply refused_of_shut b hb env hc
  intro hr
  exfalso
  have : (exec env (backendGetChanges b) (exec env (backendLoad b env.cfg) {})).status.isRunning = false := by
    cases b with
    | asa => exact asa_host_blocks env h _
    | ios => exact ios_host_blocks env h _
    | linux => exact linux_host_blocks env h _ _
    | panos => exact panos_host_blocks env h _
    | nsx => exact absurd rfl hb
  rw [this] at hr
  exact Bool.false_ne_true hr

/-- **Missing marker** (ASA, IOS: banner regexp never matches anything the device sends;
PAN-OS: a managed vsys without `netspoc` in its display-name): not changed, exit 1, ERROR line.
Hypothesis `b ≠ .linux` is the exact complement of finding F-C06a. -/
theorem missing_marker_no_change_partial (b : Backend) (hb : b ≠ .linux) (env : Env)
    (hc : env.cfg.isCompare = false) (h : MarkerAbsent b env.cfg env.dev) :
    Refused b (runMain b env) := by
  have hnsx : b ≠ .nsx := by
    intro e; subst e; exact h
  apply refused_of_shut b hnsx env hc
  cases b with
  | asa =>
    obtain ⟨m, hm, hn⟩ := h
    intro hr
    exact ⟨rfl, cisco_marker_shut env m hm hn asaPostLogin ciscoGetChanges noRecord_asaPost
      noRecord_ciscoGetChanges hr⟩
  | ios =>
    obtain ⟨m, hm, hn⟩ := h
    intro hr
    exact ⟨rfl, cisco_marker_shut env m hm hn iosPostLogin ciscoGetChanges noRecord_iosPost
      noRecord_ciscoGetChanges hr⟩
  | linux => exact absurd rfl hb
  | panos => intro hr; exact ⟨rfl, panos_marker_shut env h hr⟩
  | nsx => exact absurd rfl hnsx

/-! ### the Linux instance is false of the code (F-C06a) -/

/-- A Linux host whose `/etc/issue` lacks the marker (grep prints nothing), everything else in
order, one pending route change. -/
def linuxUnmarkedDev : Dev := fun _ o =>
  match o with
  | .wait => .text "\r\nroot@host:~# "
  | .lit "hostname -s" => .text "router\n"
  | .lit "echo $?" => .text "0\n"
  | .litArg _ _ => .text ""
  | _ => .text ""

def linuxUnmarkedEnv : Env :=
  { cfg := { banner := some (Rx.ofWord "NetSPoC".toList), bannerSrc := "NetSPoC" }
    dev := linuxUnmarkedDev
    plan := ["ip route add 10.0.0.0/8 via 10.1.1.99"] }

/-- `missing_marker_no_change` for all backends is false: on Linux the marker is checked, the
error is recorded, but `GetErrUnmanaged` returns nil — the route is changed, exit status 0. -/
theorem missing_marker_no_change_counterexample :
    ∃ env : Env, env.cfg.isCompare = false ∧ MarkerAbsent .linux env.cfg env.dev ∧
      (runMain .linux env).errU ≠ [] ∧
      .plan "ip route add 10.0.0.0/8 via 10.1.1.99" ∈ (runMain .linux env).trace ∧
      (runMain .linux env).exit = 0 := by
  refine ⟨linuxUnmarkedEnv, rfl, ⟨rfl, ?_⟩, ?_, ?_, ?_⟩
  · intro hist s h
    simp [linuxMarkerQuery, linuxUnmarkedEnv, linuxUnmarkedDev] at h
    exact h
  · decide
  · decide
  · decide

/-- Had `GetErrUnmanaged` returned the recorded list (what the other backends do), the same run
would have been refused: the defect is exactly the `return nil`. -/
theorem linux_gate_would_hold :
    let f := closeStep (closeOut .linux) (exec linuxUnmarkedEnv
      (approveWith (linuxLoadDevice linuxUnmarkedEnv.cfg) linuxGetChanges true linuxApply) {})
    Refused .linux f := by
  intro f
  decide

/-- **Passive HA member** (PAN-OS): never changed. -/
theorem ha_passive_no_change (env : Env) (hc : env.cfg.isCompare = false) (h : HaPassive env.dev) :
    Refused .panos (runMain .panos env) := by
  apply refused_of_shut .panos (by decide) env hc
  intro hr
  exfalso
  have := panos_ha_blocks env h (backendGetChanges .panos)
  simp only [backendLoad] at hr
  rw [this] at hr
  exact Bool.false_ne_true hr

/-! ### no banner text configured: the gate is transparent -/

theorem exec_gate_open (env : Env) (c : Bool) (st : St) (h : st.errU = []) :
    exec env (.gate c) st = st := by
  simp only [exec, h]
  split <;> rfl

theorem noRecord_ciscoPreLogin : noRecord ciscoPreLogin = true := by decide
theorem noRecord_ciscoLoginPre : noRecord ciscoLoginPre = true := by decide
theorem noRecord_linuxPre : noRecord linuxPreBanner = true := by decide
theorem noRecord_linuxPost : noRecord linuxPostBanner = true := by decide
theorem noRecord_linuxGetChanges : noRecord linuxGetChanges = true := by decide

theorem ciscoCheckBanner_skip (env : Env) (h : env.cfg.banner = none) (st : St) :
    (exec env ciscoCheckBanner st).errU = st.errU := by
  simp only [ciscoCheckBanner, exec_seq]
  have hx : (exec env (Prog.assign .lines true true .bannerLines) st).errU = st.errU := by
    simp only [exec]; split <;> rfl
  generalize exec env (Prog.assign .lines true true .bannerLines) st = x at hx
  simp [exec, Pred.eval, penv, h, hx]

theorem linuxCheckBanner_skip (env : Env) (h : env.cfg.banner = none) (st : St) :
    exec env (linuxCheckBanner env.cfg) st = st := by
  simp only [linuxCheckBanner, exec, Pred.eval, penv, h, Option.isNone_none, if_true]
  split <;> rfl

theorem cisco_errU_nil (env : Env) (h : env.cfg.banner = none) (post gc : Prog)
    (hpost : noRecord post = true) (hgc : noRecord gc = true) :
    (exec env gc (exec env (ciscoPreLogin ;; .call "LoginEnable" ciscoLoginEnable ;; post) {})).errU = [] := by
  simp only [ciscoLoginEnable, exec_seq, exec_call]
  rw [exec_errU env gc hgc, exec_errU env post hpost, ciscoCheckBanner_skip env h,
    exec_errU env _ noRecord_ciscoLoginPre, exec_errU env _ noRecord_ciscoPreLogin]

/-- **Marker not configured**: with no `checkbanner` the banner check is skipped and approve goes
on into `applyCommands` exactly as if there were no gate — for every device behaviour
(PAN-OS has no configurable marker and is not part of this statement). -/
theorem marker_unconfigured_proceeds (b : Backend) (hb : b ≠ .panos) (env : Env)
    (h : env.cfg.banner = none) :
    exec env (approveP b env.cfg) {} =
      exec env (applyCommandsP (backendApply b env.cfg))
        (exec env (backendGetChanges b) (exec env (backendLoad b env.cfg) {})) := by
  unfold approveP
  rw [approveWith_exec]
  congr 1
  cases b with
  | asa => exact exec_gate_open env _ _ (cisco_errU_nil env h _ _ noRecord_asaPost noRecord_ciscoGetChanges)
  | ios => exact exec_gate_open env _ _ (cisco_errU_nil env h _ _ noRecord_iosPost noRecord_ciscoGetChanges)
  | linux => simp [consults, exec]
  | panos => exact absurd rfl hb
  | nsx => simp [consults, exec]

/-- … and on Linux the recorded list stays empty, so this does not depend on the missing gate. -/
theorem marker_unconfigured_linux_clean (env : Env) (h : env.cfg.banner = none) :
    (exec env linuxGetChanges (exec env (linuxLoadDevice env.cfg) {})).errU = [] := by
  simp only [linuxLoadDevice, linuxLoadDeviceWith, exec_seq, exec_call]
  rw [exec_errU env _ noRecord_linuxGetChanges, exec_errU env _ noRecord_linuxPost,
    linuxCheckBanner_skip env h, exec_errU env _ noRecord_linuxPre]

/-- A co-operative ASA with one pending change, no `checkbanner`: the change and the save are sent,
exit status 0 (non-vacuity of `marker_unconfigured_proceeds`). -/
def asaFriendlyDev : Dev := fun _ o =>
  match o with
  | .wait => .text "password: "
  | .pass => .text "\r\nrouter# "
  | .lit "show hostname" => .text "router\n"
  | .lit "sh pager" => .text "no pager\n"
  | .lit "sh term" => .text "Width = 511\n"
  | .lit "write memory" => .text "[OK]\n"
  | _ => .text ""

example :
    let f := runMain .asa { cfg := {}, dev := asaFriendlyDev, plan := ["route inside 10.0.0.0 255.0.0.0 10.1.2.3"] }
    f.exit = 0 ∧ .plan "route inside 10.0.0.0 255.0.0.0 10.1.2.3" ∈ f.trace ∧ .lit "write memory" ∈ f.trace := by
  decide +kernel

/-- Non-vacuity of `missing_marker_no_change_partial`: a `checkbanner` regexp that matches no
character can never be found, whatever the device sends. -/
example : MarkerAbsent .asa { banner := some Rx.never } asaFriendlyDev :=
  ⟨_, rfl, fun _ _ => search_never _⟩

/-- The unchanged tree (before the `fix:` commit): `cfg.CheckBanner.String()` with
`checkbanner` unset is a nil dereference — exit status 2, no ERROR line, instead of a normal
approve (F-C06b). -/
theorem marker_unconfigured_unfixed_counterexample :
    ∃ env : Env, env.cfg.banner = none ∧
      (closeStep (closeOut .linux) (exec env
        (approveWith (linuxLoadDeviceWith (linuxCheckBannerUnfixed env.cfg)) linuxGetChanges
          (consults .linux) linuxApply) {})).exit = 2 :=
  ⟨{ linuxUnmarkedEnv with cfg := {} }, rfl, by decide⟩

/-! ### nothing changes before hostname, marker and HA state are established -/

theorem not_noChange_of_mem (b : Backend) (tr : List Out) (o : Out) (ho : o ∈ tr)
    (hh : harmless b o = false) : ¬ NoChange b tr := by
  intro h
  have := h o ho
  rw [hh] at this
  exact Bool.false_ne_true this

/-- **No configuration-changing request, no save and no commit before the gate is passed**: if the
trace of an approve run contains one, then LoadDevice and GetChanges ended normally and (where
`GetErrUnmanaged` returns the recorded list) nothing was recorded — every backend with an
interlock, every device, every configuration, every plan, every bound of the polling loops. -/
theorem change_only_after_gate (b : Backend) (hb : b ≠ .nsx) (env : Env)
    (hc : env.cfg.isCompare = false) (h : ¬ NoChange b (runMain b env).trace) :
    (exec env (backendGetChanges b) (exec env (backendLoad b env.cfg) {})).status.isRunning = true ∧
    (consults b = true →
      (exec env (backendGetChanges b) (exec env (backendLoad b env.cfg) {})).errU = []) := by
  apply Classical.byContradiction
  intro hn
  apply h
  apply (refused_of_shut b hb env hc _).1
  intro hr
  cases hcb : consults b with
  | false => exact absurd ⟨hr, fun hx => by rw [hcb] at hx; cases hx⟩ hn
  | true =>
    refine ⟨rfl, ?_⟩
    intro he
    exact hn ⟨hr, fun _ => he⟩

/-- … in particular the PAN-OS commit and the polling of its job (however long the device answers
PEND) happen only after the gate. -/
theorem commit_only_after_gate (env : Env) (hc : env.cfg.isCompare = false) (u : String)
    (h : .litArg "type=commit&action=partial&cmd=" u ∈ (runMain .panos env).trace) :
    (exec env panGetChanges (exec env (panLoadDevice env.cfg) {})).status.isRunning = true ∧
    (exec env panGetChanges (exec env (panLoadDevice env.cfg) {})).errU = [] := by
  have := change_only_after_gate .panos (by decide) env hc (not_noChange_of_mem .panos _ _ h (by rfl))
  exact ⟨this.1, this.2 rfl⟩

/-- If anything was changed, the device did report (one of) the expected name(s) … -/
theorem change_implies_host_reported (b : Backend) (hb : b ≠ .nsx) (env : Env)
    (hc : env.cfg.isCompare = false) (h : ¬ NoChange b (runMain b env).trace) :
    ∃ q hist n, hostQuery b = some q ∧ n ∈ expectedNames b env.cfg ∧ hostIs b (env.dev hist q) n = true := by
  apply Classical.byContradiction
  intro hn
  apply h
  apply (wrong_hostname_no_change b hb env hc _).1
  intro q hq hist n hmem
  cases hv : hostIs b (env.dev hist q) n with
  | false => rfl
  | true => exact absurd ⟨q, hist, n, hq, hmem, hv⟩ hn

/-- … a PAN-OS device did claim to be the active member … -/
theorem change_implies_ha_active (env : Env) (hc : env.cfg.isCompare = false)
    (h : ¬ NoChange .panos (runMain .panos env).trace) :
    ∃ hist, haActive (env.dev hist panHaQuery) = true := by
  apply Classical.byContradiction
  intro hn
  apply h
  apply (ha_passive_no_change env hc _).1
  intro hist
  cases hv : haActive (env.dev hist panHaQuery) with
  | false => rfl
  | true => exact absurd ⟨hist, hv⟩ hn

/-- … and the marker was seen: on ASA / IOS the configured regexp matches a concatenation of texts
the device sent; on PAN-OS the device showed a configuration in which every managed vsys carries
`netspoc` in its display-name.  (Linux is missing: F-C06a.) -/
theorem change_implies_marker_seen (b : Backend) (hb : b ≠ .linux) (hn : b ≠ .nsx) (env : Env)
    (hc : env.cfg.isCompare = false) (h : ¬ NoChange b (runMain b env).trace) :
    match b with
    | .asa | .ios => ∀ r, env.cfg.banner = some r →
        ∃ l : List String, (∀ s ∈ l, ∃ hist o, env.dev hist o = .text s) ∧ r.search (String.join l).toList = true
    | .panos => ∃ hist hname vs, env.dev hist panConfQuery = .conf hname vs ∧
        ∀ v ∈ vs, v.1 ∈ env.cfg.targetVsys → vsysMarked v.2 = true
    | _ => True := by
  have key : ¬ MarkerAbsent b env.cfg env.dev := fun hm =>
    h (missing_marker_no_change_partial b hb env hc hm).1
  cases b with
  | asa =>
    intro r hr
    apply Classical.byContradiction
    intro hne
    apply key
    refine ⟨r, hr, ?_⟩
    intro l hl
    cases hv : r.search (String.join l).toList with
    | false => rfl
    | true => exact absurd ⟨l, hl, hv⟩ hne
  | ios =>
    intro r hr
    apply Classical.byContradiction
    intro hne
    apply key
    refine ⟨r, hr, ?_⟩
    intro l hl
    cases hv : r.search (String.join l).toList with
    | false => rfl
    | true => exact absurd ⟨l, hl, hv⟩ hne
  | panos =>
    apply Classical.byContradiction
    intro hne
    apply key
    intro hist hname vs hd
    apply Classical.byContradiction
    intro hno
    apply hne
    refine ⟨hist, hname, vs, hd, ?_⟩
    intro v hv ht
    cases hm : vsysMarked v.2 with
    | true => rfl
    | false => exact absurd ⟨v, hv, ht, hm⟩ hno
  | linux => exact absurd rfl hb
  | nsx => exact absurd rfl hn

/-- Non-vacuity for the polling loop: a PAN-OS device (HA off, marked vsys, right name) that
answers PEND three times before OK — approve sends the change, the commit and four polls, exit 0;
with a bound of two rounds the run is still polling (`unfinished`), and a device without the
marker gets nothing but the read-only requests. -/
def panFriendlyDev (displayName : String) : Dev := fun hist o =>
  match o with
  | .lit "type=keygen" => .text "KEY"
  | .lit "type=op&cmd=<show><high-availability><state/></high-availability></show>" => .ha "no" "" ""
  | .lit "type=config&action=get&xpath=/config/devices" => .conf "router" [("vsys1", displayName)]
  | .litArg "type=commit&action=partial&cmd=" _ => .text "6"
  | .litArg "type=op&cmd=<show><jobs><id>" _ =>
    if (hist.filter fun h => h == .litArg "type=op&cmd=<show><jobs><id>" "job").length < 3 then .text "PEND"
    else .text "OK"
  | _ => .text ""

example :
    let env (fuel : Nat) (dn : String) : Env :=
      { cfg := { targetVsys := ["vsys1"], fuel := fuel }, dev := panFriendlyDev dn, plan := ["action=set&x"] }
    (runMain .panos (env 8 "managed-by-NetSPoC")).exit = 0 ∧
    ((runMain .panos (env 8 "managed-by-NetSPoC")).trace.filter
        fun o => o == .litArg "type=op&cmd=<show><jobs><id>" "job").length = 4 ∧
    (runMain .panos (env 2 "managed-by-NetSPoC")).status = .unfinished ∧
    (runMain .panos (env 8 "FW7")).exit = 1 ∧
    (runMain .panos (env 8 "FW7")).trace.length = 3 := by
  decide +kernel

/-! ### the marker checks as statements about strings -/

/-- ASA / IOS, `checkbanner` a plain word `w`: `checkBanner` leaves `errUnmanaged` empty iff `w`
occurs, as a contiguous block, in the concatenation of what was collected during login. -/
theorem banner_word_check_iff (env : Env) (w : List Char) (hb : env.cfg.banner = some (Rx.ofWord w))
    (st : St) (hr : st.status.isRunning = true) (he : st.errU = []) :
    (exec env ciscoCheckBanner st).errU = [] ↔ ∃ x y, (String.join st.banner).toList = x ++ w ++ y := by
  rw [← infixL_iff, ← search_ofWord]
  simp only [ciscoCheckBanner, exec_seq]
  generalize ht : (String.join st.banner).toList = t
  have hx : exec env (Prog.assign .lines true true .bannerLines) st = { st with lines := t } := by
    simp only [exec, hr, if_true, TExp.eval, penv, ht]
  rw [hx]
  cases hs : (Rx.ofWord w).search t with
  | true => simp [exec, hr, Pred.eval, TExp.eval, penv, hb, hs, he]
  | false => simp [exec, hr, Pred.eval, TExp.eval, penv, hb, hs, missingBanner]

/-- The word split over two outputs of the login dialogue counts as present (the code searches
the concatenation) … -/
theorem marker_split_across_outputs (u v x y : List Char) (a b : String)
    (ha : a.toList = x ++ u) (hb : b.toList = v ++ y) :
    Rx.search (Rx.ofWord (u ++ v)) (String.join [a, b]).toList = true := by
  rw [search_ofWord, infixL_iff]
  refine ⟨x, y, ?_⟩
  simp [String.join, ha, hb]

/-- … and so does the word inside a longer word, or repeated. -/
theorem marker_inside_longer_text (w pre post : List Char) :
    Rx.search (Rx.ofWord w) (pre ++ w ++ post) = true := by
  rw [search_ofWord, infixL_iff]; exact ⟨pre, post, rfl⟩

/-- Concrete texts (evaluated by the kernel): inside a word and repeated count; a blank or a line
break inside the word, or other letter case, do not (for ASA / IOS the regexp is case-sensitive
unless the administrator writes `(?i)`). -/
theorem marker_text_examples :
    Rx.search (Rx.ofWord "NetSPoC".toList) "xxNetSPoCyy".toList = true ∧
    Rx.search (Rx.ofWord "NetSPoC".toList) "NetSPoC NetSPoC".toList = true ∧
    Rx.search (Rx.ofWord "NetSPoC".toList) "managed by Net SPoC".toList = false ∧
    Rx.search (Rx.ofWord "NetSPoC".toList) "Net\nSPoC".toList = false ∧
    Rx.search (Rx.ofWord "NetSPoC".toList) "managed by netspoc".toList = false := by
  decide

/-- PAN-OS: the marker is the word `netspoc` in any letter case anywhere in the display-name. -/
theorem panMarked_iff (dn : String) :
    panMarked dn = true ↔ ∃ x y, lowerL dn.toList = x ++ "netspoc".toList ++ y := by
  unfold panMarked; exact infixL_iff _ _

theorem panMarked_examples :
    panMarked "FW7-managed-by-NetSPoC" = true ∧ panMarked "NETSPOC" = true ∧
    panMarked "xnetspocx" = true ∧ panMarked "net spoc" = false ∧ panMarked "FW7" = false := by
  decide

/-- Linux: on a host whose /etc/issue is `issue`, `checkBanner` records the error iff no
non-empty line of the file matches the regexp (so a marker broken over two lines does not count,
unlike on ASA / IOS). -/
theorem linux_issue_check_iff (env : Env) (r : Rx) (issue : String)
    (hd : LinuxIssue env.cfg r env.dev issue) (st : St) (hr : st.status.isRunning = true)
    (he : st.errU = []) :
    (exec env (linuxGrep env.cfg) st).errU = [missingBanner] ↔
      ∀ l ∈ splitLines issue.toList, l = [] ∨ r.search l = false := by
  rw [← grepOut_nil_iff]
  have hs : st.status = .running := Status.isRunning_iff.mp hr
  obtain ⟨s, hrep, hsl⟩ := hd st.trace
  simp only [linuxMarkerQuery] at hrep
  simp only [linuxGrep, exec_seq, exec_send]
  rw [sendStep_running env _ _ st hs, hrep]
  cases hg : grepOut r issue.toList with
  | nil => simp [exec, hs, Pred.eval, TExp.eval, penv, hsl, hg]
  | cons c cs => simp [exec, hs, Pred.eval, TExp.eval, penv, hsl, hg, he, missingBanner]

theorem linux_issue_examples :
    grepOut (Rx.ofWord "NetSPoC".toList) "Debian\n--- managed by NetSPoC ---\n".toList =
      "--- managed by NetSPoC ---\n".toList ∧
    grepOut (Rx.ofWord "NetSPoC".toList) "managed by Net\nSPoC\n".toList = [] := by
  decide

/-- Both front ends reach the run the theorems above talk about: `drc FILE` without `-C` and
`do-approve approve DEVICE` are `runMain` with `isCompare = false` (the dispatch tables these
functions use are tied to the source by `front_ends_match`). -/
theorem front_ends_run_approve (b : Backend) (cfg : Cfg) (flags : List String) (dev : Dev) (plan : List String) :
    (drcIsCompare flags = false →
      runDrc b cfg dev plan flags 1 = runMain b ⟨{ cfg with isCompare := false }, dev, plan⟩) ∧
    runDoApprove b cfg dev plan "approve" = runMain b ⟨{ cfg with isCompare := false }, dev, plan⟩ := by
  refine ⟨?_, ?_⟩
  · intro h; simp [runDrc, h]
  · simp [runDoApprove, doApproveCases, List.lookup, doApproveCompareWord]

def obligations : List Lean.Name := [
  ``change_only_after_gate, ``commit_only_after_gate, ``change_implies_host_reported,
  ``change_implies_ha_active, ``change_implies_marker_seen,
  ``banner_word_check_iff, ``marker_split_across_outputs, ``marker_inside_longer_text,
  ``marker_text_examples, ``panMarked_iff, ``panMarked_examples, ``linux_issue_check_iff,
  ``linux_issue_examples, ``NA.Gate.search_ofWord, ``NA.Gate.infixL_iff, ``NA.Gate.grepOut_nil_iff,
  ``front_ends_run_approve,
  ``wrong_hostname_no_change, ``missing_marker_no_change_partial,
  ``missing_marker_no_change_counterexample, ``linux_gate_would_hold, ``ha_passive_no_change,
  ``marker_unconfigured_proceeds, ``marker_unconfigured_linux_clean,
  ``marker_unconfigured_unfixed_counterexample]

end NA.C06
