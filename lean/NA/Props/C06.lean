import NA.Proofs.C06Gate
import NA.Gen.GateSkel
/-!
# C06 — approve never changes a wrong, unmanaged or passive device

`runMain b env` is one whole run of `device.ApproveOrCompare` (drc FILE / do-approve approve)
of backend `b` against an **arbitrary** device `env.dev : history → request → reply` (any reply
may be a fault), any configuration `env.cfg`, any list `env.plan` of pending change commands.
`NoChange b tr`: the trace contains no configuration-changing request and no save/commit
(specification side: `NA.Gate.Spec.kind`).

* `wrong_hostname_no_change`   — all four backends that ask the device for its name
* `missing_marker_no_change_partial` — ASA, IOS, PAN-OS.  The statement for all backends is
  **false** of the code: `missing_marker_no_change_counterexample` (Linux: `GetErrUnmanaged`
  returns nil although `checkBanner` recorded the error; finding F-C06a, replayed against the
  real `drc` with the repository's simulator by `harness/c06`).
* `ha_passive_no_change`        — PAN-OS
* `marker_unconfigured_proceeds` — without `checkbanner` the gate is transparent (ASA, IOS,
  Linux, NSX).  On the unchanged tree the Linux instance was false
  (`marker_unconfigured_unfixed_counterexample`: nil dereference, F-C06b); repaired by a
  `fix:` commit, `linuxCheckBanner` models the repaired function and `skeleton_matches` pins it.
* `skeleton_matches`, `front_ends_match`, `gate_impls`, `errUnmanaged_writes` — the programs the
  theorems talk about have the call skeleton regenerated from the Go source on every run
  (order of calls in approve, the gate before applyCommands, which field each
  `GetErrUnmanaged` returns, every write to `errUnmanaged`).
-/
namespace NA.C06
open NA.Gate NA.Gate.Spec

/-- The names the device may report: base name of the code file, or the `name_list`. -/
def expectedNames (b : Backend) (cfg : Cfg) : List String :=
  match b with
  | .panos | .nsx => cfg.names
  | _ => [cfg.name]

/-- "lacks the managed-by marker", per platform. -/
def MarkerAbsent (b : Backend) (cfg : Cfg) (dev : Dev) : Prop :=
  match b with
  | .asa | .ios => ∃ m, cfg.banner = some m ∧ MarkerNever dev m
  | .linux => cfg.banner.isSome = true ∧ LinuxNoMarker cfg dev
  | .panos => PanNoMarker cfg dev
  | .nsx => False

/-- What "no change, diagnostic, non-zero status" means for a finished run. -/
def Refused (b : Backend) (f : St) : Prop :=
  NoChange b f.trace ∧ f.exit = 1 ∧ f.diagnostic.isSome = true

instance (b : Backend) (f : St) : Decidable (Refused b f) := by
  unfold Refused; exact inferInstance

theorem safe_tryNames (b : Backend) (body : String → Prog) (h : ∀ n, safe b (body n) = true) :
    ∀ names, safe b (tryNames body names) = true := by
  intro names
  induction names with
  | nil => rfl
  | cons n ns ih => simp [tryNames, safe, h n, ih]

theorem noCrash_tryNames (body : String → Prog) (h : ∀ n, noCrash (body n) = true) :
    ∀ names, noCrash (tryNames body names) = true := by
  intro names
  induction names with
  | nil => rfl
  | cons n ns ih => simp [tryNames, noCrash, h n, ih]

theorem safe_load (b : Backend) (cfg : Cfg) :
    (safe b (backendLoad b cfg) && safe b (backendGetChanges b)) = true := by
  cases b
  · rfl
  · rfl
  · rfl
  · have h : ∀ n, safe .panos (panLoginBody n) = true := fun n => by rfl
    have := safe_tryNames .panos panLoginBody h cfg.names
    simp only [backendLoad, backendGetChanges, panLoadDevice, errRet, safe, this, Bool.and_true,
      Bool.true_and]
    decide
  · have h : ∀ n, safe .nsx (nsxLoginBody n) = true := fun n => by rfl
    have := safe_tryNames .nsx nsxLoginBody h cfg.names
    simp only [backendLoad, backendGetChanges, nsxLoadDevice, safe, this, Bool.and_true, Bool.true_and]
    decide

theorem noCrash_load (b : Backend) (cfg : Cfg) :
    (noCrash (backendLoad b cfg) && noCrash (backendGetChanges b)) = true := by
  cases b
  · rfl
  · rfl
  · rfl
  · have h : ∀ n, noCrash (panLoginBody n) = true := fun n => by rfl
    have := noCrash_tryNames panLoginBody h cfg.names
    simp only [backendLoad, backendGetChanges, panLoadDevice, errRet, noCrash, this, Bool.and_true,
      Bool.true_and]
    decide
  · have h : ∀ n, noCrash (nsxLoginBody n) = true := fun n => by rfl
    have := noCrash_tryNames nsxLoginBody h cfg.names
    simp only [backendLoad, backendGetChanges, nsxLoadDevice, noCrash, this, Bool.and_true,
      Bool.true_and]
    decide

/-- If the load part of approve stops or leaves the gate shut, the run is refused. -/
theorem refused_of_shut (b : Backend) (env : Env) (hc : env.cfg.isCompare = false)
    (hshut : (exec env (backendGetChanges b) (exec env (backendLoad b env.cfg) {})).status.isRunning = true →
      consults b = true ∧ (exec env (backendGetChanges b) (exec env (backendLoad b env.cfg) {})).errU ≠ []) :
    Refused b (runMain b env) := by
  rw [runMain_approve b env hc]
  exact approveWith_blocked env b _ _ _ _ (safe_load b env.cfg) (noCrash_load b env.cfg) hshut

/-- **Wrong hostname.**  A device that never reports (one of) the expected name(s) is not changed:
no configuration-changing request, no save/commit, exit status 1, an ERROR line — for every
backend that asks for the name, every device behaviour, every configuration, every plan. -/
theorem wrong_hostname_no_change (b : Backend) (hb : b ≠ .nsx) (env : Env)
    (hc : env.cfg.isCompare = false) (h : WrongHost b (expectedNames b env.cfg) env.dev) :
    Refused b (runMain b env) := by
  apply refused_of_shut b env hc
  intro hr
  exfalso
  have : (exec env (backendGetChanges b) (exec env (backendLoad b env.cfg) {})).status.isRunning = false := by
    cases b with
    | asa => exact asa_host_blocks env h _
    | ios => exact ios_host_blocks env h _
    | linux => exact linux_host_blocks env h _ _
    | panos => exact panos_host_blocks env h _
    | nsx => exact absurd rfl hb
  rw [this] at hr
  exact Bool.false_ne_true hr

/-- **Missing marker** (ASA, IOS: banner regexp never matches anything the device sends;
PAN-OS: a managed vsys without `netspoc` in its display-name): not changed, exit 1, ERROR line.
Hypothesis `b ≠ .linux` is the exact complement of finding F-C06a. -/
theorem missing_marker_no_change_partial (b : Backend) (hb : b ≠ .linux) (env : Env)
    (hc : env.cfg.isCompare = false) (h : MarkerAbsent b env.cfg env.dev) :
    Refused b (runMain b env) := by
  apply refused_of_shut b env hc
  cases b with
  | asa =>
    obtain ⟨m, hm, hn⟩ := h
    intro hr
    exact ⟨rfl, cisco_marker_shut env m hm hn asaPostLogin ciscoGetChanges noRecord_asaPost
      noRecord_ciscoGetChanges hr⟩
  | ios =>
    obtain ⟨m, hm, hn⟩ := h
    intro hr
    exact ⟨rfl, cisco_marker_shut env m hm hn iosPostLogin ciscoGetChanges noRecord_iosPost
      noRecord_ciscoGetChanges hr⟩
  | linux => exact absurd rfl hb
  | panos => intro hr; exact ⟨rfl, panos_marker_shut env h hr⟩
  | nsx => exact absurd h (by simp [MarkerAbsent])

/-! ### the Linux instance is false of the code (F-C06a) -/

/-- A Linux host whose `/etc/issue` lacks the marker (grep prints nothing), everything else in
order, one pending route change. -/
def linuxUnmarkedDev : Dev := fun _ o =>
  match o with
  | .wait => .text "\r\nroot@host:~# "
  | .lit "hostname -s" => .text "router\n"
  | .lit "echo $?" => .text "0\n"
  | .litArg _ _ => .text ""
  | _ => .text ""

def linuxUnmarkedEnv : Env :=
  { cfg := { banner := some (fun _ => false), bannerSrc := "NetSPoC" }
    dev := linuxUnmarkedDev
    plan := ["ip route add 10.0.0.0/8 via 10.1.1.99"] }

/-- `missing_marker_no_change` for all backends is false: on Linux the marker is checked, the
error is recorded, but `GetErrUnmanaged` returns nil — the route is changed, exit status 0. -/
theorem missing_marker_no_change_counterexample :
    ∃ env : Env, env.cfg.isCompare = false ∧ MarkerAbsent .linux env.cfg env.dev ∧
      (runMain .linux env).errU ≠ [] ∧
      .plan "ip route add 10.0.0.0/8 via 10.1.1.99" ∈ (runMain .linux env).trace ∧
      (runMain .linux env).exit = 0 := by
  refine ⟨linuxUnmarkedEnv, rfl, ⟨rfl, ?_⟩, ?_, ?_, ?_⟩
  · intro hist s h
    simp [linuxMarkerQuery, linuxUnmarkedEnv, linuxUnmarkedDev] at h
    exact h
  · decide
  · decide
  · decide

/-- Had `GetErrUnmanaged` returned the recorded list (what the other backends do), the same run
would have been refused: the defect is exactly the `return nil`. -/
theorem linux_gate_would_hold :
    let f := closeStep (closeOut .linux) (exec linuxUnmarkedEnv
      (approveWith (linuxLoadDevice linuxUnmarkedEnv.cfg) linuxGetChanges true linuxApply) {})
    Refused .linux f := by
  intro f
  decide

/-- **Passive HA member** (PAN-OS): never changed. -/
theorem ha_passive_no_change (env : Env) (hc : env.cfg.isCompare = false) (h : HaPassive env.dev) :
    Refused .panos (runMain .panos env) := by
  apply refused_of_shut .panos env hc
  intro hr
  exfalso
  have := panos_ha_blocks env h (backendGetChanges .panos)
  simp only [backendLoad] at hr
  rw [this] at hr
  exact Bool.false_ne_true hr

/-! ### no banner text configured: the gate is transparent -/

theorem exec_gate_open (env : Env) (c : Bool) (st : St) (h : st.errU = []) :
    exec env (.gate c) st = st := by
  simp only [exec, h]
  split <;> rfl

theorem noRecord_ciscoPreLogin : noRecord ciscoPreLogin = true := by decide
theorem noRecord_ciscoLoginPre : noRecord ciscoLoginPre = true := by decide
theorem noRecord_linuxPre : noRecord linuxPreBanner = true := by decide
theorem noRecord_linuxPost : noRecord linuxPostBanner = true := by decide
theorem noRecord_linuxGetChanges : noRecord linuxGetChanges = true := by decide

theorem ciscoCheckBanner_skip (env : Env) (h : env.cfg.banner = none) (st : St) :
    exec env ciscoCheckBanner st = st := by
  simp only [ciscoCheckBanner, exec, h]
  split <;> rfl

theorem linuxCheckBanner_skip (env : Env) (h : env.cfg.banner = none) (st : St) :
    exec env (linuxCheckBanner env.cfg) st = st := by
  simp only [linuxCheckBanner, exec, h, Option.isNone_none, if_true]
  split <;> rfl

theorem cisco_errU_nil (env : Env) (h : env.cfg.banner = none) (post gc : Prog)
    (hpost : noRecord post = true) (hgc : noRecord gc = true) :
    (exec env gc (exec env (ciscoPreLogin ;; .call "LoginEnable" ciscoLoginEnable ;; post) {})).errU = [] := by
  simp only [ciscoLoginEnable, exec_seq, exec_call]
  rw [exec_errU env gc hgc, exec_errU env post hpost, ciscoCheckBanner_skip env h,
    exec_errU env _ noRecord_ciscoLoginPre, exec_errU env _ noRecord_ciscoPreLogin]

/-- **Marker not configured**: with no `checkbanner` the banner check is skipped and approve goes
on into `applyCommands` exactly as if there were no gate — for every device behaviour
(PAN-OS has no configurable marker and is not part of this statement). -/
theorem marker_unconfigured_proceeds (b : Backend) (hb : b ≠ .panos) (env : Env)
    (h : env.cfg.banner = none) :
    exec env (approveP b env.cfg) {} =
      exec env (applyCommandsP (backendApply b env.cfg))
        (exec env (backendGetChanges b) (exec env (backendLoad b env.cfg) {})) := by
  unfold approveP
  rw [approveWith_exec]
  congr 1
  cases b with
  | asa => exact exec_gate_open env _ _ (cisco_errU_nil env h _ _ noRecord_asaPost noRecord_ciscoGetChanges)
  | ios => exact exec_gate_open env _ _ (cisco_errU_nil env h _ _ noRecord_iosPost noRecord_ciscoGetChanges)
  | linux => simp [consults, exec]
  | panos => exact absurd rfl hb
  | nsx => simp [consults, exec]

/-- … and on Linux the recorded list stays empty, so this does not depend on the missing gate. -/
theorem marker_unconfigured_linux_clean (env : Env) (h : env.cfg.banner = none) :
    (exec env linuxGetChanges (exec env (linuxLoadDevice env.cfg) {})).errU = [] := by
  simp only [linuxLoadDevice, linuxLoadDeviceWith, exec_seq, exec_call]
  rw [exec_errU env _ noRecord_linuxGetChanges, exec_errU env _ noRecord_linuxPost,
    linuxCheckBanner_skip env h, exec_errU env _ noRecord_linuxPre]

/-- A co-operative ASA with one pending change, no `checkbanner`: the change and the save are sent,
exit status 0 (non-vacuity of `marker_unconfigured_proceeds`). -/
def asaFriendlyDev : Dev := fun _ o =>
  match o with
  | .wait => .text "password: "
  | .pass => .text "\r\nrouter# "
  | .lit "show hostname" => .text "router\n"
  | .lit "sh pager" => .text "no pager\n"
  | .lit "sh term" => .text "Width = 511\n"
  | .lit "write memory" => .text "[OK]\n"
  | _ => .text ""

example :
    let f := runMain .asa { cfg := {}, dev := asaFriendlyDev, plan := ["route inside 10.0.0.0 255.0.0.0 10.1.2.3"] }
    f.exit = 0 ∧ .plan "route inside 10.0.0.0 255.0.0.0 10.1.2.3" ∈ f.trace ∧ .lit "write memory" ∈ f.trace := by
  decide

/-- The same device with the marker configured but absent: refused (non-vacuity of
`missing_marker_no_change_partial`; the hypothesis holds because the regexp matches nothing). -/
example : MarkerAbsent .asa { banner := some (fun _ => false) } asaFriendlyDev :=
  ⟨_, rfl, fun _ _ => rfl⟩

/-- The unchanged tree (before the `fix:` commit): `cfg.CheckBanner.String()` with
`checkbanner` unset is a nil dereference — exit status 2, no ERROR line, instead of a normal
approve (F-C06b). -/
theorem marker_unconfigured_unfixed_counterexample :
    ∃ env : Env, env.cfg.banner = none ∧
      (closeStep (closeOut .linux) (exec env
        (approveWith (linuxLoadDeviceWith (linuxCheckBannerUnfixed env.cfg)) linuxGetChanges
          (consults .linux) linuxApply) {})).exit = 2 :=
  ⟨{ linuxUnmarkedEnv with cfg := {} }, rfl, by decide⟩

/-! ### the tie: skeletons regenerated from the Go source -/

/-- Every function of the model has exactly the skeleton that `translate/gateskel` extracts from
the Go source now: order of the calls in approve/compare, the gate before applyCommands, every
request with its literal argument, every guard with its condition text, every Abort. -/
theorem skeleton_matches :
    modelSkeletons.all (fun e => NA.Gen.GateSkel.functions.lookup e.1 == some e.2) = true := by
  decide

/-- drc: `-C` is the only source of `isCompare`, which is the first argument of
ApproveOrCompare; two arguments go to CompareFiles.  do-approve: `isCompare := action == "compare"`. -/
theorem front_ends_match :
    frontEndFacts.all (fun e =>
      (NA.Gen.GateSkel.functions.lookup e.1).map (fun l => l.filter isFrontEndItem) == some e.2) = true := by
  decide

/-- Which field each `GetErrUnmanaged` of the module returns — the model's `consults`. -/
theorem gate_impls :
    NA.Gen.GateSkel.gateImpls =
      [("cisco.(*State).GetErrUnmanaged", "s.errUnmanaged"), ("linux.(*State).GetErrUnmanaged", "nil"),
       ("nsx.(*State).GetErrUnmanaged", "nil"), ("panos.(*State).GetErrUnmanaged", "s.errUnmanaged")] := by
  decide

/-- `errUnmanaged` is written at exactly the three places the model has a `record` node. -/
theorem errUnmanaged_writes :
    NA.Gen.GateSkel.errUnmanagedWrites.map (·.1) =
      ["cisco.(*State).checkBanner", "linux.(*State).checkBanner", "panos.(*State).checkUnmanaged"] := by
  decide

/-- Both front ends reach the run the theorems above talk about: `drc FILE` without `-C` and
`do-approve approve DEVICE` are `runMain` with `isCompare = false` (the dispatch tables these
functions use are tied to the source by `front_ends_match`). -/
theorem front_ends_run_approve (b : Backend) (cfg : Cfg) (flags : List String) (dev : Dev) (plan : List String) :
    (drcIsCompare flags = false →
      runDrc b cfg dev plan flags 1 = runMain b ⟨{ cfg with isCompare := false }, dev, plan⟩) ∧
    runDoApprove b cfg dev plan "approve" = runMain b ⟨{ cfg with isCompare := false }, dev, plan⟩ := by
  refine ⟨?_, ?_⟩
  · intro h; simp [runDrc, h]
  · simp [runDoApprove, doApproveCases, List.lookup, doApproveCompareWord]

def obligations : List Lean.Name := [
  ``front_ends_run_approve,
  ``wrong_hostname_no_change, ``missing_marker_no_change_partial,
  ``missing_marker_no_change_counterexample, ``linux_gate_would_hold, ``ha_passive_no_change,
  ``marker_unconfigured_proceeds, ``marker_unconfigured_linux_clean,
  ``marker_unconfigured_unfixed_counterexample,
  ``skeleton_matches, ``front_ends_match, ``gate_impls, ``errUnmanaged_writes]

end NA.C06
