import NA.Props.C15Wide
import NA.Model.IosLogin
/-!
# C15, several banners in ONE answer; the login / enable dialogue; `sh run`

`stripReloadBanner` removes the FIRST banner of an answer only (`FindStringSubmatchIndex`, no loop).
The theorems of `NA/Props/C15.lean` speak of answers with one banner (`Behav`: one `Form`).  Here:
answers with two banners, as scripted answers (`special`) of `simDevice`.

* `several_banners_counterexample` — the second banner is left in the output (or, with fresh
  prompts, in the expect buffer): the run ABORTS (`unexpected output` / `unexpected echo`) although the
  banner-free run succeeds, and a `SHUTDOWN in 0:01:00` among the two is not re-armed.  This
  contradicts the last sentence of C15 ("… survive its banners").  The guard theorems
  (`guard_brackets_changes`, `cancel_on_failure`, … — they hold for EVERY device) still apply:
  `end`, `reload cancel` are sent, nothing is written (finding F-C15g, known).
* `sh_run_cut_at_fresh_prompt` — while `sh run` prints the configuration no reload of THIS session is
  scheduled; a banner of somebody else's reload followed by a fresh prompt ends `GetCmdOutput("sh run")`
  at that prompt: the session sees a PREFIX of the configuration (and the banner lines), no abort (finding F-C15h, known);
  without a fresh prompt the banner text is part of the returned text (the parser skips the lines).
* `login_*` — the login / enable dialogue of `LoginEnable` on the dialogues of the scripted devices:
  it hands `\nrouter` + `\S*` + `#` to `SetStdPrompt` (the prompt the rest of the model uses), sends the
  password once (twice with an enable password, and only when asked for it), fails closed.
-/
namespace NA.Ios

def m2 : Str := lit " --- SHUTDOWN in 0:02:00 ---"
def m1 : Str := lit " --- SHUTDOWN in 0:01:00 ---"
def l1 : Str := lit "ip route 10.1.0.0 255.255.0.0 10.9.1.1"

/-- two banners behind the echo, no fresh prompt (shape DD of the harness) -/
def replyDD (a b : Str) : Str := l1 ++ bannerText a ++ bannerText b ++ ['\n'] ++ prompt
/-- one banner with a fresh prompt before the echo, one behind it (shape AD) -/
def replyAD (a b : Str) : Str := bannerText a ++ ['\n'] ++ prompt ++ l1 ++ bannerText b ++ ['\n'] ++ prompt
/-- two banners with fresh prompts before the echo (shape AA) -/
def replyAA (a b : Str) : Str :=
  bannerText a ++ ['\n'] ++ prompt ++ bannerText b ++ ['\n'] ++ prompt ++ l1 ++ ['\n'] ++ prompt

def runWith (r : Str) : Res Unit × St SimSt :=
  applyCommands (simDevice [(l1, [[r]])] false) true [l1] { dev := { queue := [{}] } }

/-- **several_banners_counterexample** (F-C15g). -/
theorem several_banners_counterexample :
    (applyCommands (simDevice [] false) true [l1] { dev := { queue := [{}] } }).1 = .ok () ∧
    -- 2:00 then 1:00 behind the echo: the second banner is taken for output of the command,
    -- the one-minute warning is not re-armed; fail-safe: nothing written, the reload is cancelled
    ((runWith (replyDD m2 m1)).1 = .abort (.unexpectedOutput l1 ((bannerText m1).drop 1 ++ ['\n'])) ∧
     rearms (linesOf (runWith (replyDD m2 m1)).2.trace) = 0 ∧
     writeCmd ∉ linesOf (runWith (replyDD m2 m1)).2.trace ∧
     pendingAfter (linesOf (runWith (replyDD m2 m1)).2.trace) = false) ∧
    -- before the echo (fresh prompt) and behind it
    (runWith (replyAD m2 m1)).1 = .abort (.unexpectedOutput l1 ((bannerText m1).drop 1 ++ ['\n'])) ∧
    -- two banners with fresh prompts before the echo: a stale prompt is read as the answer
    (runWith (replyAA m2 m1)).1 = .abort (.unexpectedEcho l1 (bannerText m1 ++ ['\n'])) := by
  refine ⟨?_, ?_, ?_, ?_⟩ <;> decide +kernel

/-! ## `sh run` -/

def shRun : Str := lit "sh run"
def cfgA : Str := lit "ip route 10.7.0.0 255.255.0.0 10.7.7.7\n"
def cfgB : Str := lit "ip route 10.2.0.0 255.255.0.0 10.8.2.1\n"

/-- **sh_run_cut_at_fresh_prompt** (F-C15h). The device prints `cfgA`, a reload banner with a fresh
prompt (logging synchronous), then `cfgB`: `GetCmdOutput("sh run")` returns `cfgA` and the banner only — no abort —
and the rest stays in the expect buffer.  Without the fresh prompt the whole text is returned (the
banner lines included). -/
theorem sh_run_cut_at_fresh_prompt :
    let cut := shRun ++ ['\n'] ++ (cfgA.dropLast ++ bannerText m2 ++ ['\n'] ++ prompt ++ cfgB ++ prompt)
    let plain := shRun ++ ['\n'] ++ (cfgA.dropLast ++ bannerText m2 ++ cfgB ++ prompt)
    let o := getCmdOutput (simDevice [(shRun, [[cut]])] false) shRun {dev := {}}
    let o' := getCmdOutput (simDevice [(shRun, [[plain]])] false) shRun {dev := {}}
    o.1 = .ok (cfgA.dropLast ++ bannerText m2 ++ ['\n']) ∧ o.2.pend = cfgB ++ prompt ∧
    o'.1 = .ok (cfgA.dropLast ++ bannerText m2 ++ cfgB) ∧ o'.2.pend = [] := by
  decide +kernel

/-! ## the login / enable dialogue -/

/-- a device that answers the n-th line it receives with the n-th scripted text -/
def scriptDev (rs : List Str) : Device Nat where
  step n _ := (n + 1, rs.getD n [])

def pw : Str := lit "secret"

/-- the dialogue of the scripted device of the harness: password, enable mode at once -/
theorem login_direct :
    let o := loginEnable (scriptDev [lit "\nbanner motd  managed by NetSPoC\nrouter#", lit "\nrouter#"]) pw
               { dev := 0, pend := lit "Enter Password:" }
    o.1 = .ok { head := lit "\nrouter", tail := lit "#",
                banner := lit "Enter Password:\nbanner motd  managed by NetSPoC\nrouter#" } ∧
    o.2.trace = [pw, []] ∧ o.2.pend = [] ∧ promptHead = lit "\nrouter" := by
  decide +kernel

/-- host key question, user mode, `enable` asks for a password: it is sent a second time -/
theorem login_enable_password :
    let o := loginEnable (scriptDev [lit "\nPassword: ", lit "\nrouter>", lit "enable\nPassword: ", lit "\nrouter# ", lit "\nrouter# "]) pw
               { dev := 0, pend := lit "Are you sure you want to continue connecting (yes/no/[fingerprint])?" }
    (∃ b, o.1 = .ok { head := lit "\nrouter", tail := lit "# ", banner := b }) ∧
    o.2.trace = [lit "yes", pw, lit "enable", pw, []] := by
  refine ⟨⟨lit "\nPassword: \nrouter>enable\nPassword: \nrouter# ", ?_⟩, ?_⟩ <;> decide +kernel

/-- `enable` is refused without a password question: the password is NOT sent again; wrong password:
failure; both without any further command -/
theorem login_fails_closed :
    let o := loginEnable (scriptDev [lit "\nrouter>", lit "enable\n% Access denied\nrouter>"]) pw
               { dev := 0, pend := lit "Password:" }
    let o' := loginEnable (scriptDev [lit "\nPassword:", lit "\nPassword:"]) pw { dev := 0, pend := lit "password:" }
    o.1 = .abort (.loginFailed true) ∧ o.2.trace = [pw, lit "enable"] ∧
    o'.1 = .abort (.loginFailed false) ∧ o'.2.trace = [pw] := by
  decide +kernel

end NA.Ios

namespace NA.C15Multi
def obligations : List Lean.Name :=
  [``NA.Ios.several_banners_counterexample, ``NA.Ios.sh_run_cut_at_fresh_prompt,
   ``NA.Ios.login_direct, ``NA.Ios.login_enable_password, ``NA.Ios.login_fails_closed]
end NA.C15Multi
