import NA.Proofs.C14
import NA.Proofs.C14Routes
import NA.Props.AsaSafe
import NA.Props.IosSafe
/-!
# C14 — incremental ACL and route changes are safe at every intermediate step

`M` is the merged list of an arbitrary edit script between the device ACL `olds M` and the
target `news M`; `eval` is first-match evaluation with implicit deny; packets are arbitrary
naturals (bit positions of the lines' match sets).

* `verdict_old_or_new_adding` / `_deleting`: while lines are added top-down and while lines are
  deleted bottom-up (the two phases of `diffASAACLs` / `diffIOSACLs`), every packet gets the old
  or the new verdict — stronger than the property.  `steps_safe_adding` / `_deleting`: the property.
* `move_safe_down` / `move_safe_up` / `log_change_safe`: a line moved (one joined command) across
  lines it commutes with, or replaced by a line that differs only in logging, leaves every verdict
  as it is.
* `steps_safe_counterexample`: the property as stated is **false** for the planner: a line moved
  downward across an overlapping line of the opposite action that is deleted later (F-C14).
* `asa_steps_safe_partial` (NA.Props.AsaSafe): for the model of `diffASAACLs` itself, every state of the
  executed plan keeps the verdict of every packet on which old and new agree, provided no downward move
  crosses a still-present old line it does not commute with (`NoCross`); `asa_steps_safe_needs_noCross`
  shows the hypothesis is necessary; without moves no hypothesis is needed (`asa_steps_safe_no_moves`).
* `ios_steps_safe_partial` etc. (NA.Props.IosSafe): the same for the model of `diffIOSACLs` on the strict
  numbered-entry device (`ios_steps_old_or_final` for all ACLs, relative to the target for remark-free ACLs);
  `ios_no_common_line_unsafe` is the kernel-evaluated witness of finding F-C14b.
* `routes_covered`: GENERIC lemma — for scripts of the emitted shape (adds and same-destination replacements,
  then deletes, reaching the target) every destination covered before and after is covered after every step.
  It is applied to the engines' own route plans, with its three hypotheses proved, in `NA.Props.F2`
  (`ios_routes_covered_every_step`) and `NA.Props.F1`; the driver checks the shape on the real scripts.
-/
namespace NA.Acl

theorem verdict_old_or_new_adding (M : List Cell) (j p : Nat) :
    eval (addPhase M j) p = eval (olds M) p ∨ eval (addPhase M j) p = eval (news M) p :=
  addPhase_old_or_new M j p

theorem verdict_old_or_new_deleting (M : List Cell) (i p : Nat) :
    eval (delPhase M i) p = eval (olds M) p ∨ eval (delPhase M i) p = eval (news M) p :=
  delPhase_old_or_new M i p

/-- The property for the adding phase: where old and new agree, every intermediate state agrees. -/
theorem steps_safe_adding (M : List Cell) (j p : Nat) (h : eval (olds M) p = eval (news M) p) :
    eval (addPhase M j) p = eval (olds M) p := by
  rcases addPhase_old_or_new M j p with h1 | h1
  · exact h1
  · rw [h1, h]

theorem steps_safe_deleting (M : List Cell) (i p : Nat) (h : eval (olds M) p = eval (news M) p) :
    eval (delPhase M i) p = eval (olds M) p := by
  rcases delPhase_old_or_new M i p with h1 | h1
  · exact h1
  · rw [h1, h]

/-- The phases start at the device ACL, meet in the union, and end at the target. -/
theorem phases_endpoints (M : List Cell) :
    addPhase M 0 = olds M ∧ addPhase M M.length = delPhase M M.length ∧ delPhase M 0 = news M :=
  ⟨addPhase_zero M, addPhase_all_eq_delPhase_all M, delPhase_zero M⟩

theorem move_safe_down (s1 mid s2 : List Line) (x : Line) (p : Nat)
    (h : ∀ y ∈ mid, commutes x y p = true) :
    eval (s1 ++ mid ++ x :: s2) p = eval (s1 ++ x :: mid ++ s2) p := eval_move_down s1 mid s2 x p h

theorem move_safe_up (s1 mid s2 : List Line) (x : Line) (p : Nat)
    (h : ∀ y ∈ mid, commutes x y p = true) :
    eval (s1 ++ x :: mid ++ s2) p = eval (s1 ++ mid ++ x :: s2) p := eval_move_up s1 mid s2 x p h

theorem log_change_safe (s1 s2 : List Line) (x y : Line) (p : Nat)
    (hh : x.hits p = y.hits p) (hp : x.permit = y.permit) :
    eval (s1 ++ x :: s2) p = eval (s1 ++ y :: s2) p := eval_replace_same s1 s2 x y p hh hp

/-! The counterexample: device `[permit A, deny B, permit C]`, target `[permit C, permit A]`, where
`B ⊂ A` overlap on packet 0.  The planner (model of the code; tied by correspondence) moves
`permit A` below `deny B` first and deletes `deny B` last. -/
def cexA : Line := { key := 1, mkey := 1, permit := true, mask := 3 }
def cexB : Line := { key := 2, mkey := 2, permit := false, mask := 1 }
def cexC : Line := { key := 3, mkey := 3, permit := true, mask := 4 }
def cexM : List Cell :=
  [⟨cexA, true, false⟩, ⟨cexB, true, false⟩, ⟨cexC, true, true⟩, ⟨cexA, false, true⟩]

theorem steps_safe_counterexample :
    normalised cexM = true ∧
    ∃ ss, asaTrace (olds cexM) (planASA cexM) = some ss ∧ ss.getLast? = some (news cexM) ∧
      ∃ s ∈ ss, ∃ p, eval (olds cexM) p = eval (news cexM) p ∧ eval s p ≠ eval (olds cexM) p := by
  refine ⟨by decide, [[cexB, cexC, cexA], [cexC, cexA]], by decide, by decide,
    [cexB, cexC, cexA], by simp, 0, by decide, by decide⟩

/-- … and the same for the IOS planner. -/
theorem steps_safe_counterexample_ios :
    ∃ ss, iosTrace (iosReseq ((olds cexM).map fun l => (0, l)) 10000 10000) (planIOS cexM) = some ss ∧
      ∃ s ∈ ss, ∃ p, eval (olds cexM) p = eval (news cexM) p ∧ eval (iosLines s) p ≠ eval (olds cexM) p := by
  refine ⟨[[(20000, cexB), (30000, cexC), (30001, cexA)], [(30000, cexC), (30001, cexA)]], by decide,
    [(20000, cexB), (30000, cexC), (30001, cexA)], by simp, 0, by decide, by decide⟩

/-- Non-vacuity: a merged list with adds, deletes and an overlap where old and new agree. -/
example : eval (olds cexM) 0 = eval (news cexM) 0 ∧ eval (addPhase cexM 4) 0 = eval (olds cexM) 0 := by decide

end NA.Acl

namespace NA.Route

/-- Route coverage: a script of the emitted shape (adds and same-destination replacements, each
replacement sent as one line; then deletions of routes that the target does not contain), executed
on a table that afterwards contains the whole target, keeps every destination covered that is
covered before and after. -/
theorem routes_covered (old new : List Route) (opsA opsB : List ROp) (v d : Nat)
    (hA : phaseA opsA = true) (hB : phaseB new opsB = true)
    (hall : ∀ r ∈ new, r ∈ opsA.foldl rexec1 old)
    (hold : covered old v d = true) (hnew : covered new v d = true) :
    ∀ t ∈ rtrace old opsA ++ rtrace (opsA.foldl rexec1 old) opsB, covered t v d = true := by
  intro t ht
  rcases List.mem_append.mp ht with ht | ht
  · exact phaseA_trace old opsA v d hA hold t ht
  · exact covered_of_subset new t v d (phaseB_trace new _ opsB hB hall t ht) hnew

example : phaseA [.repl ⟨0, 0, 1⟩ ⟨0, 0, 2⟩, .add ⟨0, 5, 2⟩] = true ∧ phaseB [⟨0, 0, 2⟩, ⟨0, 5, 2⟩] [.del ⟨0, 7, 1⟩] = true := by
  decide

end NA.Route

namespace NA.C14
def obligations : List Lean.Name := [
  ``NA.Acl.verdict_old_or_new_adding, ``NA.Acl.verdict_old_or_new_deleting,
  ``NA.Acl.steps_safe_adding, ``NA.Acl.steps_safe_deleting, ``NA.Acl.phases_endpoints,
  ``NA.Acl.move_safe_down, ``NA.Acl.move_safe_up, ``NA.Acl.log_change_safe,
  ``NA.Acl.steps_safe_counterexample, ``NA.Acl.steps_safe_counterexample_ios,
  ``NA.Route.routes_covered,
  ``NA.Acl.asa_steps_old_or_new, ``NA.Acl.asa_steps_safe_partial, ``NA.Acl.asa_steps_old_or_new_no_moves,
  ``NA.Acl.asa_steps_safe_no_moves, ``NA.Acl.asa_steps_safe_needs_noCross,
  ``NA.IosSafe.ios_steps_old_or_final, ``NA.IosSafe.ios_steps_safe_partial,
  ``NA.IosSafe.ios_steps_safe_no_suppression_partial, ``NA.IosSafe.ios_steps_safe_no_moves,
  ``NA.IosSafe.ios_steps_safe_needs_noCross, ``NA.IosSafe.ios_no_common_line_unsafe]
end NA.C14
