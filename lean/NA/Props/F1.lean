import NA.Proofs.F1Names
import NA.Proofs.F1Lines
import NA.Proofs.F1Equalize
import NA.Proofs.F1Converge
import NA.Proofs.F1EndToEnd
import NA.Proofs.F1K2
import NA.Proofs.F1Idem
import NA.Proofs.F1RouteSafe
import NA.Proofs.F1Mode
import NA.Proofs.F1GroupSafe
/-!
# F1 — the ASA diff engine on the fragment {access-group, access-list + object-group network, route}

Model: `NA/Model/AsaEngine.lean` (`NA.F1.engine`), tied to `cisco/diff.go` by comparing its printed
script with the real `drc` line by line on every generated pair (harness/f1).  Specification side:
`NA/Spec/AsaDev.lean` (strict device).  All theorems are for ALL inputs (no bounds, no samples).

* `names_fresh` — `generateNamesForTransfer`: the generated name is not on the device; different target
  names get different generated names (unconditionally); the index is the first free one.
* `findGroup_sound` — a group adopted by `findGroupOnDevice` is a device group, was not `needed`, and has
  the same members as the target group.
* `group_equalize_converges` — the member commands of the in-place edit of `equalizedGroups`, executed
  strictly, leave exactly the target's member set; `group_edit_only_if_small` / `group_needed_never_edited`:
  the edit happens only if `ins+del ≤ |lb|` and never on a group that is already `needed`;
  `group_edit_emits_memOps`: what the model emits there is that member script.
* `asa_lines_with_groups_converge` — `diffASAACLs` with group references reduces to `planASA` on the merged
  list in which a kept pair with a changed reference is (new-only, old-only); `merged_list_projects`: that
  list contains every device line and every target line exactly once, in order.
* `objects_before_use` — in the script of the whole engine every object-group is created before the first
  line that uses it, nothing is removed before `deleteUnused`, `deleteUnused` adds no line;
  `tail_acl_before_group`: an access list is cleared before a group it references is removed.
* `idempotent_counterexample` — F-C01b, evaluated by the kernel on the model and the strict device.
* Round 3 (section 8): `asa_F1_converges`, `asa_F1_unchanged_only_if_equivalent`, `asa_F1_resume_partial` for class K2
  (`k2Check`: several access-group commands, all branches of the access-list comparison, shared groups, routes,
  `deleteUnused`), `asa_F1_iso_quiet` and `asa_F1_idempotent_partial` for the static class ISO (`isoCheck`).
-/
namespace NA.F1
open NA.AsaDev
open NA.Acl (Range)

/-! ## 1. Generated names -/

theorem names_fresh (base : Name) (dev : List Name) :
    genName base dev ∉ dev ∧ isTagged (genName base dev) = true ∧
    (∀ k, k < firstFree base (dev.length + 1) dev 0 → drcName base k ∈ dev) :=
  ⟨genName_fresh base dev, genName_tagged base dev, genName_least base dev⟩

theorem names_injective {b₁ b₂ : Name} {d₁ d₂ : List Name} (h : genName b₁ d₁ = genName b₂ d₂) : b₁ = b₂ :=
  genName_injective h

example : genName "g0" ["g0-DRC-0", "x", "g0-DRC-1"] = "g0-DRC-2" := by decide
example : genName "g0-DRC-0" ["g0-DRC-0"] = "g0-DRC-0-DRC-0" := by decide

/-! ## 2. `findGroupOnDevice` -/

theorem findGroup_sound (e : Env) (st : St) (bN : Name) : FindResult e st (findGroup e st bN) bN :=
  findGroup_result e st bN

/-- The device's groups are tried in ascending name order and the first match wins. -/
theorem findGroup_first {names needed : List Name} {mA : Name → List String} {mb : List String} {aN : Name}
    (h : findGroupIn names needed mA mb = some aN) :
    aN ∈ names ∧ aN ∉ needed ∧ mA aN = mb := findGroupIn_sound h

/-! ## 3. In-place edit of a group -/

theorem group_equalize_converges (la lb cur : List String) (rs : List Range) (hv : scriptOK la lb rs 0 0 = true)
    (hna : la.Nodup) (hnb : lb.Nodup) (hcur : cur.Perm la) (hdisj : ∀ m ∈ inssOf lb rs, m ∉ delsOf la rs) :
    ∃ l', applyMem cur (memOps la lb rs) = some l' ∧ l'.Perm lb :=
  memOps_converge la lb cur rs hv hna hnb hcur hdisj

theorem group_edit_emits_memOps (aN : Name) (la lb : List String) (rs : List Range) (st : St) :
    (editMembers st aN la lb rs).out.filterMap chgMem = st.out.filterMap chgMem ++ memOps la lb rs :=
  editMembers_mem aN la lb rs st

theorem group_needed_never_edited (e : Env) (st : St) (aN bN : Name) (h : st.gNeeded.contains aN = true) :
    (equalizedGroups e st aN bN).1.out = st.out := equalize_needed_never_edited e st aN bN h

theorem group_edit_only_if_small (e : Env) (st : St) (aN bN : Name)
    (h : (equalizedGroups e st aN bN).1.out ≠ st.out) :
    st.gNeeded.contains aN = false ∧
    (scriptStat (lookupD e.sc.grp (aN, bN))).1 + (scriptStat (lookupD e.sc.grp (aN, bN))).2 ≤ (e.bMembers bN).length ∧
    aN ∈ (equalizedGroups e st aN bN).1.gNeeded ∧ bN ∈ (equalizedGroups e st aN bN).1.gReady ∧
    (equalizedGroups e st aN bN).1.gNameOf bN = aN ∧ (equalizedGroups e st aN bN).2 = true :=
  equalize_edit_only_if_small e st aN bN h

/-- Non-vacuity: device group {1,2,4}, target {1,3,4}: delete 2, insert 3. -/
example : scriptOK ["h1", "h2", "h4"] ["h1", "h3", "h4"] [⟨0, 1, 0, 1⟩, ⟨1, 2, 1, 1⟩, ⟨2, 2, 1, 2⟩, ⟨2, 3, 2, 3⟩] 0 0 = true := by decide
example : applyMem ["h4", "h1", "h2"] (memOps ["h1", "h2", "h4"] ["h1", "h3", "h4"]
    [⟨0, 1, 0, 1⟩, ⟨1, 2, 1, 1⟩, ⟨2, 2, 1, 2⟩, ⟨2, 3, 2, 3⟩]) = some ["h4", "h1", "h3"] := by decide
/-- The hypothesis "no member is both deleted and inserted" is needed: a (non-optimal) script that inserts
`h1` before deleting it is refused by the strict device. -/
example : applyMem ["h1"] (memOps ["h1"] ["h1"] [⟨0, 0, 0, 1⟩, ⟨0, 1, 1, 1⟩]) = none := by decide

/-! ## 4. Lines with groups -/

theorem asa_lines_with_groups_converge (cells : List MCell) (mkeys : List String)
    (hlen : mkeys.length = cells.length)
    (hold : DistinctOn cells mkeys cellOld) (hnew : DistinctOn cells mkeys cellNew) :
    NA.Acl.asaExec (NA.Acl.olds (encodeCells cells mkeys)) (NA.Acl.planASA (encodeCells cells mkeys))
      = some (NA.Acl.news (encodeCells cells mkeys)) :=
  lines_with_groups_converge cells mkeys hlen hold hnew

theorem merged_list_projects (e : Env) (al bl : List Line) (rs : List Range) (st : St)
    (h : scriptOK (al.map (·.body)) (bl.map (·.body)) rs 0 0 = true) :
    (cellsPhase e al bl rs st []).2.filterMap cellA = List.range' 0 al.length ∧
    (cellsPhase e al bl rs st []).2.filterMap cellB = List.range' 0 bl.length := by
  have := cellsPhase_proj e al bl rs 0 0 st [] h
  simpa using this

/-- Non-vacuity: a kept pair whose group changed (cell 0/1) and an unchanged pair. -/
example : NA.Acl.planASA (encodeCells [.ins 0, .del 0, .keep 1 1] ["x gNew", "x gOld", "y"]) =
    [.add 0 ⟨0, 0, true, false, 0⟩, .del 1 ⟨1, 1, true, false, 0⟩] := by decide

/-! ## 5. Order of creation, use and removal in the whole script (C08) -/

theorem objects_before_use (a b : Config) (sc : Scripts) (r : Result) (hA : RefsClosedA ⟨a, b, sc⟩)
    (h : engine a b sc = some r) :
    ∃ body tail, r.script = body ++ tail ∧ createdBeforeUse (a.groups.map (·.1)) r.script = true ∧
      (∀ c ∈ body, removesObject c = false) ∧ (∀ c ∈ tail, TailCmd c) :=
  engine_order a b sc r hA h

theorem tail_acl_before_group (e : Env) (st : St) (managed : List Nat) :
    ∃ cs, (deleteUnused e st managed).out = st.out ++ cs ∧ cs.Pairwise (TailRel e) :=
  deleteUnused_order e st managed

/-! ## 6. Convergence on the strict device (`NA.AsaDev`), as far as it is proved

`Sem e st d` (NA/Proofs/F1Sem.lean) relates the engine's marks to the device: original groups still exist,
a group that is not `needed` has its original members, a `ready` target group carries the name of an
existing device group with the target's members that nothing edits any more (`Frozen`), a target group
that is not `ready` carries its generated name, which does not exist yet.
`GStep`/`LStep`: the appended commands are accepted by the strict device (`exec d cs = some d'`), `Sem`
holds afterwards, frozen groups keep their members, other access lists, bindings, routes are unchanged. -/

/-- `Sem` holds when `diffConfig` starts. -/
theorem sem_initial (a b : Config) (sc : Scripts) (st : St) (managed : List Nat)
    (h : checkInterfaces ⟨a, b, sc⟩ {} = some (st, managed)) :
    Sem ⟨a, b, sc⟩ (generateNames ⟨a, b, sc⟩ st) (ofConfig a) := sem_init a b sc st managed h

/-- `group_equalize_converges` on the strict device: the commands of the in-place edit (with the `exit` /
`object-group` lines around them) are accepted; afterwards the device group holds exactly the target's
members; all other groups, access lists, bindings and routes are unchanged. -/
theorem group_equalize_converges_dev (st : St) (d : Dev) (aN : Name) (la lb : List String) (rs : List Range)
    (hn : aN ≠ "") (hm : ModeRel st d) (hg : hasGroup d aN = true)
    (hv : scriptOK la lb rs 0 0 = true) (hna : la.Nodup) (hnb : lb.Nodup) (hcur : (membersOf d aN).Perm la)
    (hdisj : ∀ m ∈ inssOf lb rs, m ∉ delsOf la rs) :
    ∃ cs d', (editMembers st aN la lb rs).out = st.out ++ cs ∧ exec d cs = some d' ∧
      ModeRel (editMembers st aN la lb rs) d' ∧ (membersOf d' aN).Perm lb ∧ OnlyGroup d d' aN :=
  editMembers_converges st d aN la lb rs hn hm hg hv hna hnb hcur hdisj

/-- `equalizedGroups` (all branches) preserves `Sem`; if it answers `true`, the target group is `ready`
under the device group's name (hence that group has the target's members and is frozen). -/
theorem equalizedGroups_sound (e : Env) (hw : WF e) (st : St) (d : Dev) (h : Sem e st d) (aN bN : Name)
    (ha : aN ∈ D0 e) (hb : bN ∈ BNames e) :
    ∃ d', GStep e st d (equalizedGroups e st aN bN).1 d' ∧
      ((equalizedGroups e st aN bN).2 = true →
        bN ∈ (equalizedGroups e st aN bN).1.gReady ∧ (equalizedGroups e st aN bN).1.gNameOf bN = aN) :=
  equalizedGroups_gstep e hw st d h aN bN ha hb

/-- Transfer of a whole group (`addCmds`): accepted, `Sem` preserved, the group is `ready` afterwards. -/
theorem transferGroup_sound (e : Env) (hw : WF e) (st : St) (d : Dev) (h : Sem e st d) (bN : Name) (hb : bN ∈ BNames e) :
    ∃ d', GStep e st d (transferGroup e st bN) d' ∧ bN ∈ (transferGroup e st bN).gReady ∧
      (transferGroup e st bN).gName = st.gName := transferGroup_gstep e hw st d h bN hb

/-- **`asa_acl_pair_converges`** — `diffASAACLs` for one pair (device ACL `aN`, target ACL `bN`), from ANY engine
state satisfying `Sem` (arbitrary sharing of groups with lines and access lists handled before): every
emitted command is accepted by the strict device (referenced groups exist, no duplicate entry, every
`line N` hits the intended line, member commands inside their sub-mode); afterwards the device ACL has the
target's length and position by position the target's text up to group names, every referenced group
existing with exactly the target group's members and frozen.  `_partial`: the decidable hypothesis
`planCheck … = "hyp:ok"` (some kept line keeps its references — complement of F-C08a; printed texts
modulo log pairwise different per side) is evaluated and counted by the driver on every generated run. -/
theorem asa_acl_pair_converges_partial (e : Env) (hw : WF e) (hA : RefsClosedA e) (hB : RefsClosedB e) (st : St) (d : Dev)
    (h : Sem e st d) (aN bN : Name) (rs : List Range)
    (hal : linesOf d aN = (e.aLines aN).map resolveA)
    (hscript : scriptOK ((e.aLines aN).map (·.body)) ((e.bLines bN).map (·.body)) rs 0 0 = true)
    (hcheck : planCheck e st aN bN rs = "hyp:ok")
    (hlenA : RefsMatchBody (e.aLines aN)) (hlenB : RefsMatchBody (e.bLines bN)) :
    ∃ d', LStep e st d (diffASAACLs e st aN bN rs) d' aN ∧
      (linesOf d' aN).length = (e.bLines bN).length ∧
      ∀ p ∈ (linesOf d' aN).zip (e.bLines bN), LineOK e (diffASAACLs e st aN bN rs) d' p.1 p.2 :=
  acl_pair_converges_checked e hw hA hB st d h aN bN rs hal hscript hcheck hlenA hlenB

/-- **`asa_F1_converges_partial`** — END TO END for the class K1: device and target bind one access list at the
same (direction, interface); no routes on either side; the passed script of the pair keeps a line
(incremental update); all static well-formedness conditions and the counted run hypothesis hold — one
decidable predicate `k1Check a b sc`, evaluated by the driver on every generated case.
Then the WHOLE script printed by the engine — group edits and transfers, line operations with moves,
and the clean-up of `deleteUnused` (`exit`, `clear configure access-list`, `no object-group`) — is
accepted by the strict device started on the device configuration; bindings and routes are unchanged;
the bound access list has the target's length and, position by position, the target's text up to group
names, every referenced group existing with exactly the target group's members. -/
theorem asa_F1_converges_partial (a b : Config) (sc : Scripts) (hc : k1Check a b sc = true) :
    ∃ aAcl bAcl script d', a.binds.map (·.acl) = [aAcl] ∧ b.binds.map (·.acl) = [bAcl] ∧
      (engine a b sc).map (·.script) = some script ∧ exec (ofConfig a) script = some d' ∧
      d'.binds = (ofConfig a).binds ∧ d'.routes = (ofConfig a).routes ∧
      (linesOf d' aAcl).length = ((⟨a, b, sc⟩ : Env).bLines bAcl).length ∧
      ∀ p ∈ (linesOf d' aAcl).zip ((⟨a, b, sc⟩ : Env).bLines bAcl), LineEquiv ⟨a, b, sc⟩ d' p.1 p.2 :=
  k1_converges_checked a b sc hc

/-- `deleteUnused` on the strict device when no access-group command is pending: the pending access lists
(existing, unbound) are cleared, then the pending groups (existing, referenced by no access list that
stays) are removed; nothing else changes. -/
theorem deleteUnused_accepted (e : Env) (st : St) (managed : List Nat) (d : Dev) (hm : ModeRel st d)
    (hb : (duPending e st managed).1.binds = [])
    (hA : (duPending e st managed).1.acls.Nodup) (hG : (duPending e st managed).1.grps.Nodup)
    (hAok : ∀ m ∈ (duPending e st managed).1.acls, hasAcl d m = true ∧ aclBound d m = false)
    (hGok : ∀ g ∈ (duPending e st managed).1.grps, hasGroup d g = true ∧
      ∀ p ∈ d.acls, p.1 ∉ (duPending e st managed).1.acls → ∀ l ∈ p.2, g ∉ l.names) :
    ∃ tail d', (deleteUnused e st managed).out = st.out ++ tail ∧ exec d tail = some d' ∧
      d'.acls = d.acls.filter (fun p => !(duPending e st managed).1.acls.contains p.1) ∧
      (∀ g, g ∉ (duPending e st managed).1.grps → d'.groups.lookup g = d.groups.lookup g ∧
        d'.groups.any (·.1 == g) = d.groups.any (·.1 == g)) ∧
      d'.binds = d.binds ∧ d'.routes = d.routes ∧ d'.intfs = d.intfs :=
  deleteUnused_exec_nobinds e st managed d hm hb hA hG hAok hGok

/-! ## 7. F-C01b: idempotence in one run is false (kernel-evaluated on model + strict device) -/

def exLine (proto port g : String) : Line :=
  ⟨["permit " ++ proto ++ " object-group ", " any4 eq " ++ port], ["permit " ++ proto ++ " object-group ", " any4 eq " ++ port], [g]⟩

/-- Device: two identical groups, `oldg0` referenced, `g0-DRC-7` left over. -/
def exDev : Config :=
  { intfs := ["inside"], groups := [("oldg0", ["host 10.1.1.1"]), ("g0-DRC-7", ["host 10.1.1.1"])], acls := [("inside_in", [exLine "tcp" "22" "oldg0"])], binds := [⟨"inside_in", "in", "inside"⟩] }

/-- Target: one more line, using the same group. -/
def exTgt : Config :=
  { groups := [("g0", ["host 10.1.1.1"])], acls := [("inside_in", [exLine "udp" "53" "g0", exLine "tcp" "22" "g0"])], binds := [⟨"inside_in", "in", "inside"⟩] }

def exScripts : Scripts :=
  { acl := [(("inside_in", "inside_in"), [⟨0, 0, 0, 1⟩, ⟨0, 1, 1, 2⟩])], grp := [(("oldg0", "g0"), [⟨0, 1, 0, 1⟩]), (("g0-DRC-7", "g0"), [⟨0, 1, 0, 1⟩])] }

/-- Scripts of the second compare (the ACLs are equal now). -/
def exScripts2 : Scripts :=
  { acl := [(("inside_in", "inside_in"), [⟨0, 2, 0, 2⟩])], grp := [(("oldg0", "g0"), [⟨0, 1, 0, 1⟩]), (("g0-DRC-7", "g0"), [⟨0, 1, 0, 1⟩])] }

example : RefsClosedA ⟨exDev, exTgt, exScripts⟩ := RefsClosedA.of_check (by decide)

/-- The device after executing the first script on the strict device. -/
def exAfter : Option Dev := (engine exDev exTgt exScripts).bind fun r => exec (ofConfig exDev) r.script

/-- The first run adopts the left-over group for the new line early, then renames the target group to
`oldg0`; its script is one line, accepted by the strict device; the result is equivalent to the target
(same expanded view) — but the left-over generated group `g0-DRC-7` is still there, and a second
compare of that device is not empty. -/
theorem idempotent_counterexample :
    (engine exDev exTgt exScripts).map (fun r => showChanges r.script) =
      some ["access-list inside_in line 1 extended permit udp object-group oldg0 any4 eq 53"] ∧
    exAfter.map (fun d' =>
      (view d' [("in", "inside")] false == view (ofConfig { exTgt with intfs := ["inside"] }) [("in", "inside")] false,
       leftovers d',
       (engine (toConfig d') exTgt exScripts2).map (fun r => showChanges r.script))) =
      some (true, ["object-group g0-DRC-7"], some ["no object-group network g0-DRC-7"]) := by
  constructor <;> decide

/-! ### Non-vacuity of `asa_acl_pair_converges_partial`: the F-C01b configuration satisfies every hypothesis -/

def exEnv : Env := ⟨exDev, exTgt, exScripts⟩
def exInit : St × List Nat := (checkInterfaces exEnv {}).getD default

theorem exInit_ok : checkInterfaces exEnv {} = some (exInit.1, exInit.2) := by
  have h : (checkInterfaces exEnv {}).isSome = true := by decide
  unfold exInit
  cases hc : checkInterfaces exEnv {} with
  | none => rw [hc] at h; exact absurd h (by decide)
  | some p => rfl

example : ∃ d', LStep exEnv (generateNames exEnv exInit.1) (ofConfig exDev)
      (diffASAACLs exEnv (generateNames exEnv exInit.1) "inside_in" "inside_in" [⟨0, 0, 0, 1⟩, ⟨0, 1, 1, 2⟩]) d' "inside_in" ∧
    (linesOf d' "inside_in").length = (exEnv.bLines "inside_in").length ∧
    ∀ p ∈ (linesOf d' "inside_in").zip (exEnv.bLines "inside_in"),
      LineOK exEnv (diffASAACLs exEnv (generateNames exEnv exInit.1) "inside_in" "inside_in" [⟨0, 0, 0, 1⟩, ⟨0, 1, 1, 2⟩]) d' p.1 p.2 :=
  asa_acl_pair_converges_partial exEnv (WF.of_check (by decide)) (RefsClosedA.of_check (by decide))
    (RefsClosedB.of_check (by decide)) _ _ (sem_initial exDev exTgt exScripts _ _ exInit_ok)
    "inside_in" "inside_in" _ (by decide) (by decide) (by decide)
    (RefsMatchBody.of_check (by decide)) (RefsMatchBody.of_check (by decide))

/-- Non-vacuity of `asa_F1_converges_partial`: the F-C01b configuration is in class K1 and passes the check
(its script is accepted and the result is equivalent — the left-over group of F-C01b is not excluded by
this theorem, it only is not removed). -/
example : k1Check exDev exTgt exScripts = true := by decide

/-! ## 8. Round 3: the whole engine on the strict device, class K2

Class K2 (`k2Check`, one decidable predicate over the two configurations and the Myers scripts, evaluated by the
driver on every generated case): several access-group commands (in/out, several interfaces); commands of
interfaces unknown to the target stay (`markNeeded`); the compared commands go through `diffCmds` of the
anchors in either branch — "some parts equal": slices of device commands removed (`no access-group`,
`markDeleted`), target commands added at new places (`addCmds`), kept pairs equalised (`makeEqual`); "no parts
equal": every device command marked and removed by `deleteUnused` (`du:no-access-group`), every target command
added; every pair of bound access lists goes through ANY of the four branches of `diffCmds` for access lists
(device ACL already `needed` → transfer; target ACL already `ready`; no parts equal → `markDeleted` + transfer
of a new ACL and re-binding; incremental `diffASAACLs` with the counted hypothesis `hyp:ok`), object-groups
shared between lines and access lists in any way; routes with pairwise different destinations per side (add,
remove, replace); `deleteUnused` with removed access-group commands, cleared access lists and removed groups.
Outside: runs with `hyp:no-kept-line` / `hyp:duplicate-text` (F-C08a); two device routes to one prefix
(`two_routes_one_prefix_outside_spec`). -/

/-- **`asa_F1_converges`** — END TO END for class K2: the WHOLE script printed by the engine is accepted by the
strict device started on the device configuration, and the resulting device carries the target: interfaces as
before; an access-group command only at a place named by the target or at a place of an interface unknown to
the target; at every place named by the target an access list is bound
that has the target's length and, position by position, the target's text up to group names, every referenced
group existing with exactly the target group's members; the routes are the target's routes as a set (if the
target has none, the old ones stay). -/
theorem asa_F1_converges (a b : Config) (sc : Scripts) (hc : k2Check a b sc = true) :
    ∃ script d', (engine a b sc).map (·.script) = some script ∧ exec (ofConfig a) script = some d' ∧
      Converged ⟨a, b, sc⟩ d' := k2_converges a b sc hc

/-- **`asa_F1_unchanged_only_if_equivalent`** (C08, class K2): if the engine prints NO change, the device
already carries the target. -/
theorem asa_F1_unchanged_only_if_equivalent (a b : Config) (sc : Scripts) (hc : k2Check a b sc = true)
    (h : (engine a b sc).map (·.script) = some []) : Converged ⟨a, b, sc⟩ (ofConfig a) := by
  obtain ⟨script, d', h1, h2, h3⟩ := k2_converges a b sc hc
  rw [h] at h1
  have : script = [] := by simpa using h1.symm
  subst this
  have : d' = ofConfig a := by simpa [exec] using h2.symm
  rw [← this]; exact h3

/-- **`asa_F1_resume_partial`** (C10, class K2): EVERY prefix of the printed script is accepted by the strict
device; and whatever configuration `a'` the device shows after that prefix (`ofConfig a' = dm`), with whatever
Myers scripts `sc'` of the new comparison: if the pair (`a'`, target) is again in class K2, planning again and
executing on the interrupted device is accepted and ends in a device that carries the target.
FULL statement (not closed): the same without the hypothesis `k2Check a' b sc'`, for `a'` read back from `dm`
and `sc'` valid scripts.  MISSING PIECE: class K2 is not shown to be closed under executing a prefix of the
script — the counted run hypothesis `hyp:ok` of the NEW plan (F-C08a is reachable from an interrupted run) and
the binding shape after a cut between `access-list … -DRC-0` and its `access-group`.  The harness evaluates
`k2Check` on every cut state and runs the real code there (C10 oracle on all cut states, in or out of K2). -/
theorem asa_F1_resume_partial (a b : Config) (sc : Scripts) (hc : k2Check a b sc = true) :
    ∃ script, (engine a b sc).map (·.script) = some script ∧
      ∀ pre suf, script = pre ++ suf → ∃ dm, exec (ofConfig a) pre = some dm ∧
        ∀ a' sc', ofConfig a' = dm → k2Check a' b sc' = true →
          ∃ script' d'', (engine a' b sc').map (·.script) = some script' ∧ exec dm script' = some d'' ∧
            Converged ⟨a', b, sc'⟩ d'' := by
  obtain ⟨script, d', h1, h2, _⟩ := k2_converges a b sc hc
  refine ⟨script, h1, ?_⟩
  intro pre suf hs
  rw [hs, exec_append] at h2
  cases hp : exec (ofConfig a) pre with
  | none => rw [hp] at h2; simp at h2
  | some dm =>
    refine ⟨dm, rfl, ?_⟩
    intro a' sc' ha' hc'
    obtain ⟨script', d'', g1, g2, g3⟩ := k2_converges a' b sc' hc'
    exact ⟨script', d'', g1, by rw [← ha']; exact g2, g3⟩

/-! ### Non-vacuity: a device with three compared access-group commands (in and out, two interfaces), one command
of an interface unknown to the target, a group shared by two access lists, an unshared new group, an access
list replaced as a whole (re-binding) and route add + replace is in class K2. -/

def xLine (proto port g : String) : Line :=
  ⟨["permit " ++ proto ++ " object-group ", " any4 eq " ++ port], ["permit " ++ proto ++ " object-group ", " any4 eq " ++ port], [g]⟩

def ex2Dev : Config :=
  { intfs := ["inside", "outside", "dmz"],
    groups := [("g_web", ["host 10.1.1.1", "host 10.1.1.2"]), ("g_db", ["host 10.2.2.2"]), ("g_dmz", ["host 10.3.3.3"])],
    acls := [("inside_in", [xLine "tcp" "22" "g_web", xLine "tcp" "80" "g_web"]), ("inside_out", [xLine "udp" "53" "g_db"]),
             ("outside_in", [xLine "tcp" "443" "g_web"]), ("dmz_in", [xLine "tcp" "25" "g_dmz"])],
    binds := [⟨"inside_in", "in", "inside"⟩, ⟨"inside_out", "out", "inside"⟩, ⟨"outside_in", "in", "outside"⟩, ⟨"dmz_in", "in", "dmz"⟩],
    routes := [⟨"inside 10.9.0.0 255.255.0.0 10.1.1.254", "10.9.0.0/16", 112⟩, ⟨"outside 0.0.0.0 0.0.0.0 1.1.1.1", "0.0.0.0/0", 128⟩] }

def ex2Tgt : Config :=
  { groups := [("g_web", ["host 10.1.1.1", "host 10.1.1.3"]), ("g_db", ["host 10.2.2.2"]), ("g_new", ["host 10.4.4.4"])],
    acls := [("inside_in", [xLine "tcp" "22" "g_web", xLine "tcp" "8080" "g_new", xLine "tcp" "80" "g_web"]),
             ("inside_out", [xLine "udp" "53" "g_db"]), ("outside_in2", [xLine "udp" "500" "g_web"])],
    binds := [⟨"inside_in", "in", "inside"⟩, ⟨"inside_out", "out", "inside"⟩, ⟨"outside_in2", "in", "outside"⟩],
    routes := [⟨"inside 10.9.0.0 255.255.0.0 10.1.1.253", "10.9.0.0/16", 112⟩, ⟨"outside 0.0.0.0 0.0.0.0 1.1.1.1", "0.0.0.0/0", 128⟩,
               ⟨"inside 10.8.0.0 255.255.0.0 10.1.1.253", "10.8.0.0/16", 112⟩] }

def ex2Scripts : Scripts :=
  { acl := [(("inside_in", "inside_in"), [⟨0, 1, 0, 1⟩, ⟨1, 1, 1, 2⟩, ⟨1, 2, 2, 3⟩]), (("inside_out", "inside_out"), [⟨0, 1, 0, 1⟩]),
            (("outside_in", "outside_in2"), [⟨0, 1, 0, 0⟩, ⟨1, 1, 0, 1⟩])],
    grp := [(("g_web", "g_web"), [⟨0, 1, 0, 1⟩, ⟨1, 2, 1, 1⟩, ⟨2, 2, 1, 2⟩]), (("g_web", "g_db"), [⟨0, 2, 0, 0⟩, ⟨2, 2, 0, 1⟩]),
            (("g_web", "g_new"), [⟨0, 2, 0, 0⟩, ⟨2, 2, 0, 1⟩]), (("g_db", "g_web"), [⟨0, 1, 0, 0⟩, ⟨1, 1, 0, 2⟩]),
            (("g_db", "g_db"), [⟨0, 1, 0, 1⟩]), (("g_db", "g_new"), [⟨0, 1, 0, 0⟩, ⟨1, 1, 0, 1⟩]),
            (("g_dmz", "g_web"), [⟨0, 1, 0, 0⟩, ⟨1, 1, 0, 2⟩]), (("g_dmz", "g_db"), [⟨0, 1, 0, 0⟩, ⟨1, 1, 0, 1⟩]),
            (("g_dmz", "g_new"), [⟨0, 1, 0, 0⟩, ⟨1, 1, 0, 1⟩])] }

/-- Non-vacuity of `asa_F1_converges` / `asa_F1_resume_partial`. -/
example : k2Check ex2Dev ex2Tgt ex2Scripts = true := by decide

/-- ... and what the engine prints there (11 commands: group edit in place, new group, line insert, new access
list + re-binding, route add, route replace, clean-up). -/
example : (engine ex2Dev ex2Tgt ex2Scripts).map (fun r => showChanges r.script) = some [
    "object-group network g_web", "no network-object host 10.1.1.2", "network-object host 10.1.1.3",
    "object-group network g_new-DRC-0", "network-object host 10.4.4.4",
    "access-list inside_in line 2 extended permit tcp object-group g_new-DRC-0 any4 eq 8080",
    "access-list outside_in2-DRC-0 extended permit udp object-group g_web any4 eq 500",
    "access-group outside_in2-DRC-0 in interface outside", "route inside 10.8.0.0 255.255.0.0 10.1.1.253",
    "no route inside 10.9.0.0 255.255.0.0 10.1.1.254\\N route inside 10.9.0.0 255.255.0.0 10.1.1.253",
    "clear configure access-list outside_in"] := by decide

/-- Non-vacuity for the other branches of the anchors: an access-group command removed and one added at a new
place (`bind:del`, `bind:add`); and "no parts equal" (both commands replaced, `du:no-access-group`). -/
def ex5Dev : Config :=
  { intfs := ["inside", "dmz"], groups := [("g1", ["host 10.1.1.1"])],
    acls := [("inside_in", [xLine "tcp" "22" "g1"]), ("dmz_in", [xLine "tcp" "25" "g1"])],
    binds := [⟨"inside_in", "in", "inside"⟩, ⟨"dmz_in", "in", "dmz"⟩] }
def ex5Tgt : Config :=
  { groups := [("g1", ["host 10.1.1.1"])],
    acls := [("inside_in", [xLine "tcp" "22" "g1"]), ("dmz_out", [xLine "udp" "53" "g1"])],
    binds := [⟨"inside_in", "in", "inside"⟩, ⟨"dmz_out", "out", "dmz"⟩] }
def ex5Scripts : Scripts := { acl := [(("inside_in", "inside_in"), [⟨0, 1, 0, 1⟩])], grp := [(("g1", "g1"), [⟨0, 1, 0, 1⟩])] }
def ex6Tgt : Config :=
  { groups := [("g1", ["host 10.1.1.1"])],
    acls := [("inside_out", [xLine "tcp" "22" "g1"]), ("dmz_out", [xLine "udp" "53" "g1"])],
    binds := [⟨"inside_out", "out", "inside"⟩, ⟨"dmz_out", "out", "dmz"⟩] }

example : k2Check ex5Dev ex5Tgt ex5Scripts = true ∧
    (engine ex5Dev ex5Tgt ex5Scripts).map (fun r => showChanges r.script) = some [
      "no access-group dmz_in in interface dmz",
      "access-list dmz_out-DRC-0 extended permit udp object-group g1 any4 eq 53",
      "access-group dmz_out-DRC-0 out interface dmz", "clear configure access-list dmz_in"] := by
  constructor <;> decide

example : k2Check ex5Dev ex6Tgt ex5Scripts = true ∧
    (engine ex5Dev ex6Tgt ex5Scripts).map (fun r => showChanges r.script) = some [
      "object-group network g1-DRC-0", "network-object host 10.1.1.1",
      "access-list inside_out-DRC-0 extended permit tcp object-group g1-DRC-0 any4 eq 22",
      "access-group inside_out-DRC-0 out interface inside",
      "access-list dmz_out-DRC-0 extended permit udp object-group g1-DRC-0 any4 eq 53",
      "access-group dmz_out-DRC-0 out interface dmz", "no access-group inside_in in interface inside",
      "no access-group dmz_in in interface dmz", "clear configure access-list dmz_in",
      "clear configure access-list inside_in", "no object-group network g1"] := by
  constructor <;> decide

/-- Non-vacuity of `asa_F1_unchanged_only_if_equivalent`: target = device (own names, identity scripts) is in
class K2 and the engine prints nothing. -/
def ex3Tgt : Config := { ex2Dev with intfs := [], binds := ex2Dev.binds.take 3, acls := ex2Dev.acls.take 3, groups := ex2Dev.groups.take 2 }
def ex3Scripts : Scripts :=
  { acl := [(("inside_in", "inside_in"), [⟨0, 2, 0, 2⟩]), (("inside_out", "inside_out"), [⟨0, 1, 0, 1⟩]), (("outside_in", "outside_in"), [⟨0, 1, 0, 1⟩])],
    grp := [(("g_web", "g_web"), [⟨0, 2, 0, 2⟩]), (("g_web", "g_db"), [⟨0, 2, 0, 0⟩, ⟨2, 2, 0, 1⟩]),
            (("g_db", "g_web"), [⟨0, 1, 0, 0⟩, ⟨1, 1, 0, 2⟩]), (("g_db", "g_db"), [⟨0, 1, 0, 1⟩]),
            (("g_dmz", "g_web"), [⟨0, 1, 0, 0⟩, ⟨1, 1, 0, 2⟩]), (("g_dmz", "g_db"), [⟨0, 1, 0, 0⟩, ⟨1, 1, 0, 1⟩])] }
example : k2Check ex2Dev ex3Tgt ex3Scripts = true ∧ (engine ex2Dev ex3Tgt ex3Scripts).map (·.script) = some [] := by
  constructor <;> decide

/-! ### Idempotence

Class ISO (`isoCheck`, decidable and STATIC — it does not evaluate the engine): the compared access-group
commands sit at the same places; the bound access lists are paired one to one and their passed scripts are one
"equal" range over all lines; the object-groups referenced at the same positions of paired lines are paired one
to one, their passed scripts keep every member; none of these objects is used by a command of an unknown
interface; same routes; every generated (`-DRC-`) object is one of the paired ones (or needed by an unknown
interface). -/

/-- **`asa_F1_iso_quiet`** — a comparison in class ISO prints NOTHING (all of `diffConfig`: the anchors, the
incremental access-list comparison with `equalizedGroups` of every referenced pair, the routes, `deleteUnused`). -/
theorem asa_F1_iso_quiet (a b : Config) (sc : Scripts) (hc : isoCheck a b sc = true) :
    (engine a b sc).map (·.script) = some [] := iso_quiet a b sc hc

/-- **`asa_F1_idempotent_partial`** (class K2 for the first run, class ISO for the second): the script of the
first run is accepted and ends in a device that carries the target; whatever configuration `a'` that device
shows and whatever scripts `sc'` the second comparison passes: if (`a'`, target, `sc'`) is in class ISO, the
second plan is EMPTY.
FULL statement (false in general — F-C01b, `idempotent_counterexample`): the same without `isoCheck`.
MISSING PIECE: the bridge from the semantic result `Converged` to the syntactic class ISO — (1) no left-over
generated object (fails exactly in F-C01b: a group adopted early by `findGroupOnDevice` and then abandoned),
(2) one-to-one pairing of the groups (the first run never merges two target groups into one device group, not
proved), (3) the Myers scripts of two equal lists are identity scripts (a property of `myers.Diff`, outside
the model).  The harness evaluates `isoCheck` on every second comparison and counts how often it holds. -/
theorem asa_F1_idempotent_partial (a b : Config) (sc : Scripts) (hc : k2Check a b sc = true) :
    ∃ script d', (engine a b sc).map (·.script) = some script ∧ exec (ofConfig a) script = some d' ∧
      Converged ⟨a, b, sc⟩ d' ∧
      ∀ a' sc', ofConfig a' = d' → isoCheck a' b sc' = true → (engine a' b sc').map (·.script) = some [] := by
  obtain ⟨script, d', h1, h2, h3⟩ := k2_converges a b sc hc
  exact ⟨script, d', h1, h2, h3, fun a' sc' _ hc' => iso_quiet a' b sc' hc'⟩

/-- The device after the run of the K2 example, as a configuration to compare again ... -/
def ex4Dev : Config :=
  { intfs := ["inside", "outside", "dmz"],
    groups := [("g_web", ["host 10.1.1.1", "host 10.1.1.3"]), ("g_db", ["host 10.2.2.2"]), ("g_dmz", ["host 10.3.3.3"]),
               ("g_new-DRC-0", ["host 10.4.4.4"])],
    acls := [("inside_in", [xLine "tcp" "22" "g_web", xLine "tcp" "8080" "g_new-DRC-0", xLine "tcp" "80" "g_web"]),
             ("inside_out", [xLine "udp" "53" "g_db"]), ("dmz_in", [xLine "tcp" "25" "g_dmz"]),
             ("outside_in2-DRC-0", [xLine "udp" "500" "g_web"])],
    binds := [⟨"inside_in", "in", "inside"⟩, ⟨"inside_out", "out", "inside"⟩, ⟨"outside_in2-DRC-0", "in", "outside"⟩, ⟨"dmz_in", "in", "dmz"⟩],
    routes := [⟨"outside 0.0.0.0 0.0.0.0 1.1.1.1", "0.0.0.0/0", 128⟩, ⟨"inside 10.8.0.0 255.255.0.0 10.1.1.253", "10.8.0.0/16", 112⟩,
               ⟨"inside 10.9.0.0 255.255.0.0 10.1.1.253", "10.9.0.0/16", 112⟩] }

/-- ... with the identity scripts of the second comparison. -/
def ex4Scripts : Scripts :=
  { acl := [(("inside_in", "inside_in"), [⟨0, 3, 0, 3⟩]), (("inside_out", "inside_out"), [⟨0, 1, 0, 1⟩]),
            (("outside_in2-DRC-0", "outside_in2"), [⟨0, 1, 0, 1⟩])],
    grp := [(("g_web", "g_web"), [⟨0, 2, 0, 2⟩]), (("g_db", "g_db"), [⟨0, 1, 0, 1⟩]), (("g_new-DRC-0", "g_new"), [⟨0, 1, 0, 1⟩])] }

/-- Non-vacuity of `asa_F1_idempotent_partial` / `asa_F1_iso_quiet`: the strict device after the first run of the
K2 example IS `ofConfig ex4Dev`, and (`ex4Dev`, target) is in class ISO (renamed group and access list). -/
example : (engine ex2Dev ex2Tgt ex2Scripts).bind (fun r => exec (ofConfig ex2Dev) r.script) = some (ofConfig ex4Dev) ∧
    isoCheck ex4Dev ex2Tgt ex4Scripts = true := by constructor <;> decide

/-- F-C01b is outside class ISO (the left-over group). -/
example : (exAfter.map fun d' => isoCheck (toConfig d') exTgt exScripts2) = some false := by decide

/-! ## 9. Routes: every destination stays covered after each command (C14, closes the hypotheses of
`NA.Route.routes_covered`)

`NA.Route.routes_covered` (NA/Props/C14.lean) assumes the shape of the script (`phaseA`, `phaseB`) and that the
script reaches the target (`hall`).  Here these are PROVED for the route commands of the tied `diffRoutes` model:
`routeOpsOf al bl` are the route-level operations whose rendering is exactly what `diffRoutes` appends to the
script (`asa_routes_script_is_model`); `diffUnordered` is characterised for duplicate-free keys
(`diffUnordered_computes`).  Input hypotheses: the device does not list a route twice, and a route is
determined by its text (destination and sort key are parsed from it). -/

/-- What `diffUnordered` computes for duplicate-free `as` (positions): deleted = keys of `as` not in `bs`, inserted
= keys of `bs` not in `as`, every other position of `as` paired with the last position of its key in `bs`. -/
theorem diffUnordered_computes (as bs : List String) (has : as.Nodup) :
    delIdxOf (diffUnordered as bs) = (List.range as.length).filter (fun i => !bs.contains (as.getD i "")) ∧
    insIdxOf (diffUnordered as bs) = (List.range bs.length).filter (fun t => !as.contains (bs.getD t "")) ∧
    eqIdxOf (diffUnordered as bs) =
      (List.range as.length).filterMap (fun i => (lastIdx (as.getD i "") bs).map fun j => (i, j)) :=
  let h := diffUnordered_spec as bs has
  ⟨h.1, h.2.1, h.2.2.1⟩

/-- The route commands printed by `diffRoutes` are the rendering of `routeOpsOf`, in that order. -/
theorem asa_routes_script_is_model (st : St) (al bl : List Route) :
    (diffRoutes st al bl).out = st.out ++ (routeOpsOf al bl).map RO.toChg := diffRoutes_out st al bl

/-- The hypotheses `phaseA`, `phaseB`, `hall` of `NA.Route.routes_covered` hold for the emitted route commands
(numbered injectively by `encR`): first additions and same-destination replacements sent as one line, then
deletions of routes the target does not contain; after the first phase the whole target is on the device. -/
theorem asa_routes_phases (al bl : List Route) (hnd : (al.map (·.text)).Nodup) (hwf : RouteWF (al ++ bl)) :
    ∃ opsA opsB, routeOpsOf al bl = opsA ++ opsB ∧
      NA.Route.phaseA (opsA.map (encOp (al ++ bl))) = true ∧
      NA.Route.phaseB (bl.map (encR (al ++ bl))) (opsB.map (encOp (al ++ bl))) = true ∧
      (∀ r ∈ bl.map (encR (al ++ bl)), r ∈ (opsA.map (encOp (al ++ bl))).foldl NA.Route.rexec1 (al.map (encR (al ++ bl)))) :=
  let ⟨a, b, h1, h2, h3, h4, _⟩ := routeOps_phases al bl hnd hwf
  ⟨a, b, h1, h2, h3, h4⟩

/-- **`asa_routes_covered_every_step`** — for every device route list `al` and target route list `bl` (the one
managed family of F1: IPv4, no VRF): every destination that has a route before and after has one after EACH
emitted command, in the real order (new routes and joined gateway replacements first, removals last). -/
theorem asa_routes_covered_every_step (al bl : List Route) (hnd : (al.map (·.text)).Nodup) (hwf : RouteWF (al ++ bl))
    (d : String) (hold : ∃ r ∈ al, r.dst = d) (hnew : ∃ r ∈ bl, r.dst = d) :
    ∀ t ∈ roTrace al (routeOpsOf al bl), ∃ r ∈ t, r.dst = d :=
  routes_covered_every_step al bl hnd hwf d hold hnew

/-- Non-vacuity: gateway of 10.9.0.0/16 replaced (one joined line), 10.8.0.0/16 added, 10.7.0.0/16 removed; the
three intermediate tables all cover 10.9.0.0/16 and the default route. -/
def exRA : List Route := [⟨"inside 10.9.0.0 255.255.0.0 10.1.1.254", "10.9.0.0/16", 112⟩, ⟨"inside 10.7.0.0 255.255.0.0 10.1.1.254", "10.7.0.0/16", 112⟩,
  ⟨"outside 0.0.0.0 0.0.0.0 1.1.1.1", "0.0.0.0/0", 128⟩]
def exRB : List Route := [⟨"inside 10.8.0.0 255.255.0.0 10.1.1.253", "10.8.0.0/16", 112⟩, ⟨"inside 10.9.0.0 255.255.0.0 10.1.1.253", "10.9.0.0/16", 112⟩,
  ⟨"outside 0.0.0.0 0.0.0.0 1.1.1.1", "0.0.0.0/0", 128⟩]
example : (routeOpsOf exRA exRB).map (fun o => (showChanges [o.toChg])) =
    [["route inside 10.8.0.0 255.255.0.0 10.1.1.253"],
     ["no route inside 10.9.0.0 255.255.0.0 10.1.1.254\\N route inside 10.9.0.0 255.255.0.0 10.1.1.253"],
     ["no route inside 10.7.0.0 255.255.0.0 10.1.1.254"]] ∧
    (roTrace exRA (routeOpsOf exRA exRB)).length = 3 ∧
    ((roTrace exRA (routeOpsOf exRA exRB)).all fun t => t.any (·.dst == "10.9.0.0/16") && t.any (·.dst == "0.0.0.0/0")) = true ∧
    (exRA.map (·.text)).Nodup ∧ RouteWF (exRA ++ exRB) := by
  refine ⟨by decide, by decide, by decide, by decide, by unfold RouteWF; decide⟩

/-! ## 10. C08 at engine level: configuration modes and removal of referenced objects -/

/-- **`asa_F1_subcommands_in_own_mode`** (ALL inputs; static hypotheses: device ACL lines reference device groups, no
group is named ""): replayed on the mode of the command line (`object-group network X` opens the sub-mode of `X`;
`network-object`, `no network-object` and `exit` are legal only inside a sub-mode; every other command leaves
it), the whole printed script is legal.  The proof carries the invariant `T` through every function of the
engine model: whenever the engine believes to be in the sub-mode of `X` (`State.subCmdOf = X`), the command
line IS in the sub-mode of `X` — and member commands for `X` are emitted only right behind `setCmdConfMode(X)`
or `object-group network X` (`memberCmd_T`, `transferGroup_T`), so they reach their own parent. -/
theorem asa_F1_subcommands_in_own_mode (a b : Config) (sc : Scripts) (r : Result) (hA : RefsClosedA ⟨a, b, sc⟩)
    (hne : "" ∉ a.groups.map (·.1)) (h : engine a b sc = some r) : ∃ m, modeRun none r.script = some m :=
  engine_modes a b sc r hA hne h

/-- The invariant itself for the in-place edit of a group: behind `setMode st X` the command line is in the
sub-mode of `X`, and the member command stays there. -/
theorem asa_F1_member_command_in_parent_mode {st : St} (h : T st) (n : Name) (hn : n ≠ "") (m : String) :
    T ((setMode st n).emit (.mem m)) ∧ T ((setMode st n).emit (.noMem m)) ∧ (setMode st n).mode = n :=
  ⟨memberCmd_T h n hn _ (fun _ => rfl), memberCmd_T h n hn _ (fun _ => rfl), (setMode_T h n).2⟩

/-- Non-vacuity: a script with a member command at top level is illegal; the K2 example's script is legal. -/
example : modeRun none [.mem "host 10.1.1.1"] = none ∧
    ((engine ex2Dev ex2Tgt ex2Scripts).map fun r => (modeRun none r.script).isSome) = some true := by
  constructor <;> decide

/-- What the strict device demands of a removing command. -/
def removalGuard (d : Dev) : Chg → Prop
  | .noGrp n => hasGroup d n = true ∧ groupReferenced d n = false
  | .clearAcl n => hasAcl d n = true ∧ aclBound d n = false
  | .noBind b => d.binds.lookup (b.dir, b.intf) = some b.acl
  | .noRoute r => r ∈ d.routes
  | _ => True

theorem removalGuard_of_ok (d d' : Dev) (c : Chg) (h : exec1 d c = .ok d') : removalGuard d c := by
  cases c with
  | noGrp n =>
    simp only [exec1] at h
    split at h
    · exact absurd h (by simp)
    · split at h
      · exact absurd h (by simp)
      · rename_i h1 h2
        exact ⟨by simpa using h1, by simpa using h2⟩
  | clearAcl n =>
    simp only [exec1] at h
    split at h
    · exact absurd h (by simp)
    · split at h
      · exact absurd h (by simp)
      · rename_i h1 h2
        exact ⟨by simpa using h1, by simpa using h2⟩
  | noBind b =>
    simp only [exec1] at h
    split at h
    · exact absurd h (by simp)
    · rename_i h1
      show d.binds.lookup (b.dir, b.intf) = some b.acl
      simpa using h1
  | noRoute r =>
    simp only [exec1] at h
    split at h
    · exact absurd h (by simp)
    · rename_i h1
      show r ∈ d.routes
      simpa using h1
  | _ => trivial

/-- **`asa_F1_no_referenced_object_deleted`** (class K2): at EVERY removing command of the printed script the
strict device is in a state where the object-group is referenced by no access-list line, the access list is
bound nowhere, the access-group / route to remove is there (`deleteUnused` removes access-group commands, then
access lists, then the groups they referenced; `diffRoutes` removes only existing routes). -/
theorem asa_F1_no_referenced_object_deleted (a b : Config) (sc : Scripts) (hc : k2Check a b sc = true) :
    ∃ script, (engine a b sc).map (·.script) = some script ∧
      ∀ pre c suf, script = pre ++ c :: suf → ∃ dm, exec (ofConfig a) pre = some dm ∧ removalGuard dm c := by
  obtain ⟨script, d', h1, h2, _⟩ := k2_converges a b sc hc
  refine ⟨script, h1, ?_⟩
  intro pre c suf hs
  rw [hs, exec_append] at h2
  cases hp : exec (ofConfig a) pre with
  | none => rw [hp] at h2; simp at h2
  | some dm =>
    refine ⟨dm, rfl, ?_⟩
    rw [hp, Option.bind_some, exec_cons] at h2
    unfold step at h2
    cases hx : exec1 dm c with
    | error e => rw [hx] at h2; simp at h2
    | ok d1 => exact removalGuard_of_ok dm d1 c hx

/-! ### Two device routes to one prefix: outside the class for a reason

`diffRoutes` pairs an added route with the deleted device route to the same PREFIX (`dstOfRoute`: vrf and
prefix, not the interface) — on a real ASA two routes to one prefix over different interfaces conflict.  The
written device specification (harness/asacfg/dev.go, NA.AsaDev) treats `INTF IP MASK` as the destination; on a
device that holds two routes to one prefix over two interfaces the joined replacement may remove the route of
the other interface, and the strict device refuses the added route.  Such a device cannot exist on a real ASA;
the class condition `(al.map dst).Nodup` of `routesCheck` therefore stays. -/
def exR2Dev : Config := { intfs := ["inside", "outside"], routes := [⟨"inside 10.0.0.0 255.0.0.0 10.1.1.1", "10.0.0.0/8", 120⟩, ⟨"outside 10.0.0.0 255.0.0.0 1.1.1.2", "10.0.0.0/8", 120⟩] }
def exR2Tgt : Config := { routes := [⟨"inside 10.0.0.0 255.0.0.0 10.1.1.3", "10.0.0.0/8", 120⟩] }

theorem two_routes_one_prefix_outside_spec :
    (engine exR2Dev exR2Tgt {}).map (fun r => (showChanges r.script, (run (ofConfig exR2Dev) r.script).2)) =
      some (["no route outside 10.0.0.0 255.0.0.0 1.1.1.2\\N route inside 10.0.0.0 255.0.0.0 10.1.1.3",
             "no route inside 10.0.0.0 255.0.0.0 10.1.1.1"], some (0, "route to identical destination exists")) ∧
    k2Check exR2Dev exR2Tgt {} = false := by
  constructor <;> decide

/-! ### Class K2 is not closed under executing a prefix of its own script

`asa_F1_resume` without a hypothesis on the interrupted state cannot be obtained from closure of the class:
(1) the Myers scripts of the NEW comparison are parameters of the model, and the run hypothesis `hyp:ok` (a kept
line keeps its references) is a property of those scripts; (2) the class itself is not closed — here the
target asks for a second route to a prefix over another interface; after the first command the device holds
two routes to one prefix, which `routesCheck` excludes (see `two_routes_one_prefix_outside_spec`).  The resumed
run from that state is nevertheless accepted (oracle, and below).  Measured by the harness on every cut state of
every K2 run (`resume-cut-of-a-K2-run:k2=…`): quick 694 of 704 cut states are in K2 again, the other 10 for this
reason only. -/
def ex7Dev : Config := { intfs := ["inside", "outside"], routes := [⟨"inside 10.0.0.0 255.0.0.0 10.1.1.1", "10.0.0.0/8", 120⟩, ⟨"outside 0.0.0.0 0.0.0.0 1.1.1.1", "0.0.0.0/0", 128⟩] }
def ex7Tgt : Config := { routes := [⟨"inside 10.0.0.0 255.0.0.0 10.1.1.1", "10.0.0.0/8", 120⟩, ⟨"outside 10.0.0.0 255.0.0.0 1.1.1.2", "10.0.0.0/8", 120⟩, ⟨"outside 0.0.0.0 0.0.0.0 1.1.1.9", "0.0.0.0/0", 128⟩] }
def ex7Cut : Config := { intfs := ["inside", "outside"], routes := [⟨"inside 10.0.0.0 255.0.0.0 10.1.1.1", "10.0.0.0/8", 120⟩, ⟨"outside 0.0.0.0 0.0.0.0 1.1.1.1", "0.0.0.0/0", 128⟩, ⟨"outside 10.0.0.0 255.0.0.0 1.1.1.2", "10.0.0.0/8", 120⟩] }

theorem k2_not_closed_under_prefix :
    k2Check ex7Dev ex7Tgt {} = true ∧
    (engine ex7Dev ex7Tgt {}).map (fun r => exec (ofConfig ex7Dev) (r.script.take 1) == some (ofConfig ex7Cut)) = some true ∧
    k2Check ex7Cut ex7Tgt {} = false ∧
    (engine ex7Cut ex7Tgt {}).map (fun r => (run (ofConfig ex7Cut) r.script).2) = some none := by
  refine ⟨by decide, by decide, by decide, by decide⟩

/-! ## 11. F-C14g: members of an unshared group are changed before the lines (C14)

The oracle of harness asacfg found it on the real code; the engine model (whose script equals drc's on this input)
reproduces it: `equalizedGroups` edits the group while the lines are compared, the line commands are printed
afterwards.  Packet semantics here: first match over the bound access list, implicit deny; a packet is given by its
protocol, the member (network) that contains its source, and its destination host; the two line shapes of the example
are interpreted (`permit udp object-group G any4`, `deny ip any4 host 10.1.1.2`). -/

structure XPkt where
  proto : String
  srcNet : String     -- the member text of the network that contains the source address
  dstHost : String
  deriving DecidableEq, Repr

/-- `some true` = permit, `some false` = deny, `none` = the line does not match. -/
def xLineVerdict (d : Dev) (l : RLine) (p : XPkt) : Option Bool :=
  if l.body = ["permit udp object-group ", " any4"] then
    (if p.proto = "udp" ∧ (membersOf d (l.names.headD "")).contains p.srcNet then some true else none)
  else if l.body = ["deny ip any4 host 10.1.1.2"] then
    (if p.dstHost = "10.1.1.2" then some false else none)
  else none

def xVerdict (d : Dev) (acl : Name) (p : XPkt) : Bool :=
  ((linesOf d acl).findSome? fun l => xLineVerdict d l p).getD false

/-- The device after each command. -/
def execTrace : Dev → List Chg → List Dev
  | _, [] => []
  | d, c :: cs => match exec1 d c with
    | .ok d' => d' :: execTrace d' cs
    | .error _ => []

def exGDev : Config :=
  { intfs := ["dmz"], groups := [("g2", ["10.3.3.0 255.255.255.0", "host 10.5.5.5"])],
    acls := [("dmz_in", [⟨["permit udp object-group ", " any4"], ["permit udp object-group ", " any4"], ["g2"]⟩])],
    binds := [⟨"dmz_in", "in", "dmz"⟩] }
def exGTgt : Config :=
  { groups := [("g2", ["10.3.3.0 255.255.255.0", "host 10.5.5.5", "10.6.0.0 255.255.0.0"])],
    acls := [("dmz_in", [⟨["deny ip any4 host 10.1.1.2"], ["deny ip any4 host 10.1.1.2"], []⟩,
                         ⟨["permit udp object-group ", " any4"], ["permit udp object-group ", " any4"], ["g2"]⟩])],
    binds := [⟨"dmz_in", "in", "dmz"⟩] }
def exGScripts : Scripts :=
  { acl := [(("dmz_in", "dmz_in"), [⟨0, 0, 0, 1⟩, ⟨0, 1, 1, 2⟩])], grp := [(("g2", "g2"), [⟨0, 1, 0, 1⟩, ⟨1, 1, 1, 2⟩, ⟨1, 2, 2, 3⟩])] }

/-- udp 10.6.1.1 → 10.1.1.2 -/
def exGPkt : XPkt := ⟨"udp", "10.6.0.0 255.255.0.0", "10.1.1.2"⟩

/-- **`asa_group_edit_before_lines_counterexample`** (F-C14g): the input is in class K2, the model prints the member
command before the line insert, the strict device accepts all three commands, the packet is denied on the device
before the run and on the final device — and permitted in the state after the member command. -/
theorem asa_group_edit_before_lines_counterexample :
    k2Check exGDev exGTgt exGScripts = true ∧
    (engine exGDev exGTgt exGScripts).map (fun r => showChanges r.script) = some [
      "object-group network g2", "network-object 10.6.0.0 255.255.0.0",
      "access-list dmz_in line 1 extended deny ip any4 host 10.1.1.2"] ∧
    xVerdict (ofConfig exGDev) "dmz_in" exGPkt = false ∧
    (engine exGDev exGTgt exGScripts).map (fun r =>
      (execTrace (ofConfig exGDev) r.script).map fun d => xVerdict d "dmz_in" exGPkt) = some [false, true, false] := by
  refine ⟨by decide, by decide, by decide, by decide⟩

/-! ## 12. F-C01c: a group equalised for a line that is then replaced stays `needed` (kernel-evaluated)

Device: `g0` and the generated twin `g0-DRC-9` (same members); line 1 of `inside_in` uses `g0-DRC-9` and `g2`, line 2
uses `g0`; `g2` is also used by the access list of `dmz`, an interface unknown to the target.  `equalizeACLs`
equalises ALL references of a kept pair: (`g0-DRC-9`, `g0`) succeeds — the device group becomes `needed` —, (`g2`,
`g2`) fails because `g2` is `needed` by the unknown interface; the line is re-added and deleted.  The kept pair of
line 2 then re-maps the target's `g0` to the device's `g0` (the not-`needed` branch of `equalizedGroups` with an
identity script does not look at `ready`), so the new line is printed with `g0`: `g0-DRC-9` loses its last
reference in this very script, stays `needed`, and `deleteUnused` keeps it.  The next comparison removes it. -/

def x2Line (act proto g1 g2 port : String) : Line :=
  ⟨[act ++ " " ++ proto ++ " object-group ", " object-group ", " eq " ++ port],
   [act ++ " " ++ proto ++ " object-group ", " object-group ", " eq " ++ port], [g1, g2]⟩

def exCDev : Config :=
  { intfs := ["inside", "dmz"],
    groups := [("g0", ["host 10.1.1.1"]), ("g0-DRC-9", ["host 10.1.1.1"]), ("g2", ["host 10.4.4.4"])],
    acls := [("inside_in", [x2Line "deny" "udp" "g0-DRC-9" "g2" "53", xLine "udp" "25" "g0"]), ("dmz_acl", [xLine "tcp" "22" "g2"])],
    binds := [⟨"inside_in", "in", "inside"⟩, ⟨"dmz_acl", "in", "dmz"⟩] }
def exCTgt : Config :=
  { groups := [("g0", ["host 10.1.1.1"]), ("g2", ["host 10.4.4.4"])],
    acls := [("inside_in", [x2Line "deny" "udp" "g0" "g2" "53", xLine "udp" "25" "g0"])],
    binds := [⟨"inside_in", "in", "inside"⟩] }
def exCScripts : Scripts :=
  { acl := [(("inside_in", "inside_in"), [⟨0, 2, 0, 2⟩])],
    grp := [(("g0-DRC-9", "g0"), [⟨0, 1, 0, 1⟩]), (("g0", "g0"), [⟨0, 1, 0, 1⟩]), (("g2", "g2"), [⟨0, 1, 0, 1⟩])] }
def exCScripts2 : Scripts :=
  { acl := [(("inside_in", "inside_in"), [⟨0, 2, 0, 2⟩])],
    grp := [(("g0", "g0"), [⟨0, 1, 0, 1⟩]), (("g2-DRC-0", "g2"), [⟨0, 1, 0, 1⟩]), (("g0-DRC-9", "g0"), [⟨0, 1, 0, 1⟩])] }

/-- **`needed_group_of_replaced_line_counterexample`** (F-C01c): the first script (accepted by the strict device,
result equivalent to the target) leaves the generated group `g0-DRC-9` unreferenced; the second comparison is
not empty and only removes it; the pair of the second comparison is outside class ISO. -/
theorem needed_group_of_replaced_line_counterexample :
    (engine exCDev exCTgt exCScripts).map (fun r => showChanges r.script) = some [
      "object-group network g2-DRC-0", "network-object host 10.4.4.4",
      "access-list inside_in line 1 extended deny udp object-group g0 object-group g2-DRC-0 eq 53",
      "no access-list inside_in line 2 extended deny udp object-group g0-DRC-9 object-group g2 eq 53"] ∧
    ((engine exCDev exCTgt exCScripts).bind fun r => (exec (ofConfig exCDev) r.script).map fun d =>
      (leftovers d, (engine (toConfig d) exCTgt exCScripts2).map (fun r => showChanges r.script),
       isoCheck (toConfig d) exCTgt exCScripts2)) =
      some (["object-group g0-DRC-9"], some ["no object-group network g0-DRC-9"], false) := by
  constructor <;> decide

/-! ## 13. What C14 guarantees for the in-place edit of an UNSHARED object-group (complement of F-C14g)

Hypothesis of the positive statement (decidable on the script and the two configurations): the place keeps its
access list (no re-binding in the run), the group is used by ONE access-list line, no line of that access list is inserted, deleted or moved in the run (otherwise F-C14g), no other
group that a line of that access list uses is edited (`pre`, `post` below are untouched in the run), and the member texts of old and new group do not overlap (a packet address is
covered by at most one of them — true for the hosts and disjoint networks Netspoc generates for one group). -/

/-- Every state between two member commands of `equalizedGroups`' in-place edit holds a member set between
`old ∩ new` and `old ∪ new` (for every valid script that does not delete and insert one member). -/
theorem asa_unshared_group_edit_states_bounded (la lb cur : List String) (rs : List Range)
    (hv : scriptOK la lb rs 0 0 = true) (hna : la.Nodup) (hnb : lb.Nodup) (hcur : cur.Perm la)
    (hdisj : ∀ m ∈ inssOf lb rs, m ∉ delsOf la rs) (pre suf : List (Bool × String)) (hs : memOps la lb rs = pre ++ suf) :
    ∃ M, applyMem cur pre = some M ∧ (∀ x, x ∈ la → x ∈ lb → x ∈ M) ∧ (∀ x ∈ M, x ∈ la ∨ x ∈ lb) :=
  memOps_prefix_sandwich la lb cur rs hv hna hnb hcur hdisj pre suf hs

/-- **`asa_unshared_group_edit_keeps_agreed_verdicts`** — the access list is `pre ++ [line with the group] ++ post`
(first match, implicit deny; `pre`, `post` as the packet sees them and untouched in the run; `cov` = the one member
text covering the packet's address, if any): in EVERY state of the member edit the packet gets the old or the new
verdict; in particular a packet on which old and new agree keeps its verdict. -/
theorem asa_unshared_group_edit_keeps_agreed_verdicts (la lb cur : List String) (rs : List Range)
    (hv : scriptOK la lb rs 0 0 = true) (hna : la.Nodup) (hnb : lb.Nodup) (hcur : cur.Perm la)
    (hdisj : ∀ m ∈ inssOf lb rs, m ∉ delsOf la rs) (pre suf : List (Bool × String)) (hs : memOps la lb rs = pre ++ suf)
    (lpre lpost : List PLine) (act : Bool) (cov : Option String) :
    ∃ M, applyMem cur pre = some M ∧
      (evalG lpre act cov lpost M = evalG lpre act cov lpost la ∨ evalG lpre act cov lpost M = evalG lpre act cov lpost lb) ∧
      (evalG lpre act cov lpost la = evalG lpre act cov lpost lb → evalG lpre act cov lpost M = evalG lpre act cov lpost la) := by
  obtain ⟨M, h1, h2, h3⟩ := memOps_prefix_sandwich la lb cur rs hv hna hnb hcur hdisj pre suf hs
  have h4 := evalG_old_or_new lpre lpost act cov la lb M h2 h3
  refine ⟨M, h1, h4, ?_⟩
  intro he
  rcases h4 with h | h
  · exact h
  · rw [h, he]

/-- Non-vacuity: members {h1,h2,h4} → {h1,h3,h4}; packet from `h1` behind a non-matching line: permitted in all states. -/
example : (applyMem ["h4", "h1", "h2"] ((memOps ["h1", "h2", "h4"] ["h1", "h3", "h4"]
      [⟨0, 1, 0, 1⟩, ⟨1, 2, 1, 1⟩, ⟨2, 2, 1, 2⟩, ⟨2, 3, 2, 3⟩]).take 1)).map
    (fun M => evalG [(false, false)] true (some "h1") [] M) = some true := by decide

/-- Both extra hypotheses are needed (kernel-evaluated on the abstract semantics).
(1) Overlapping members: old `{10.1.0.0/16}`, new `{10.1.1.0/24}`, the packet address is covered by BOTH texts; the state
after the delete and before the insert covers it by neither: permitted before and after, denied in between.
(2) Two groups of one line edited one after the other (`A × B`): old `A={a1,a2}, B={b3,b4}`, new `A={a1,a5}, B={b3}`;
packet (a5 → b4) matches neither old nor new line, but matches after `A` gained `a5` while `B` still has `b4`. -/
theorem unshared_group_edit_needs_hypotheses :
    -- (1) hit = some covering text is a member
    (let hit := fun (M : List String) => M.contains "10.1.0.0/16" || M.contains "10.1.1.0/24"
     (hit ["10.1.0.0/16"], hit [], hit ["10.1.1.0/24"]) = (true, false, true)) ∧
    (applyMem ["10.1.0.0/16"] ((memOps ["10.1.0.0/16"] ["10.1.1.0/24"] [⟨0, 1, 0, 0⟩, ⟨1, 1, 0, 1⟩]).take 1) = some []) ∧
    -- (2) hit = source in A and destination in B
    (let hit2 := fun (A B : List String) => A.contains "a5" && B.contains "b4"
     (hit2 ["a1", "a2"] ["b3", "b4"], hit2 ["a1", "a2", "a5"] ["b3", "b4"], hit2 ["a1", "a5"] ["b3"]) = (false, true, false)) := by
  refine ⟨by decide, by decide, by decide⟩

/-! ## 14. F-C01d and F-C01e: two further paths with twin groups (found by the final thorough run)

F-C01d: the adopted group WAS referenced.  `findGroupOnDevice` (early loop) adopts `g0-DRC-0` for the inserted copy of
a moved line; the kept line with the twin `g0-DRC-8` re-maps the target's `g0`; the inserted line is printed with
`g0-DRC-8`, so it is no move of the old line (other group name), the old line is deleted, and `g0-DRC-0` — still
`needed` — stays without a reference until the next run.
F-C01e: twins used alternately by kept lines (`g0`, `g0-DRC-8`, `g0`): the second pair re-maps the target's `g0` to
`g0-DRC-8`, the third pair finds `g0` `needed` and the target group `ready` under another name → the line is
replaced.  A device that IS equivalent to the target gets a non-empty script (the next comparison is empty). -/

def y1Line (g : String) : Line := ⟨["permit ip object-group ", " 10.3.3.0 255.255.255.0"], ["permit ip object-group ", " 10.3.3.0 255.255.255.0"], [g]⟩
def y2Line (g : String) : Line := ⟨["permit ip object-group ", " any4"], ["permit ip object-group ", " any4"], [g]⟩
def y3Line : Line := ⟨["permit tcp any4 any4 eq 80"], ["permit tcp any4 any4 eq 80"], []⟩
def exDDev : Config :=
  { intfs := ["outside"], groups := [("g0-DRC-8", ["host 10.1.1.2"]), ("g0-DRC-0", ["host 10.1.1.2"])],
    acls := [("outside_in", [y1Line "g0-DRC-8", y3Line, y2Line "g0-DRC-0"])], binds := [⟨"outside_in", "in", "outside"⟩] }
def exDTgt : Config :=
  { groups := [("g0", ["host 10.1.1.2"])], acls := [("outside_in", [y2Line "g0", y1Line "g0", y3Line])], binds := [⟨"outside_in", "in", "outside"⟩] }
def exDScripts : Scripts :=
  { acl := [(("outside_in", "outside_in"), [⟨0, 0, 0, 1⟩, ⟨0, 2, 1, 3⟩, ⟨2, 3, 3, 3⟩])],
    grp := [(("g0-DRC-8", "g0"), [⟨0, 1, 0, 1⟩]), (("g0-DRC-0", "g0"), [⟨0, 1, 0, 1⟩])] }
def exDScripts2 : Scripts := { acl := [(("outside_in", "outside_in"), [⟨0, 3, 0, 3⟩])], grp := exDScripts.grp }

/-- **`adopted_referenced_group_counterexample`** (F-C01d). -/
theorem adopted_referenced_group_counterexample :
    (engine exDDev exDTgt exDScripts).map (fun r => showChanges r.script) = some [
      "access-list outside_in line 1 extended permit ip object-group g0-DRC-8 any4",
      "no access-list outside_in line 4 extended permit ip object-group g0-DRC-0 any4"] ∧
    ((engine exDDev exDTgt exDScripts).bind fun r => (exec (ofConfig exDDev) r.script).map fun d =>
      (leftovers d, (engine (toConfig d) exDTgt exDScripts2).map (fun r => showChanges r.script))) =
      some (["object-group g0-DRC-0"], some ["no object-group network g0-DRC-0"]) := by
  constructor <;> decide

def zLine (p g : String) : Line := ⟨["deny tcp host 10.1.1.1 object-group ", " eq " ++ p], ["deny tcp host 10.1.1.1 object-group ", " eq " ++ p], [g]⟩
def exEDev : Config :=
  { intfs := ["dmz"], groups := [("g0", ["host 10.4.4.4"]), ("g0-DRC-8", ["host 10.4.4.4"])],
    acls := [("dmz_in", [zLine "22" "g0", zLine "443" "g0-DRC-8", zLine "25" "g0"])], binds := [⟨"dmz_in", "in", "dmz"⟩] }
def exETgt : Config :=
  { groups := [("g0", ["host 10.4.4.4"])], acls := [("dmz_in", [zLine "22" "g0", zLine "443" "g0", zLine "25" "g0"])], binds := [⟨"dmz_in", "in", "dmz"⟩] }
def exEScripts : Scripts :=
  { acl := [(("dmz_in", "dmz_in"), [⟨0, 3, 0, 3⟩])], grp := [(("g0", "g0"), [⟨0, 1, 0, 1⟩]), (("g0-DRC-8", "g0"), [⟨0, 1, 0, 1⟩])] }

/-- **`alternating_twin_groups_counterexample`** (F-C01e): device and target are equivalent (identity scripts), the pair is
outside class ISO (the groups are not paired one to one), the engine re-points the third line to the twin; the
comparison after that is empty. -/
theorem alternating_twin_groups_counterexample :
    isoCheck exEDev exETgt exEScripts = false ∧
    (engine exEDev exETgt exEScripts).map (fun r => showChanges r.script) = some [
      "access-list dmz_in line 3 extended deny tcp host 10.1.1.1 object-group g0-DRC-8 eq 25",
      "no access-list dmz_in line 4 extended deny tcp host 10.1.1.1 object-group g0 eq 25"] ∧
    ((engine exEDev exETgt exEScripts).bind fun r => (exec (ofConfig exEDev) r.script).map fun d =>
      (engine (toConfig d) exETgt exEScripts).map (fun r => showChanges r.script)) = some (some []) := by
  refine ⟨by decide, by decide, by decide⟩

def obligations : List Lean.Name := [
  ``names_fresh, ``names_injective, ``findGroup_sound, ``findGroup_first,
  ``group_equalize_converges, ``group_edit_emits_memOps, ``group_needed_never_edited, ``group_edit_only_if_small,
  ``asa_lines_with_groups_converge, ``merged_list_projects,
  ``objects_before_use, ``tail_acl_before_group,
  ``sem_initial, ``group_equalize_converges_dev, ``equalizedGroups_sound, ``transferGroup_sound,
  ``asa_acl_pair_converges_partial, ``asa_F1_converges_partial, ``deleteUnused_accepted, ``idempotent_counterexample,
  ``asa_F1_converges, ``asa_F1_unchanged_only_if_equivalent, ``asa_F1_resume_partial,
  ``asa_F1_iso_quiet, ``asa_F1_idempotent_partial,
  ``diffUnordered_computes, ``asa_routes_script_is_model, ``asa_routes_phases, ``asa_routes_covered_every_step,
  ``asa_F1_subcommands_in_own_mode, ``asa_F1_member_command_in_parent_mode, ``asa_F1_no_referenced_object_deleted,
  ``two_routes_one_prefix_outside_spec, ``k2_not_closed_under_prefix,
  ``asa_group_edit_before_lines_counterexample, ``needed_group_of_replaced_line_counterexample,
  ``asa_unshared_group_edit_states_bounded, ``asa_unshared_group_edit_keeps_agreed_verdicts, ``unshared_group_edit_needs_hypotheses,
  ``adopted_referenced_group_counterexample, ``alternating_twin_groups_counterexample]

end NA.F1
