import NA.Proofs.F1Names
import NA.Proofs.F1Lines
import NA.Proofs.F1Equalize
/-!
# F1 — the ASA diff engine on the fragment {access-group, access-list + object-group network, route}

Model: `NA/Model/AsaEngine.lean` (`NA.F1.engine`), tied to `cisco/diff.go` by comparing its printed
script with the real `drc` line by line on every generated pair (harness/f1).  Specification side:
`NA/Spec/AsaDev.lean` (strict device).  All theorems are for ALL inputs (no bounds, no samples).

* `names_fresh` — `generateNamesForTransfer`: the generated name is not on the device; different target
  names get different generated names (unconditionally); the index is the first free one.
* `findGroup_sound` — a group adopted by `findGroupOnDevice` is a device group, was not `needed`, and has
  the same members as the target group.
* `group_equalize_converges` — the member commands of the in-place edit of `equalizedGroups`, executed
  strictly, leave exactly the target's member set; `group_edit_only_if_small` / `group_needed_never_edited`:
  the edit happens only if `ins+del ≤ |lb|` and never on a group that is already `needed`;
  `group_edit_emits_memOps`: what the model emits there is that member script.
* `asa_lines_with_groups_converge` — `diffASAACLs` with group references reduces to `planASA` on the merged
  list in which a kept pair with a changed reference is (new-only, old-only); `merged_list_projects`: that
  list contains every device line and every target line exactly once, in order.
* `objects_before_use` — in the script of the whole engine every object-group is created before the first
  line that uses it, nothing is removed before `deleteUnused`, `deleteUnused` adds no line;
  `tail_acl_before_group`: an access list is cleared before a group it references is removed.
* `idempotent_counterexample` — F-C01b, evaluated by the kernel on the model and the strict device.
-/
namespace NA.F1
open NA.AsaDev
open NA.Acl (Range)

/-! ## 1. Generated names -/

theorem names_fresh (base : Name) (dev : List Name) :
    genName base dev ∉ dev ∧ isTagged (genName base dev) = true ∧
    (∀ k, k < firstFree base (dev.length + 1) dev 0 → drcName base k ∈ dev) :=
  ⟨genName_fresh base dev, genName_tagged base dev, genName_least base dev⟩

theorem names_injective {b₁ b₂ : Name} {d₁ d₂ : List Name} (h : genName b₁ d₁ = genName b₂ d₂) : b₁ = b₂ :=
  genName_injective h

example : genName "g0" ["g0-DRC-0", "x", "g0-DRC-1"] = "g0-DRC-2" := by decide
example : genName "g0-DRC-0" ["g0-DRC-0"] = "g0-DRC-0-DRC-0" := by decide

/-! ## 2. `findGroupOnDevice` -/

theorem findGroup_sound (e : Env) (st : St) (bN : Name) : FindResult e st (findGroup e st bN) bN :=
  findGroup_result e st bN

/-- The device's groups are tried in ascending name order and the first match wins. -/
theorem findGroup_first {names needed : List Name} {mA : Name → List String} {mb : List String} {aN : Name}
    (h : findGroupIn names needed mA mb = some aN) :
    aN ∈ names ∧ aN ∉ needed ∧ mA aN = mb := findGroupIn_sound h

/-! ## 3. In-place edit of a group -/

theorem group_equalize_converges (la lb cur : List String) (rs : List Range) (hv : scriptOK la lb rs 0 0 = true)
    (hna : la.Nodup) (hnb : lb.Nodup) (hcur : cur.Perm la) (hdisj : ∀ m ∈ inssOf lb rs, m ∉ delsOf la rs) :
    ∃ l', applyMem cur (memOps la lb rs) = some l' ∧ l'.Perm lb :=
  memOps_converge la lb cur rs hv hna hnb hcur hdisj

theorem group_edit_emits_memOps (aN : Name) (la lb : List String) (rs : List Range) (st : St) :
    (editMembers st aN la lb rs).out.filterMap chgMem = st.out.filterMap chgMem ++ memOps la lb rs :=
  editMembers_mem aN la lb rs st

theorem group_needed_never_edited (e : Env) (st : St) (aN bN : Name) (h : st.gNeeded.contains aN = true) :
    (equalizedGroups e st aN bN).1.out = st.out := equalize_needed_never_edited e st aN bN h

theorem group_edit_only_if_small (e : Env) (st : St) (aN bN : Name)
    (h : (equalizedGroups e st aN bN).1.out ≠ st.out) :
    st.gNeeded.contains aN = false ∧
    (scriptStat (lookupD e.sc.grp (aN, bN))).1 + (scriptStat (lookupD e.sc.grp (aN, bN))).2 ≤ (e.bMembers bN).length ∧
    aN ∈ (equalizedGroups e st aN bN).1.gNeeded ∧ bN ∈ (equalizedGroups e st aN bN).1.gReady ∧
    (equalizedGroups e st aN bN).1.gNameOf bN = aN ∧ (equalizedGroups e st aN bN).2 = true :=
  equalize_edit_only_if_small e st aN bN h

/-- Non-vacuity: device group {1,2,4}, target {1,3,4}: delete 2, insert 3. -/
example : scriptOK ["h1", "h2", "h4"] ["h1", "h3", "h4"] [⟨0, 1, 0, 1⟩, ⟨1, 2, 1, 1⟩, ⟨2, 2, 1, 2⟩, ⟨2, 3, 2, 3⟩] 0 0 = true := by decide
example : applyMem ["h4", "h1", "h2"] (memOps ["h1", "h2", "h4"] ["h1", "h3", "h4"]
    [⟨0, 1, 0, 1⟩, ⟨1, 2, 1, 1⟩, ⟨2, 2, 1, 2⟩, ⟨2, 3, 2, 3⟩]) = some ["h4", "h1", "h3"] := by decide
/-- The hypothesis "no member is both deleted and inserted" is needed: a (non-optimal) script that inserts
`h1` before deleting it is refused by the strict device. -/
example : applyMem ["h1"] (memOps ["h1"] ["h1"] [⟨0, 0, 0, 1⟩, ⟨0, 1, 1, 1⟩]) = none := by decide

/-! ## 4. Lines with groups -/

theorem asa_lines_with_groups_converge (cells : List MCell) (mkeys : List String)
    (hlen : mkeys.length = cells.length)
    (hold : DistinctOn cells mkeys cellOld) (hnew : DistinctOn cells mkeys cellNew) :
    NA.Acl.asaExec (NA.Acl.olds (encodeCells cells mkeys)) (NA.Acl.planASA (encodeCells cells mkeys))
      = some (NA.Acl.news (encodeCells cells mkeys)) :=
  lines_with_groups_converge cells mkeys hlen hold hnew

theorem merged_list_projects (e : Env) (al bl : List Line) (rs : List Range) (st : St)
    (h : scriptOK (al.map (·.body)) (bl.map (·.body)) rs 0 0 = true) :
    (cellsPhase e al bl rs st []).2.filterMap cellA = List.range' 0 al.length ∧
    (cellsPhase e al bl rs st []).2.filterMap cellB = List.range' 0 bl.length := by
  have := cellsPhase_proj e al bl rs 0 0 st [] h
  simpa using this

/-- Non-vacuity: a kept pair whose group changed (cell 0/1) and an unchanged pair. -/
example : NA.Acl.planASA (encodeCells [.ins 0, .del 0, .keep 1 1] ["x gNew", "x gOld", "y"]) =
    [.add 0 ⟨0, 0, true, false, 0⟩, .del 1 ⟨1, 1, true, false, 0⟩] := by decide

/-! ## 5. Order of creation, use and removal in the whole script (C08) -/

theorem objects_before_use (a b : Config) (sc : Scripts) (r : Result) (hA : RefsClosedA ⟨a, b, sc⟩)
    (h : engine a b sc = some r) :
    ∃ body tail, r.script = body ++ tail ∧ createdBeforeUse (a.groups.map (·.1)) r.script = true ∧
      (∀ c ∈ body, removesObject c = false) ∧ (∀ c ∈ tail, TailCmd c) :=
  engine_order a b sc r hA h

theorem tail_acl_before_group (e : Env) (st : St) (managed : List Nat) :
    ∃ cs, (deleteUnused e st managed).out = st.out ++ cs ∧ cs.Pairwise (TailRel e) :=
  deleteUnused_order e st managed

/-! ## 6. F-C01b: idempotence in one run is false (kernel-evaluated on model + strict device) -/

def exLine (proto port g : String) : Line :=
  ⟨["permit " ++ proto ++ " object-group ", " any4 eq " ++ port], ["permit " ++ proto ++ " object-group ", " any4 eq " ++ port], [g]⟩

/-- Device: two identical groups, `oldg0` referenced, `g0-DRC-7` left over. -/
def exDev : Config :=
  { intfs := ["inside"], groups := [("oldg0", ["host 10.1.1.1"]), ("g0-DRC-7", ["host 10.1.1.1"])], acls := [("inside_in", [exLine "tcp" "22" "oldg0"])], binds := [⟨"inside_in", "in", "inside"⟩] }

/-- Target: one more line, using the same group. -/
def exTgt : Config :=
  { groups := [("g0", ["host 10.1.1.1"])], acls := [("inside_in", [exLine "udp" "53" "g0", exLine "tcp" "22" "g0"])], binds := [⟨"inside_in", "in", "inside"⟩] }

def exScripts : Scripts :=
  { acl := [(("inside_in", "inside_in"), [⟨0, 0, 0, 1⟩, ⟨0, 1, 1, 2⟩])], grp := [(("oldg0", "g0"), [⟨0, 1, 0, 1⟩]), (("g0-DRC-7", "g0"), [⟨0, 1, 0, 1⟩])] }

/-- Scripts of the second compare (the ACLs are equal now). -/
def exScripts2 : Scripts :=
  { acl := [(("inside_in", "inside_in"), [⟨0, 2, 0, 2⟩])], grp := [(("oldg0", "g0"), [⟨0, 1, 0, 1⟩]), (("g0-DRC-7", "g0"), [⟨0, 1, 0, 1⟩])] }

example : RefsClosedA ⟨exDev, exTgt, exScripts⟩ := RefsClosedA.of_check (by decide)

/-- The device after executing the first script on the strict device. -/
def exAfter : Option Dev := (engine exDev exTgt exScripts).bind fun r => exec (ofConfig exDev) r.script

/-- The first run adopts the left-over group for the new line early, then renames the target group to
`oldg0`; its script is one line, accepted by the strict device; the result is equivalent to the target
(same expanded view) — but the left-over generated group `g0-DRC-7` is still there, and a second
compare of that device is not empty. -/
theorem idempotent_counterexample :
    (engine exDev exTgt exScripts).map (fun r => showChanges r.script) =
      some ["access-list inside_in line 1 extended permit udp object-group oldg0 any4 eq 53"] ∧
    exAfter.map (fun d' =>
      (view d' [("in", "inside")] false == view (ofConfig { exTgt with intfs := ["inside"] }) [("in", "inside")] false,
       leftovers d',
       (engine (toConfig d') exTgt exScripts2).map (fun r => showChanges r.script))) =
      some (true, ["object-group g0-DRC-7"], some ["no object-group network g0-DRC-7"]) := by
  constructor <;> decide

def obligations : List Lean.Name := [
  ``names_fresh, ``names_injective, ``findGroup_sound, ``findGroup_first,
  ``group_equalize_converges, ``group_edit_emits_memOps, ``group_needed_never_edited, ``group_edit_only_if_small,
  ``asa_lines_with_groups_converge, ``merged_list_projects,
  ``objects_before_use, ``tail_acl_before_group, ``idempotent_counterexample]

end NA.F1
