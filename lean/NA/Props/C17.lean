import NA.Proofs.C17Sinks
import NA.Proofs.C17Xml
import NA.Proofs.C17Ssh
/-!
# C17 — passwords and API keys never reach logs, history or terminal

Property theorems only.  All statements are *non-interference* statements: the content of a sink
computed with one secret equals the content computed with any other secret, for every surrounding
text and every behaviour of the device that is not itself a function of the secret.

Secrets and their alphabets
* login password `p` — **any** byte string (it only ever travels through `url.QueryEscape`);
* PAN-OS API key `k` — **any** byte string in the session logs (since fixes c4a38c5, bb66815; before, a key
  with `&` or a line break was partly logged: `api_key_amp_counterexample_before_fix`,
  `key_newline_counterexample_before_fix`);
* NSX session token / cookie, SSH password — any byte string.

What is **false** of the unchanged code (finding F-C17): after a successful PAN-OS login a transport
error of `http.Client.Get` is returned unmasked; its text embeds the request URL with `key=<key>` and
ends in the run log (`ERROR>>> …`), from there in the history (`RES:`) and on stdout:
`sinks_independent_counterexample`, `transport_error_reveals_key`.  Everything else is proved:
`sinks_independent_partial` (hypothesis: exactly the complement `leakPath = false`).
-/
namespace NA.C17
open NA.Mask

/-! ## the masking functions -/

/-- `.login`, first entry of `getAPIKey`: the logged keygen URL is the same for all passwords. -/
theorem mask_uri_independent (addr user p1 p2 : Str) :
    doLog (maskPass (keygenUri addr user p1)) = doLog (maskPass (keygenUri addr user p2)) := by
  rw [maskPass_keygenUri addr user p1 p2]

/-- The general form: `passRE` hides whatever stands between `password=` and the next `&`. -/
theorem mask_pass_independent (pre post : Str) {e1 e2 : Str} (h1 : Safe e1) (h2 : Safe e2) :
    maskPass (pre ++ (litPass ++ (e1 ++ '&' :: post))) = maskPass (pre ++ (litPass ++ (e2 ++ '&' :: post))) :=
  maskLazy_independent litPass true safe_litPass h1 h2 pre post

/-- Every later request URL (`httpPrefixGetLog`): the logged URL is the same for ALL keys (it is built
from the prefix with the key already replaced, fix c4a38c5). -/
theorem mask_api_uri_independent (addr uri k1 k2 : Str) (r : Reply) :
    (prefixGet (logPrefix addr) (urlPrefix addr k1) uri r).1 = (prefixGet (logPrefix addr) (urlPrefix addr k2) uri r).1 :=
  prefixGet_log addr uri k1 k2 r

/-- `.login`, second entry of `getAPIKey`: the logged keygen response is the same for ALL keys (line breaks
included, fix bb66815), whatever surrounds the `<key>` element. -/
theorem mask_body_independent (pre post k1 k2 : Str) :
    doLog (maskKey (keyBody pre k1 post)) = doLog (maskKey (keyBody pre k2 post)) := by
  unfold keyBody
  rw [maskKey_independent k1 k2 pre post]

/-- The error `getAPIKey` returns after a transport error (it ends as `WARNING>>> API key Get "…"`)
is the same for all passwords. -/
theorem mask_error_independent (addr user p1 p2 msg : Str) :
    maskPass (urlError sGet (keygenUri addr user p1) msg) = maskPass (urlError sGet (keygenUri addr user p2) msg) :=
  maskPass_urlError sGet addr user p1 p2 msg

/-- `getAPIKey` as a whole: log entries and returned error, for every reply of the device. -/
theorem keygen_independent (addr user p1 p2 : Str) (r : Reply) :
    keygen addr user p1 r = keygen addr user p2 r :=
  keygen_pass_independent addr user p1 p2 r

/-- `getAPIKey` when the keygen request fails AFTER the `<key>` element arrived (connection lost while
the rest of the body is read): log entries and returned error are the same for all keys. -/
theorem keygen_truncated_independent (addr user pass pre post m k1 k2 : Str) :
    keygen addr user pass (.trunc (keyBody pre k1 post) m) = keygen addr user pass (.trunc (keyBody pre k2 post) m) :=
  keygen_log_key_independent_trunc addr user pass pre post m k1 k2

/-- … and for a status other than 200 whose body holds a `<key>` element the `.login` entries are the
same (the returned error quotes the rejected body; no key was obtained in that case). -/
theorem keygen_status_log_independent (addr user pass pre post : Str) (c : Nat) (k1 k2 : Str) :
    (keygen addr user pass (.status c (keyBody pre k1 post))).1 =
      (keygen addr user pass (.status c (keyBody pre k2 post))).1 :=
  keygen_log_key_independent_status addr user pass pre post c k1 k2

/-- `httpPrefixGetLog`: the returned error, unless the reply is a transport error. -/
theorem prefix_get_error_independent_partial (addr uri k1 k2 : Str) (r : Reply) (hr : r.isTerr = false) :
    (prefixGet (logPrefix addr) (urlPrefix addr k1) uri r).2 = (prefixGet (logPrefix addr) (urlPrefix addr k2) uri r).2 :=
  prefixGet_err addr uri k1 k2 r hr

/-- F-C17 at the level of the function: the error returned for a transport error contains the key. -/
theorem transport_error_reveals_key (addr uri k msg : Str) (hk : ∀ c ∈ k, c ≠ '"' ∧ c ≠ '\\') :
    ∃ a b, (prefixGet (logPrefix addr) (urlPrefix addr k) uri (.terr msg)).2 = some (a ++ k ++ b) := by
  refine ⟨sGet ++ ' ' :: '"' :: goQuote (addr ++ "/api/?key=".toList), '&' :: goQuote uri ++ '"' :: ':' :: ' ' :: msg, ?_⟩
  simp only [prefixGet, urlError, urlPrefix, goQuote_append, goQuote_id hk, goQuote_cons_amp, List.append_assoc,
    List.cons_append, List.nil_append]

/-- **A device that quotes the request in its answer** (an error text echoing the URL with `password=` /
`key=`, the form body, the cookie) reveals the secret itself: the replies of all theorems above are the
same in both runs, i.e. they do not depend on the secret — and that is necessary.  Here the keygen
answer quotes the request URL; the `.login` entries differ.  (Observed on the real code with such a
simulated device, faults `quote:url:*`: the secret stands in the sinks exactly inside the quotation, where
the model run on the same replies puts it; a quotation without credentials, `quote:cmd:*`, stays clean.) -/
theorem reply_quoting_request_counterexample :
    let body (p : Str) : Str :=
      "<response status='error'><msg>Invalid request QUOTED[/api?password=".toList ++ p ++ "&type=keygen]QUOTED</msg></response>".toList
    keygen "https://h".toList "admin".toList "pw1".toList (.fail (body "pw1".toList) "No success".toList) ≠
      keygen "https://h".toList "admin".toList "pw2".toList (.fail (body "pw2".toList) "No success".toList) := by decide

/-- **F-C17c (fixed, c4a38c5)**: with the regexp `[?]key=.*?&` the logged request URL showed what stands
behind an `&` of the key. -/
theorem api_key_amp_counterexample_before_fix :
    maskApiOld (urlPrefix "https://h".toList "A&Secret1".toList ++ "type=op".toList) ≠
      maskApiOld (urlPrefix "https://h".toList "A&Secret2".toList ++ "type=op".toList) := by decide

/-- **F-C17d (fixed, bb66815)**: without flag `s` the regexp `<key>.*</key>` left a key with a line break
unmasked in `.login`. -/
theorem key_newline_counterexample_before_fix :
    maskKeyOld (keyBody [] "A\nSecret1".toList []) ≠ maskKeyOld (keyBody [] "A\nSecret2".toList []) := by decide

/-! ## NSX -/

/-- The `.login` entries of an NSX login do not depend on the password. -/
theorem nsx_login_log_independent (pre user p1 p2 st : Str) :
    nsxLoginLog pre user p1 st = nsxLoginLog pre user p2 st := rfl

/-- A whole NSX run: password, session token and cookie reach no sink, for every device behaviour
(transport errors included: their text embeds the URL, which carries no secret). -/
theorem nsx_sinks_independent (pre user name p1 p2 t1 t2 c1 c2 : Str) (lg : NsxLogin)
    (reqs : List NsxReq) (reps : List Reply) :
    allSinks (nsxRun pre user p1 t1 c1 name lg reqs reps) = allSinks (nsxRun pre user p2 t2 c2 name lg reqs reps) := by
  cases lg <;> rfl

/-! ## SSH devices -/

/-- What a `console.Conn` writes to any sink is a function of the device output (and of the abort
texts) alone: erasing everything that was sent changes nothing. -/
theorem ssh_log_is_device_output_only (ops : List Op) :
    sshRun (ops.map Op.erase) = sshRun ops :=
  sshRun_erase ops

/-- Two sessions that differ only in what was sent (login password, enable password) leave the
same sinks. -/
theorem ssh_sinks_independent (ops1 ops2 : List Op) (h : ops1.map Op.erase = ops2.map Op.erase) :
    allSinks (sshRun ops1) = allSinks (sshRun ops2) := by
  rw [← sshRun_erase ops1, ← sshRun_erase ops2, h]

/-- While logging goes to `.login` the file is the concatenation of the expected chunks
(`\r\n` → `\n`), nothing else. -/
theorem ssh_login_log_is_expected_output (ops : List Op) (h : noSetLog ops = true) :
    (sshRun ops).login = (expects ops).map crlf2lf ∧ (sshRun ops).config = [] ∧ (sshRun ops).change = [] := by
  have := sshRun_login_aux ops h {} rfl
  simpa [sshRun] using this

/-- **Step model of the SSH sessions.**  For every dialogue program of the step language (the
password is a symbolic command), every device behaviour (sequence of complete or cut-off segments),
every tail: two sessions with different passwords leave the same sinks — session logs per file, run
log with the abort text of the step that failed, history, stdout. -/
theorem ssh_program_independent (prog : Prog) (p1 p2 errText : Str) (segs : List Seg) (applies : Bool)
    (tl : List (Str × Option Str)) (tailAbort : Str) :
    allSinks (sshRun (sessionOps prog p1 errText segs applies tl tailAbort)) =
      allSinks (sshRun (sessionOps prog p2 errText segs applies tl tailAbort)) :=
  ssh_sinks_independent _ _ (sessionOps_erase prog p1 p2 errText segs applies tl tailAbort)

/-- … in particular for the three modelled back ends: `cisco.LoginEnable` + `asa/ios.LoadDevice`,
`linux.loginEnable` + `linux.LoadDevice`, step by step as in the code. -/
theorem ssh_session_independent (dt : DevType) (host banner p1 p2 errText : Str) (segs : List Seg)
    (applies : Bool) (tl : List (Str × Option Str)) (tailAbort : Str) :
    allSinks (sshRun (sessionOps (loadProg dt host banner) p1 errText segs applies tl tailAbort)) =
      allSinks (sshRun (sessionOps (loadProg dt host banner) p2 errText segs applies tl tailAbort)) :=
  ssh_program_independent _ p1 p2 errText segs applies tl tailAbort

/-! ### devices that echo what they receive -/

/-- **State machine of the login dialogue** (`cisco.LoginEnable` after fix d8ddbd1, `linux.loginEnable`,
and everything behind them up to the end of `LoadDevice`): for every device the password is only ever
sent immediately after an expect whose chunk ends in `password:`. -/
theorem password_sent_only_at_password_prompt (dt : DevType) (host banner : Str) :
    Guarded false (loadProg dt host banner) := by
  cases dt
  · exact guarded_asaLoad host
  · exact guarded_iosLoad host
  · exact guarded_linuxLoad host banner

/-- **Echoing devices.**  The device may echo any line it receives (as real devices do with commands).
For every program that sends the password only at password prompts and every device that does not
echo what it receives right after a password prompt (`noEchoAtPasswordPrompt`), the sinks are the
same for any two passwords. -/
theorem ssh_echo_device_independent (prog : Prog) (hg : Guarded false prog) (p1 p2 : Str) (dev : EDev)
    (hdev : noEchoAtPasswordPrompt dev = true) :
    allSinks (sshRun (runE p1 prog [] dev)) = allSinks (sshRun (runE p2 prog [] dev)) :=
  ssh_sinks_independent _ _ (runE_erase p1 p2 hg [] [] dev (Or.inl rfl) (fun h => by cases h) hdev)

/-- … in particular for the three back ends. -/
theorem ssh_echo_session_independent (dt : DevType) (host banner p1 p2 : Str) (dev : EDev)
    (hdev : noEchoAtPasswordPrompt dev = true) :
    allSinks (sshRun (runE p1 (loadProg dt host banner) [] dev)) =
      allSinks (sshRun (runE p2 (loadProg dt host banner) [] dev)) :=
  ssh_echo_device_independent _ (password_sent_only_at_password_prompt dt host banner) p1 p2 dev hdev

/-! ## the change phase of an SSH session

After login and reading the configuration the back end sends the commands of the change script
(computed from the device configuration and the Netspoc code) with `console.Conn.Send`; the device's
echo and answers go to `.change`.  `sessionProg` is the login program followed by these steps. -/

/-- **Change phase**: its steps — hence everything it writes to `.change`, to the run log, to history
and stdout — are a function of the script, of what the device writes (`dev`: per step the text, whether
it echoes the line received, leftover blanks) and of nothing else: the password is not an argument, for
any device, echoing or not.  So the password can stand in `.change` only if the script or the device
output contains it — which the harness checks per run. -/
theorem ssh_change_phase_password_free (p1 p2 : Str) (applies : Bool) (script : List Str) (last1 last2 : Str)
    (dev : EDev) :
    runE p1 (changeProg applies script) last1 dev = runE p2 (changeProg applies script) last2 dev :=
  runE_changeProg p1 p2 applies script last1 last2 dev

/-- The change phase never sends the password (state machine property of the whole session). -/
theorem ssh_session_with_changes_guarded (dt : DevType) (host banner : Str) (applies : Bool) (script : List Str) :
    Guarded false (sessionProg dt host banner applies script) :=
  (password_sent_only_at_password_prompt dt host banner).andThen (guarded_changeProg applies script)

/-- **Whole session with changes on an echoing device**: login, configuration and change script; for
the same script and the same device behaviour (neither depends on the password: hypothesis of the
run, checked by the harness) all sinks are the same for any two passwords. -/
theorem ssh_session_with_changes_independent (dt : DevType) (host banner p1 p2 : Str) (applies : Bool)
    (script : List Str) (dev : EDev) (hdev : noEchoAtPasswordPrompt dev = true) :
    allSinks (sshRun (runE p1 (sessionProg dt host banner applies script) [] dev)) =
      allSinks (sshRun (runE p2 (sessionProg dt host banner applies script) [] dev)) :=
  ssh_echo_device_independent _ (ssh_session_with_changes_guarded dt host banner applies script) p1 p2 dev hdev

/-- The hypothesis "the script does not contain the secret" is necessary: a script that holds the
password (because the Netspoc code or the device configuration holds it) is echoed into `.change`. -/
theorem change_script_with_secret_counterexample :
    ∃ dev : EDev, noEchoAtPasswordPrompt dev = true ∧
      (sshRun (runE [] (changeProg true ["username x password pw1".toList]) [] dev)).change ≠
        (sshRun (runE [] (changeProg true ["username x password pw2".toList]) [] dev)).change :=
  ⟨[([], "\nrouter#".toList, true)], by decide, by decide⟩

/-- Not vacuous: two commands on an echoing device — `.change` holds echo and prompt of each, both
commands are sent, nothing goes to `.login`. -/
example :
    let ops := runE "pw".toList (changeProg true ["no access-list 1".toList, "end".toList]) []
      [([], "\nrouter(config)#".toList, true), ([' '], "\nrouter#".toList, true)]
    (sshRun ops).change = ["no access-list 1\n\nrouter(config)#".toList, " end\n\nrouter#".toList] ∧
      sendsOf ops = ["no access-list 1".toList, "end".toList] ∧ (sshRun ops).login = [] := by decide

/-- The hypothesis is necessary: a device that echoes what is typed at its password prompt puts the
password into `.login` (outside the guarantee; observed on the real code with such a simulated device). -/
theorem ssh_echo_at_password_prompt_counterexample :
    ∃ dev : EDev, noEchoAtPasswordPrompt dev = false ∧
      (sshRun (runE "pw1".toList (iosLoad "router".toList) [] dev)).login ≠
        (sshRun (runE "pw2".toList (iosLoad "router".toList) [] dev)).login :=
  ⟨[([], "Enter Password:".toList, false), ([], "\nbanner motd\nrouter>".toList, true)], by decide, by decide⟩

/-- **Finding F-C17b (fixed, d8ddbd1)**: with the login code as it was, a device that refuses `enable`
without asking for a password (IOS `% No password set`, prompt stays `>`) and echoes commands — but
never anything typed at a password prompt — gets the login password as a command and echoes it into
`.login`. -/
theorem enable_without_prompt_counterexample :
    ∃ dev : EDev, noEchoAtPasswordPrompt dev = true ∧
      (sshRun (runE "pw1".toList iosLoadOld [] dev)).login ≠ (sshRun (runE "pw2".toList iosLoadOld [] dev)).login ∧
      (sshRun (runE "pw1".toList (iosLoad "router".toList) [] dev)).login =
        (sshRun (runE "pw2".toList (iosLoad "router".toList) [] dev)).login :=
  ⟨[([], "Enter Password:".toList, false), ([], "\nbanner motd\nrouter>".toList, false),
     ([], "% No password set\nrouter>".toList, true), ([], "% Unknown command\nrouter>".toList, true)],
    by decide, by decide, by decide⟩

/-- … so that code did not have the state-machine property. -/
theorem old_login_not_guarded : ¬ Guarded false iosLoadOld := by
  intro hg
  obtain ⟨dev, hdev, hne, _⟩ := enable_without_prompt_counterexample
  have := ssh_echo_device_independent iosLoadOld hg "pw1".toList "pw2".toList dev hdev
  exact hne (congrArg (fun a => a.sessions.login) this)

example : noEchoAtPasswordPrompt [([], "Password:".toList, false), ([' '], "\nType help\nrouter>".toList, false),
    ([], "Password:".toList, true), ([], "\nrouter#".toList, false)] = true := by decide

/-- The step model is not vacuous: an IOS login with enable password sends the password twice and
logs the three prompts to `.login`, nothing else. -/
example :
    let ops := sessionOps (iosLoad "router".toList) "pw".toList [] [.full "Password:".toList, .full "\nrouter>".toList,
      .full "enable\nPassword:".toList, .part "x".toList] false [] []
    sendsOf ops = ["pw".toList, "enable".toList, "pw".toList] ∧
    (sshRun ops).login = ["Password:".toList, "\nrouter>".toList, "enable\nPassword:".toList, "x".toList] := by
  decide

/-! ## PAN-OS: whole runs -/

/-- The statement for whole PAN-OS runs is **false** (F-C17): same password, same device behaviour,
two keys — login and HA check succeed, the config request ends with a dropped connection. -/
theorem sinks_independent_counterexample :
    ∃ (addr user pass name ip k1 k2 : Str) (reqs : List Req) (reps : List Reply),
      allSinks (panosRun addr user pass name ip (.ok (keyBody [] k1 [])) k1 reqs reps) ≠
        allSinks (panosRun addr user pass name ip (.ok (keyBody [] k2 [])) k2 reqs reps) :=
  ⟨"https://h".toList, "admin".toList, "pw".toList, "fw".toList, "10.1.1.1".toList, "KEY1".toList, "KEY2".toList,
    [{ log := .config, uri := "type=config".toList, wrap := [] }], [.ok [], .terr "EOF".toList], by decide⟩

/-- … and the run log line is exactly the pinned shape `ERROR>>> Get "…/api/?key=<key>&…": EOF`. -/
theorem sinks_counterexample_line :
    (panosRun "https://h".toList "admin".toList "pw".toList "fw".toList "10.1.1.1".toList
        (.ok (keyBody [] "KEY1".toList [])) "KEY1".toList
        [{ log := .config, uri := "type=config".toList, wrap := [] }] [.ok [], .terr "EOF".toList]).runlog =
      ["ERROR>>> Get \"https://h/api/?key=KEY1&type=config\": EOF".toList] := by decide

/-- **Whole PAN-OS runs, everything except the F-C17 path**: for all passwords, ALL keys (any bytes),
every keygen response around `<key>K</key>`, every request list and every sequence of
replies that does not run into a transport error after login and HA check — all sinks (session logs,
run log, history `RES:` lines, stdout) are equal. -/
theorem sinks_independent_partial (addr user p1 p2 name ip pre post k1 k2 : Str)
    (reqs : List Req) (reps : List Reply)
    (hpath : leakPath (.ok (keyBody pre k1 post)) reqs reps = false) :
    allSinks (panosRun addr user p1 name ip (.ok (keyBody pre k1 post)) k1 reqs reps) =
      allSinks (panosRun addr user p2 name ip (.ok (keyBody pre k2 post)) k2 reqs reps) := by
  congr 1
  unfold panosRun
  rw [keygen_pass_independent addr user p1 p2, keygen_key_independent addr user p2 pre post k1 k2]
  cases hkg : keygen addr user p2 (.ok (keyBody pre k2 post)) with
  | mk lg e =>
    cases e with
    | some m => rfl
    | none =>
      simp only
      cases reps with
      | nil => rfl
      | cons ha rest =>
        simp only [prefixGet_log addr sHaUri k1 k2 ha]
        cases ha with
        | ok b =>
          simp only
          exact panosReqs_independent addr k1 k2 reqs rest _ (by simpa [leakPath] using hpath)
        | terr m => rfl
        | status c b => rfl
        | fail b m => rfl
        | trunc b m => rfl

/-- A transport error of the HA status request (the request right after a successful keygen) reveals
nothing: `checkHA` drops the error. -/
theorem ha_check_transport_error_independent (addr user p1 p2 name ip pre post m k1 k2 : Str)
    (reqs : List Req) (rest : List Reply) :
    allSinks (panosRun addr user p1 name ip (.ok (keyBody pre k1 post)) k1 reqs (.terr m :: rest)) =
      allSinks (panosRun addr user p2 name ip (.ok (keyBody pre k2 post)) k2 reqs (.terr m :: rest)) :=
  sinks_independent_partial addr user p1 p2 name ip pre post k1 k2 reqs (.terr m :: rest) rfl

/-! ## the key is what the (modelled) parser extracts — no assumption `parseAPIKey body = K` -/

/-- The modelled `parseAPIKey` (lexer, element stack, last-child-wins field assignment of
`encoding/xml`) returns exactly `k` for every PAN-OS keygen answer
`<response status = 'success'> <result> <key>k</key> </result> </response>`: any white space at the
nine places, either quote, any key of plain bytes, anything behind the root element. -/
theorem parse_api_key_returns_key {w0 w1 w2 w3 w4 w5 w6 w7 : Str} (q : Char) {k : Str} (tail : Str)
    (h0 : PWs w0) (h1 : PWs w1) (h2 : PWs w2) (h3 : PWs w3) (h4 : PWs w4) (h5 : PWs w5) (h6 : PWs w6) (h7 : PWs w7)
    (hq : q = '"' ∨ q = '\'') (hk : Plain k) :
    parseAPIKeyM (stdKeygen w0 w1 w2 q w3 w4 w5 k w6 w7 tail) = .ok k :=
  parseAPIKeyM_stdKeygen q tail h0 h1 h2 h3 h4 h5 h6 h7 hq hk

/-! ## every spelling of the key element (F-C17e) -/

/-- `.login`, keygen response: for every spelling of the tags that the matcher takes for an opening tag of
`key` (`OpenForm`: e.g. `<key>`, `<key ATTRIBUTES>`, `<x:key>`) and a closing tag (`CloseForm`: `</key>`,
`</key >`, `</x:key>`), whatever surrounds the element, the logged response is the same for all keys. -/
theorem mask_body_spellings_independent {o cl : Str} (ho : OpenForm o) (hc : CloseForm cl) (pre post k1 k2 : Str) :
    doLog (maskKey (pre ++ (o ++ (k1 ++ (cl ++ post))))) = doLog (maskKey (pre ++ (o ++ (k2 ++ (cl ++ post))))) := by
  rw [maskKey_forms_independent ho hc k1 k2 pre post]

/-- … in particular with any attributes (no `>` in them) and a blank in the closing tag, or a namespace
prefix (not vacuous: the forms exist). -/
theorem mask_body_attributes_independent (a : Str) (ha : '>' ∉ a) (pre post k1 k2 : Str) :
    doLog (maskKey (pre ++ ('<' :: 'k' :: 'e' :: 'y' :: ' ' :: (a ++ ['>']) ++ (k1 ++ ("</key >".toList ++ post))))) =
      doLog (maskKey (pre ++ ('<' :: 'k' :: 'e' :: 'y' :: ' ' :: (a ++ ['>']) ++ (k2 ++ ("</key >".toList ++ post))))) :=
  mask_body_spellings_independent (openForm_attrs a ha) closeForm_blank pre post k1 k2

example (pre post k1 k2 : Str) :
    doLog (maskKey (pre ++ ("<x:key>".toList ++ (k1 ++ ("</x:key>".toList ++ post))))) =
      doLog (maskKey (pre ++ ("<x:key>".toList ++ (k2 ++ ("</x:key>".toList ++ post))))) :=
  mask_body_spellings_independent openForm_ns closeForm_ns pre post k1 k2

/-- **Truncated keygen answer** (connection lost inside the key element): everything behind `<key>` is
masked, so the logged text is the same for all keys and whatever part of the answer arrived — as long as
that part holds no closing tag of `key` (decidable; plain keys never do). -/
theorem mask_body_truncated_independent_partial (pre k1 k2 : Str) (h1 : lastClose k1 = none) (h2 : lastClose k2 = none) :
    doLog (maskKey (pre ++ (litOpen ++ k1))) = doLog (maskKey (pre ++ (litOpen ++ k2))) := by
  rw [maskKey_truncated_independent k1 k2 pre h1 h2]

example : lastClose "LUFRPT1Secret12==".toList = none ∧ lastClose "LUFRPT1Sec".toList = none := by decide

/-- **F-C17e (fixed, 2766620)**: with the regexp `(?s)<key>.*</key>` a keygen answer that spells the element
with an attribute was accepted by the parser — key `Secret12` — and logged to `.login` as it came; the
regexp of the fix masks it. -/
theorem key_element_spelling_counterexample_before_fix :
    let body := "<response status='success'><result><key a='1'>Secret12</key></result></response>".toList
    parseAPIKeyM body = .ok "Secret12".toList ∧ maskKeyLit body = body ∧
      maskKey body = "<response status='success'><result><key>xxx</key></result></response>".toList := by decide

/-- … and a truncated answer (connection lost inside the key element: no closing tag) was logged
unmasked; now everything behind the opening tag is masked. -/
theorem truncated_key_counterexample_before_fix :
    maskKeyLit "<result><key>Secret12Secret".toList = "<result><key>Secret12Secret".toList ∧
      maskKey "<result><key>Secret12Secret".toList = "<result><key>xxx</key>".toList := by decide

/-- Whole PAN-OS runs in which the key used for the later requests is the one the modelled parser
extracts from the keygen answer: all sinks equal, outside the F-C17 path. -/
theorem sinks_independent_parsed_partial (addr user p1 p2 name ip : Str)
    {w0 w1 w2 w3 w4 w5 w6 w7 : Str} (q : Char) {k1 k2 : Str} (tail : Str)
    (h0 : PWs w0) (h1 : PWs w1) (h2 : PWs w2) (h3 : PWs w3) (h4 : PWs w4) (h5 : PWs w5) (h6 : PWs w6) (h7 : PWs w7)
    (hq : q = '"' ∨ q = '\'') (hk1 : Plain k1) (hk2 : Plain k2)
    (reqs : List Req) (reps : List Reply)
    (hpath : leakPath (.ok []) reqs reps = false) :
    allSinks (panosRunParsed addr user p1 name ip (stdKeygen w0 w1 w2 q w3 w4 w5 k1 w6 w7 tail) reqs reps) =
      allSinks (panosRunParsed addr user p2 name ip (stdKeygen w0 w1 w2 q w3 w4 w5 k2 w6 w7 tail) reqs reps) := by
  unfold panosRunParsed
  rw [parseAPIKeyM_stdKeygen q tail h0 h1 h2 h3 h4 h5 h6 h7 hq hk1,
    parseAPIKeyM_stdKeygen q tail h0 h1 h2 h3 h4 h5 h6 h7 hq hk2]
  obtain ⟨pre, post, hb⟩ := stdKeygen_keyBody w0 w1 w2 q w3 w4 w5 k1 w6 w7 tail
  simp only [hb k1, hb k2]
  have hl : leakPath (.ok (keyBody pre k1 post)) reqs reps = leakPath (.ok []) reqs reps := by
    cases reps with
    | nil => rfl
    | cons r rs => cases r <;> rfl
  exact sinks_independent_partial addr user p1 p2 name ip pre post k1 k2 reqs reps (hl.trans hpath)

example : PWs [' ', '\n', '\t'] := by unfold PWs; decide
example : Plain "LUFRPT14MW5xOEo1R09KVlBZ+/=".toList := by unfold Plain; decide
example : parseAPIKeyM "<response status = 'success'>\n <result><key>LUFRPT=</key></result>\n</response>\n".toList =
    .ok "LUFRPT=".toList := by decide

/-- A run whose login fails (any reply that is not a parsed key): no hypothesis on the path is needed,
and the key argument is irrelevant. -/
theorem sinks_independent_login_failure (addr user p1 p2 name ip k1 k2 : Str) (kg : Reply)
    (hkg : ∀ b, kg ≠ .ok b) (reqs : List Req) (reps : List Reply) :
    allSinks (panosRun addr user p1 name ip kg k1 reqs reps) =
      allSinks (panosRun addr user p2 name ip kg k2 reqs reps) := by
  congr 1
  unfold panosRun
  rw [keygen_pass_independent addr user p1 p2]
  cases kg with
  | ok b => exact absurd rfl (hkg b)
  | terr m => rfl
  | status c b => rfl
  | fail b m => rfl
  | trunc b m => rfl

/-- All sinks of all five device types (the statement named in the design): PAN-OS outside the
F-C17 path, NSX and the SSH devices unconditionally. -/
theorem sinks_independent :
    (∀ (addr user p1 p2 name ip pre post k1 k2 : Str) (reqs : List Req) (reps : List Reply),
      leakPath (.ok (keyBody pre k1 post)) reqs reps = false →
      allSinks (panosRun addr user p1 name ip (.ok (keyBody pre k1 post)) k1 reqs reps) =
        allSinks (panosRun addr user p2 name ip (.ok (keyBody pre k2 post)) k2 reqs reps)) ∧
    (∀ (pre user name p1 p2 t1 t2 c1 c2 : Str) (lg : NsxLogin) (reqs : List NsxReq) (reps : List Reply),
      allSinks (nsxRun pre user p1 t1 c1 name lg reqs reps) = allSinks (nsxRun pre user p2 t2 c2 name lg reqs reps)) ∧
    (∀ ops1 ops2 : List Op, ops1.map Op.erase = ops2.map Op.erase → allSinks (sshRun ops1) = allSinks (sshRun ops2)) :=
  ⟨fun addr user p1 p2 name ip pre post k1 k2 reqs reps hp =>
      sinks_independent_partial addr user p1 p2 name ip pre post k1 k2 reqs reps hp,
    nsx_sinks_independent, ssh_sinks_independent⟩

/-! ## the hypotheses are satisfiable -/

example : Safe "LUFRPT14MW5xOEo1R09KVlBZNnpnemh0VHRBOWl6TGM9bXcwM3JHUGVhRlNiY0dCR0srNERUQT09".toList := by
  unfold Safe; decide
example : NoNl "LUFRPT=".toList := by unfold NoNl; decide
example : leakPath (.ok []) [{ log := .config, uri := [], wrap := [] }] [.ok [], .status 500 []] = false := by decide
example : leakPath (.ok []) [{ log := .config, uri := [], wrap := [] }] [.ok [], .terr []] = true := by decide
example : (Reply.status 500 []).isTerr = false := rfl
example : [Op.send "pw1".toList, .expect "x".toList].map Op.erase = [Op.send "pw2".toList, .expect "x".toList].map Op.erase := by
  decide
example : noSetLog [.send [], .expect [], .abort []] = true := rfl
example : ∀ b, Reply.terr "EOF".toList ≠ .ok b := by intro b h; cases h
example : ∀ c ∈ "LUFRPT=".toList, c ≠ '"' ∧ c ≠ '\\' := by decide

def obligations : List Lean.Name := [
  ``mask_uri_independent, ``mask_pass_independent, ``mask_api_uri_independent, ``mask_body_independent,
  ``mask_error_independent, ``keygen_independent, ``keygen_truncated_independent,
  ``keygen_status_log_independent, ``ha_check_transport_error_independent,   ``prefix_get_error_independent_partial, ``transport_error_reveals_key,
  ``reply_quoting_request_counterexample, ``api_key_amp_counterexample_before_fix, ``key_newline_counterexample_before_fix,
  ``mask_body_spellings_independent, ``mask_body_attributes_independent, ``key_element_spelling_counterexample_before_fix,
  ``truncated_key_counterexample_before_fix, ``mask_body_truncated_independent_partial,
  ``nsx_login_log_independent, ``nsx_sinks_independent,
  ``ssh_log_is_device_output_only, ``ssh_sinks_independent, ``ssh_login_log_is_expected_output,
  ``ssh_program_independent, ``ssh_session_independent, ``password_sent_only_at_password_prompt,
  ``ssh_echo_device_independent, ``ssh_echo_session_independent, ``ssh_echo_at_password_prompt_counterexample,
  ``ssh_change_phase_password_free, ``ssh_session_with_changes_guarded, ``ssh_session_with_changes_independent,
  ``change_script_with_secret_counterexample,
  ``enable_without_prompt_counterexample, ``old_login_not_guarded,
  ``sinks_independent_counterexample, ``sinks_counterexample_line, ``sinks_independent_partial,
  ``sinks_independent_login_failure, ``sinks_independent,
  ``parse_api_key_returns_key, ``sinks_independent_parsed_partial]

end NA.C17
