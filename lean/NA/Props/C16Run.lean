import NA.Props.C16Deep
import NA.Proofs.C16Descr
import NA.Gen.MapRangesDescr
/-!
# C16 — whole runs of planning over the loop bodies read off the source

`run_schedule_independent` (Props/C16.lean) is a *conditional* statement: it quantifies over
`Stage`s that carry their order-insensitivity (`inv`) as a field.  This file discharges that field
for the loops of the repository:

* `NA.Gen.MapRangesDescr.descrs` is **regenerated from the source on every run**: for every unsorted
  `range` over a map, what its body (and everything it transitively calls in the module) reads and
  writes where, in the effect language of `NA/Model/MapSiteDescr.lean` — or `opaque` with the reason
  why the translator cannot describe it;
* `runBody_perm` (Proofs/C16Descr.lean) proves order-insensitivity of every described body **for
  every semantics** (`Sem`, `Sem2`: whatever values are computed from the entry and the cells it
  owns), under the two hypotheses `DistinctKeys` (entries of one Go map) and `SeparateEntries`
  (objects reachable from different entries are different; checked dynamically by the harness);
* `stageOf` builds the `Stage` of an invocation of a site by the glue code; for a described site its
  `inv` is **proved**; for a hash-tied site it is an explicit hypothesis of that invocation
  (`HashTied.hinv`);
* `drc_planning_deterministic` applies `run_schedule_independent` to these stages: a run of ANY
  deterministic glue code that executes loops of the regenerated list ends in the same state
  under every two schedules.
-/
namespace NA.C16
open NA.PermFold NA.C16.D NA.Gen.MapRanges NA.Gen.MapRangesDescr

/-! ## The regenerated descriptors talk about the regenerated sites -/

theorem descrs_are_the_sites :
    descrs.map (fun d => (d.file, d.fn, d.mapExpr, d.ord)) = sites.map (fun s => (s.file, s.fn, s.mapExpr, s.ord)) := by
  decide

/-- The sites whose body the translator cannot describe: they stay tied by their hashes and enter
`drc_planning_deterministic` with an explicit hypothesis. Everything else is described. -/
theorem hash_tied_sites :
    (descrs.filter (fun d => !d.body.described)).map (fun d => (d.file, d.fn)) =
      [] := by decide

/-- **Described ⇒ order-insensitive, for every semantics.** The statement that makes a hand-written
row unnecessary: for every site of the regenerated list whose body is described, running the body over
any two permutations of entries with distinct keys and separate objects gives the same program state,
whatever the body computes. -/
theorem described_sites_order_insensitive {K V C : Type} [DecidableEq K] :
    ∀ d, d ∈ descrs → d.body.described = true →
      ∀ (sem : Sem K V) (sem2 : Sem2 K) (p : PState K V C) (es₁ es₂ : List (Entry K)),
        DistinctKeys es₁ → SeparateEntries es₁ → PayloadsAgree d.body sem2 es₁ → NoComplaint d.body sem2 es₁ → es₁.Perm es₂ →
        runBody d.fn d.body sem sem2 p es₁ = runBody d.fn d.body sem sem2 p es₂ :=
  fun d _ _ sem sem2 p _ _ hk hs ha hq perm => runBody_perm d.fn d.body sem sem2 p hk hs ha hq perm

/-! ## Invocations of sites by the glue code -/

/-- The glue code runs the described site number `idx` of the regenerated list on `entries`. -/
structure Described (K V C : Type) where
  idx : Nat
  hidx : idx < descrs.length
  hdescribed : (descrs[idx]).body.described = true
  sem : Sem K V
  sem2 : Sem2 K
  entries : List (Entry K)
  hkeys : DistinctKeys entries
  hsep : SeparateEntries entries
  hagree : PayloadsAgree (descrs[idx]'hidx).body sem2 entries   -- only a `firstPayload` body asks for it
  hquiet : NoComplaint (descrs[idx]'hidx).body sem2 entries    -- only a `guarded` body asks for it
  post : PState K V C → PState K V C      -- deterministic code up to the next loop

/-- The glue code runs a hash-tied site: its order-insensitivity is an **assumption** (`hinv`). -/
structure HashTied (K V C : Type) where
  idx : Nat
  hidx : idx < descrs.length
  hopaque : (descrs[idx]).body.described = false
  entries : List (Entry K)
  body : PState K V C → List (Entry K) → PState K V C
  hinv : ∀ p l, l.Perm entries → body p l = body p entries
  post : PState K V C → PState K V C

inductive Invocation (K V C : Type)
  | described (d : Described K V C)
  | hashTied (h : HashTied K V C)

/-- The stage of an invocation. For a described site `inv` is proved from `runBody_perm`. -/
def stageOf {K V C : Type} [DecidableEq K] : Invocation K V C → Stage (PState K V C) (Entry K)
  | .described d =>
    { entries := fun _ => d.entries
      body := fun p l => d.post (runBody (descrs[d.idx]'d.hidx).fn (descrs[d.idx]'d.hidx).body d.sem d.sem2 p l)
      inv := by
        intro p l hl
        have hk : DistinctKeys l := UniqueKeys.perm hl.symm d.hkeys
        have hs : SeparateEntries l := fun a ha b hb hab i hi =>
          d.hsep a (hl.mem_iff.mp ha) b (hl.mem_iff.mp hb) hab i hi
        have ha : PayloadsAgree (descrs[d.idx]'d.hidx).body d.sem2 l := fun t ht a haa a' haa' =>
          d.hagree t ht a (hl.mem_iff.mp haa) a' (hl.mem_iff.mp haa')
        have hq : NoComplaint (descrs[d.idx]'d.hidx).body d.sem2 l := fun t ht e he =>
          d.hquiet t ht e (hl.mem_iff.mp he)
        rw [runBody_perm _ _ d.sem d.sem2 p hk hs ha hq hl] }
  | .hashTied h =>
    { entries := fun _ => h.entries
      body := fun p l => h.post (h.body p l)
      inv := by intro p l hl; rw [h.hinv p l hl] }

/-- Glue code: which loop of the regenerated list runs next in a given program state (`none` =
finished). Everything between two loops — including every loop over sorted keys — is deterministic
and sits in `post` / in the choice of the next invocation. -/
abbrev Glue (K V C : Type) := PState K V C → Option (Invocation K V C)

/-- **Planning of drc is deterministic.** Whatever the deterministic glue code, whatever values the
loop bodies compute: a run that executes loops of the list regenerated from the source ends in the
same state — change script, messages, exit status — under every two schedules of map iteration
orders. Hypotheses that remain, all explicit in the types: distinct keys and separate objects of
the entries handed to a described loop; order-insensitivity of the three hash-tied loops
(`hash_tied_sites`, each with its own site theorem and table fact in Props/C16.lean). -/
theorem drc_planning_deterministic {K V C : Type} [DecidableEq K] (glue : Glue K V C)
    (sch₁ sch₂ : Schedule (PState K V C) (Entry K)) (h₁ : sch₁.Valid) (h₂ : sch₂.Valid)
    (fuel : Nat) (p : PState K V C) :
    execRun (fun q => (glue q).map stageOf) sch₁ fuel 0 p
      = execRun (fun q => (glue q).map stageOf) sch₂ fuel 0 p :=
  run_schedule_independent _ sch₁ sch₂ h₁ h₂ fuel 0 p

/-- The same without any assumption about loop bodies: glue code that runs described loops only. -/
theorem drc_planning_deterministic_described {K V C : Type} [DecidableEq K]
    (glue : PState K V C → Option (Described K V C))
    (sch₁ sch₂ : Schedule (PState K V C) (Entry K)) (h₁ : sch₁.Valid) (h₂ : sch₂.Valid)
    (fuel : Nat) (p : PState K V C) :
    execRun (fun q => (glue q).map (fun d => stageOf (.described d))) sch₁ fuel 0 p
      = execRun (fun q => (glue q).map (fun d => stageOf (.described d))) sch₂ fuel 0 p :=
  run_schedule_independent _ sch₁ sch₂ h₁ h₂ fuel 0 p

/-! ## The comparator sorts whose keys can tie -/

/-- The comparator sorts reachable from planning whose keys CAN tie (`sortGroups`, `sortRoutes`, linux
`diffRoutes`, nsx `sortRules`), as found in the source; none of them sorts a slice collected from a map
(`-frommap` is the syntactic mark of the translator; the only comparator sort with that mark is the one
of deleteUnused, whose order is linear on the distinct keys: `comparator_sorts_from_maps`). -/
theorem tie_prone_sorts :
    (NA.Gen.MapRangesDeep.sources.filter (fun s => s.reach && s.kind == "sort-unstable-cmp")).map (fun s => s.fn) =
      ["cisco.sortGroups", "cisco.sortRoutes", "linux.diffRoutes", "nsx.sortRules"] := by decide

/-- **Ties in these sorts cannot make the output depend on the schedule.** Whatever slice of the
program state a sort reads (`proj`) and whatever the sorting routine does with tied elements (`srt`:
ANY function of the input sequence — Go's pdqsort is one, it draws no random numbers), the sorted result
after a run is the same for every two schedules: the input sequence of the sort is part of the state
that `drc_planning_deterministic` shows to be schedule independent. In particular the order of tied
elements in the input is the order in which the parser (line order of the file) and the described loops
(each entry appends to its own cells only; a captured slice is appended to only by collect-then-sort
loops) produced them — never the iteration order of a map. -/
theorem tied_sorts_schedule_independent {K V C X : Type} [DecidableEq K] (glue : Glue K V C)
    (sch₁ sch₂ : Schedule (PState K V C) (Entry K)) (h₁ : sch₁.Valid) (h₂ : sch₂.Valid)
    (fuel : Nat) (p : PState K V C) (proj : PState K V C → List X) (srt : List X → List X) :
    srt (proj (execRun (fun q => (glue q).map stageOf) sch₁ fuel 0 p))
      = srt (proj (execRun (fun q => (glue q).map stageOf) sch₂ fuel 0 p)) := by
  rw [drc_planning_deterministic glue sch₁ sch₂ h₁ h₂ fuel p]

/-- No described loop body appends to a captured slice, except the collect-then-sort loops (whose slice
is sorted by a linear order right after the loop): the effect language has no such effect, and the
translator makes a body `opaque` when it finds one ("assigns the captured variable …"). So the only
bodies that could leak the iteration order into a slice are the hash-tied ones listed here. -/
theorem only_hash_tied_bodies_could_leak_order :
    (descrs.filter (fun d => match d.body with
      | .effects _ | .collectSorted _ | .anyHit | .firstPayload _ | .guarded _ => false
      | _ => true)).map (fun d => d.fn) = (descrs.filter (fun d => !d.body.described)).map (fun d => d.fn) := by
  decide

/-! Non-vacuity: an invocation of the first described site (`pos[cmd] = p + 1` of addACL is
number 5) on two entries with different keys and objects. -/
example : Described String Nat Unit where
  idx := 5
  hidx := by decide
  hdescribed := by decide
  sem := ⟨fun _ h c => h c + 1, fun _ _ _ => false, fun _ _ => false, fun _ => 0, 0⟩
  sem2 := ⟨fun _ => true, fun e => e.key, fun _ => false, fun _ => "", fun _ => false⟩
  entries := [⟨"a", [1]⟩, ⟨"b", [2]⟩]
  hkeys := by unfold DistinctKeys UniqueKeys; decide
  hsep := by
    intro a ha b hb hab i hi
    simp only [List.mem_cons, List.mem_nil_iff, or_false] at ha hb
    rcases ha with rfl | rfl <;> rcases hb with rfl | rfl <;> simp at hab hi <;> omega
  hagree := by intro t _ a _ a' _; rfl
  hquiet := by intro t _ e _; rfl
  post := id

end NA.C16

namespace NA.C16.Run

def obligations : List Lean.Name := [
  ``NA.C16.D.effStep_commOn, ``NA.C16.D.runBody_perm,
  ``NA.C16.descrs_are_the_sites, ``NA.C16.hash_tied_sites, ``NA.C16.described_sites_order_insensitive,
  ``NA.C16.drc_planning_deterministic, ``NA.C16.drc_planning_deterministic_described,
  ``NA.C16.tie_prone_sorts, ``NA.C16.tied_sorts_schedule_independent, ``NA.C16.only_hash_tied_bodies_could_leak_order]

end NA.C16.Run
