import NA.Gen.IosSkel
import NA.Model.IosSessionSkel
import NA.Model.IosSessionProg
/-!
# C15, generated fact (T-gen): the call skeleton of `go/pkg/ios/device.go` is the skeleton OF THE MODEL

`NA.Gen.IosSkel.skel` is rewritten from the source on every check.  The programs of
`NA/Model/IosSessionProg.lean` are single terms with two readings:

* `denote_*` — their semantics IS the executable model used by every C15 theorem
  (`applyCommands … true`, `cmd … true`, `check`, `sendReloadCmd`, `cancelReload`, `prepareDevice`);
* `skel_*` — their skeleton IS the regenerated skeleton of the Go function.

Dropping or moving a `defer`, moving `s.writeMem()`, removing the re-arm, changing a prompt
pattern or the order of the exchanges changes the generated data; restructuring the model breaks
the `denote` equations.  `writeMem` (retry loop) and `stripReloadBanner` (early returns) are
compared as declared token lists only (`skeleton_matches`); their semantics is tied by the
differential runs of the harness.
-/
namespace NA.C15Skel
open NA.Ios NA.Ios.Prog

variable {σ : Type}

theorem bindM_pure_left {α β : Type} (a : α) (f : α → M σ β) : bindM (pureM a) f = f a := rfl

theorem bindM_pure_right (m : M σ Unit) : bindM m (fun _ => pureM ()) = m := by
  funext st
  unfold bindM pureM
  cases h : m st with
  | mk r st' => cases r <;> rfl

/-! ## the programs denote the model -/

theorem denote_prepareDevice (D : Device σ) : denote (prepareDeviceP D) = prepareDevice D := by
  have : prepareDevice D =
      bindM (sendCmd D confCmd) fun _ => bindM (sendCmd D (lit "no logging console")) fun _ =>
      bindM (sendCmd D (lit "line vty 0 15")) fun _ => bindM (sendCmd D (lit "logging synchronous level all")) fun _ =>
      bindM (sendCmd D (lit "ip subnet-zero")) fun _ => bindM (sendCmd D (lit "ip classless")) fun _ =>
      bindM (sendCmd D endCmd) fun _ => pureM () := rfl
  rw [this, bindM_pure_right]
  rfl

theorem denote_sendReloadCmd (D : Device σ) (b : Bool) : denote (sendReloadCmdP D b) = sendReloadCmd D b := by
  cases b <;> rfl

theorem denote_cancelReload (D : Device σ) : denote (cancelReloadP D) = cancelReload D := rfl

theorem denote_check (ci : Str) : denote (checkP (σ := σ) ci) = check ci := by
  unfold check checkP
  simp only [denote, bindM_pure_left]
  congr 1; funext out; congr 1; funext p; congr 1; funext o; congr 1
  unfold checkOutput
  cases o.isEmpty
  · simp only [Bool.not_false, if_true, Bool.false_eq_true, if_false]
    congr 1; funext _
    cases (validOutput (splitOnNL o)).2 <;> rfl
  · rfl

theorem denote_cmd (D : Device σ) (c : Str) : denote (cmdP D c) = cmd D true c := by
  unfold cmd cmdP
  simp only [denote, bindM_pure_left, denote_check]
  congr 1; funext _; congr 1; funext n1; congr 1
  cases (cutNL c).2.isEmpty <;> rfl

theorem denote_applyCommands (D : Device σ) (cs : List Str) :
    denote (applyCommandsP D cs) = applyCommands D true cs := by
  unfold applyCommands applyCommandsP guarded guardedBody changeLoop
  simp only [denote, bindM_pure_left, bindM_pure_right]

/-! ## their skeleton is the regenerated one -/

theorem skel_applyCommands (D : Device σ) (cs : List Str) :
    NA.Gen.IosSkel.skel.lookup "ApplyCommands" = some (skel (applyCommandsP D cs)) := rfl
theorem skel_cmd (D : Device σ) (c : Str) :
    NA.Gen.IosSkel.skel.lookup "cmd" = some (skel (cmdP D c)) := rfl
theorem skel_sendReloadCmd (D : Device σ) (b : Bool) :
    NA.Gen.IosSkel.skel.lookup "sendReloadCmd" = some (skel (sendReloadCmdP D b)) := rfl
theorem skel_scheduleReload (D : Device σ) :
    NA.Gen.IosSkel.skel.lookup "scheduleReload" = some (skel (scheduleReloadP D)) := rfl
theorem skel_extendReload (D : Device σ) :
    NA.Gen.IosSkel.skel.lookup "extendReload" = some (skel (extendReloadP D)) := rfl
theorem skel_cancelReload (D : Device σ) :
    NA.Gen.IosSkel.skel.lookup "cancelReload" = some (skel (cancelReloadP D)) := rfl
theorem skel_prepareDevice (D : Device σ) :
    NA.Gen.IosSkel.skel.lookup "prepareDevice" = some (skel (prepareDeviceP D)) := rfl

/-- the remaining functions (`writeMem`, `stripReloadBanner`): declared token lists -/
theorem skeleton_matches : NA.Gen.IosSkel.skel = NA.Ios.declaredSkel := rfl

def obligations : List Lean.Name :=
  [``denote_applyCommands, ``denote_cmd, ``denote_check, ``denote_sendReloadCmd, ``denote_cancelReload,
   ``denote_prepareDevice, ``skel_applyCommands, ``skel_cmd, ``skel_sendReloadCmd, ``skel_scheduleReload,
   ``skel_extendReload, ``skel_cancelReload, ``skel_prepareDevice, ``skeleton_matches]

end NA.C15Skel
