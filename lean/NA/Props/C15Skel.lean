import NA.Gen.IosSkel
import NA.Model.IosSessionProg
import NA.Model.IosLogin
/-!
# C15, generated fact (T-gen): the interaction skeleton of `go/pkg/ios/device.go` is the skeleton OF THE MODEL

`NA.Gen.IosSkel.paths` is rewritten from the source on every check, in a normal form that does not
depend on how the code is spelled (`translate/iosskel`, `NA/Model/IosSessionProg.lean`): sets of
acyclic paths of interaction steps, constant-folded string arguments, `_` for everything else,
no pure statements, no polarity, no guard-clause/nesting difference.

The programs of `NA/Model/IosSessionProg.lean` are single terms with two readings:

* `denote_*` — their semantics IS the executable model used by every C15 theorem
  (`applyCommands … true`, `cmd … true`, `check`, `sendReloadCmd`, `cancelReload`, `prepareDevice`,
  `stripReloadBanner`, `writeMem … 2`, `loginEnable`);
* `paths_applyCommands`, `paths_loginEnable` — the path set of the ENTRY POINT, every helper of the package
  inlined on both sides (the programs contain their sub-programs as sub-terms; the translator inlines by
  object identity), IS the regenerated one.  No theorem names a helper of the source: wrapping, inlining,
  extracting or moving a helper does not change the fact (robustness round 2).

Dropping or moving a `defer`, moving `writeMem()` into the closure, removing the re-arm or the
accumulation of `needReload`, forgetting `s.reloadActive = true` on a branch, changing a prompt
pattern or the order of the exchanges changes the generated set; restructuring the model breaks
the `denote` equations.
-/
namespace NA.C15Skel
open NA.Ios NA.Ios.Prog

variable {σ : Type}

theorem bindM_pure_left {α β : Type} (a : α) (f : α → M σ β) : bindM (pureM a) f = f a := rfl

theorem bindM_pure_right (m : M σ Unit) : bindM m (fun _ => pureM ()) = m := by
  funext st
  unfold bindM pureM
  cases h : m st with
  | mk r st' => cases r <;> rfl

/-! ## the programs denote the model -/

theorem denote_prepareDevice (D : Device σ) : denote (prepareDeviceP D) = prepareDevice D := by
  have : prepareDevice D =
      bindM (sendCmd D confCmd) fun _ => bindM (sendCmd D (lit "no logging console")) fun _ =>
      bindM (sendCmd D (lit "line vty 0 15")) fun _ => bindM (sendCmd D (lit "logging synchronous level all")) fun _ =>
      bindM (sendCmd D (lit "ip subnet-zero")) fun _ => bindM (sendCmd D (lit "ip classless")) fun _ =>
      bindM (sendCmd D endCmd) fun _ => pureM () := rfl
  rw [this, bindM_pure_right]
  rfl

theorem denote_sendReloadCmd (D : Device σ) (b : Bool) : denote (sendReloadCmdP D b) = sendReloadCmd D b := by
  cases b <;> rfl

theorem denote_cancelReload (D : Device σ) : denote (cancelReloadP D) = cancelReload D := rfl

theorem denote_stripProbe (pre post : Str) : denote (stripProbeP (σ := σ) pre post) = stripProbe pre post := by
  unfold stripProbe stripProbeP
  simp only [denote]

theorem denote_stripReloadBanner (out : Str) :
    denote (stripReloadBannerP (σ := σ) out) = stripReloadBanner out := by
  unfold stripReloadBanner stripReloadBannerP
  simp only [denote, denote_stripProbe]
  congr 1; funext act
  cases act
  · rfl
  · simp only [if_true]
    cases bannerFind out with
    | none => rfl
    | some r => rfl

theorem denote_check (ci : Str) : denote (checkP (σ := σ) ci) = check ci := by
  unfold check checkP
  simp only [denote, bindM_pure_left, denote_stripReloadBanner]
  congr 1; funext out; congr 1; funext p; congr 1; funext o; congr 1
  unfold checkOutput
  cases o.isEmpty
  · simp only [Bool.not_false, if_true, Bool.false_eq_true, if_false]
    congr 1; funext _
    cases (validOutput (splitOnNL o)).2 <;> rfl
  · rfl

theorem denote_cmd (D : Device σ) (c : Str) : denote (cmdP D c) = cmd D true c := by
  unfold cmd cmdP
  simp only [denote, bindM_pure_left, denote_check, denote_sendReloadCmd]
  congr 1; funext _; congr 1; funext n1; congr 1
  cases (cutNL c).2.isEmpty <;> rfl

/-! ### the retry loop of `writeMem` -/

theorem bindM_assoc {α β γ : Type} (m : M σ α) (f : α → M σ β) (g : β → M σ γ) :
    bindM (bindM m f) g = bindM m (fun a => bindM (f a) g) := by
  funext st
  unfold bindM
  cases h : m st with
  | mk r st' => cases r <;> rfl

/-- what a round of the loop does with the verdict of the model's `writeMemRound`, the counter being `k` -/
def roundPost (k : Nat) : WmStep → M σ WmStep
  | .done => pureM .done
  | .retry => if isPos k then pureM .retry else abortM .writeMemGiveUp

theorem denote_writeMemRound (D : Device σ) (k : Nat) :
    denote (writeMemRoundP D k) = bindM (writeMemRound D) (roundPost k) := by
  unfold writeMemRound writeMemRoundP
  simp only [denote]
  rw [bindM_assoc]; congr 1; funext out
  rw [bindM_assoc]; congr 1; funext out2
  cases h1 : containsLit (lit "[OK]") out2
  · cases h2 : containsLit (lit "startup-config file open failed") out2
    · simp only [Bool.false_eq_true, if_false]; rfl
    · simp only [Bool.false_eq_true, if_false, if_true]
      show _ = roundPost k WmStep.retry
      cases h3 : isPos k <;> simp [roundPost, h3]
  · simp only [if_true]; rfl

theorem loopM_writeMem (D : Device σ) : ∀ n, loopM n (fun k => denote (writeMemRoundP D k)) = writeMem D n
  | 0 => by
    unfold loopM writeMem
    simp only [denote_writeMemRound]
    rw [bindM_assoc]; congr 1; funext r
    cases r <;> rfl
  | n + 1 => by
    unfold loopM writeMem
    simp only [denote_writeMemRound]
    rw [bindM_assoc]; congr 1; funext r
    cases r
    · rfl
    · show bindM (roundPost (n + 1) WmStep.retry) _ = _
      simp only [roundPost, isPos, if_true, bindM_pure_left]
      have := loopM_writeMem D n
      simp only [denote_writeMemRound] at this
      exact this

/-- the program of `writeMem` (retry loop included) denotes the model's `writeMem … 2` -/
theorem denote_writeMem (D : Device σ) : denote (writeMemP D) = writeMem D 2 := by
  unfold writeMemP
  simp only [denote]
  exact loopM_writeMem D 2

/-- the program of `ApplyCommands` — all helpers inlined — denotes the model every C15 theorem is about -/
theorem denote_applyCommands (D : Device σ) (cs : List Str) :
    denote (applyCommandsP D cs) = applyCommands D true cs := by
  unfold applyCommands applyCommandsP guarded guardedBody changeLoop scheduleReload
  simp only [denote, bindM_pure_left, denote_prepareDevice, denote_sendReloadCmd, denote_cancelReload,
    denote_cmd, denote_writeMem]

/-! ### the login / enable dialogue -/

theorem denote_loginWaitPrompt (D : Device σ) (enter : Str) (c : Char) :
    denote (loginWaitPromptP D enter c) = loginWaitPrompt D enter c := rfl

theorem denote_loginEnable (D : Device σ) (pass : Str) : denote (loginEnableP D pass) = loginEnable D pass := by
  unfold loginEnable loginEnableP
  simp only [denote, bindM_pure_left, denote_loginWaitPrompt]

/-! ## their path sets are the regenerated ones -/

/-- a device without behaviour: the path set of a program does not depend on the device -/
def noDev : Device Unit := { step := fun _ _ => ((), []) }

/-- the regenerated path set of a Go function -/
def gen (f : String) : List CPath := (NA.Gen.IosSkel.paths.lookup f).getD [([.atom 0], true)]

/-- the atoms of the regenerated side -/
abbrev tbl : List Atom := NA.Gen.IosSkel.atomTable

/-- **the tie.** The path set of `ApplyCommands` regenerated from the source — helpers of the package
inlined by the translator, wherever they live and however they are wrapped — is the path set of the
program whose semantics is the model. -/
theorem paths_applyCommands (D : Device σ) (cs : List Str) :
    sameSet tbl (gen "ApplyCommands") (paths (applyCommandsP D cs)) = true := by
  have h : shape (applyCommandsP D cs) = shape (applyCommandsP noDev []) := rfl
  unfold paths; rw [h]; decide +kernel

/-- the same for the login / enable dialogue (`LoginEnable`, closure `waitPrompt` inlined) -/
theorem paths_loginEnable (D : Device σ) (pass : Str) :
    sameSet tbl (gen "LoginEnable") (paths (loginEnableP D pass)) = true := by
  have h : shape (loginEnableP D pass) = shape (loginEnableP noDev []) := rfl
  unfold paths; rw [h]; decide +kernel

/-- the comparison is not vacuous: the sets are non-empty and a different set is rejected -/
example : gen "ApplyCommands" ≠ [] ∧ sameSet tbl (gen "ApplyCommands") (paths (loginEnableP noDev [])) = false := by
  decide +kernel

def obligations : List Lean.Name :=
  [``denote_applyCommands, ``denote_cmd, ``denote_check, ``denote_sendReloadCmd, ``denote_cancelReload,
   ``denote_prepareDevice, ``denote_stripReloadBanner, ``denote_writeMem, ``denote_loginEnable, ``denote_loginWaitPrompt,
   ``paths_applyCommands, ``paths_loginEnable]

end NA.C15Skel
