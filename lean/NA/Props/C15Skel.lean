import NA.Gen.IosSkel
import NA.Model.IosSessionSkel
/-!
# C15, generated fact (T-gen): the call skeleton of `go/pkg/ios/device.go` is the one the model mirrors

`NA.Gen.IosSkel.skel` is rewritten from the source on every check.  Dropping or moving a `defer`,
moving `s.writeMem()`, removing the re-arm, changing a prompt pattern or the order of the
exchanges changes the generated data and this theorem no longer checks.
-/
namespace NA.C15Skel

theorem skeleton_matches : NA.Gen.IosSkel.skel = NA.Ios.declaredSkel := rfl

/-- the part of the skeleton the guard theorems rest on, spelled out -/
theorem guard_skeleton :
    NA.Gen.IosSkel.skel.lookup "ApplyCommands" = some
      ["s.Conn.SetLogFH(logFh)", "s.prepareDevice()", "func() {", "s.scheduleReload()",
       "defer s.cancelReload()", "s.Conn.SendCmd(\"configure terminal\")", "defer s.Conn.SendCmd(\"end\")",
       "range s.Changes {", "s.cmd(chg)", "}", "}()", "s.writeMem()", "return nil"] := by decide

def obligations : List Lean.Name := [``skeleton_matches, ``guard_skeleton]

end NA.C15Skel
