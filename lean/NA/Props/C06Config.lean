import NA.Model.GateConfig
import NA.Proofs.C06Gate
/-!
# C06 — the configured banner text is what must be found; the expected name is compared exactly

Configuration-file side of the gate (`program.LoadConfig`, model `NA.Gate.Config`):

* `banner_taken_whole` — whenever LoadConfig succeeds with a banner regexp, its source is the
  ONE value of a line `checkbanner = <value>`: a line with several words after `=` never yields a
  regexp made of part of them (it is an error, or — behind an earlier `checkbanner` line — ignored).
* `banner_unset_only_without_line` — no banner check results only if the file has no accepted
  `checkbanner` line at all.
* `multiword_banner_rejected` — a file whose first `checkbanner` line has several values is rejected.
* `config_error_no_contact` / `config_ok_is_gate` — a rejected file ends the run before any
  device is contacted (exit 1, diagnostic); an accepted one runs the gate with the regexp compiled
  from the whole configured value, so all theorems of `NA.Props.C06` apply to it.

Expected-name side: `name_compare_exact` / `name_examples` — the comparison of every backend is
equality of the complete strings (no prefix, no case folding, no cutting at a dot).
-/
namespace NA.C06Config
open NA.Gate NA.Gate.Config NA.Gate.Spec

deriving instance DecidableEq for Except

theorem lookup_mem {α : Type} (l : List (String × α)) (k : String) (v : α)
    (h : l.lookup k = some v) : (k, v) ∈ l := by
  induction l with
  | nil => simp [List.lookup] at h
  | cons p l ih =>
    obtain ⟨k', v'⟩ := p
    simp only [List.lookup] at h
    split at h
    · rename_i he
      have : k = k' := by simpa using he
      cases h
      rw [this]; exact List.mem_cons_self
    · exact List.mem_cons_of_mem _ (ih h)

/-- `checkbanner` is the only key that is compiled as a regexp -/
theorem regexp_key (key : String) (h : singleKeys.lookup key = some .regexp) : key = "checkbanner" := by
  have := lookup_mem singleKeys key .regexp h
  simp [singleKeys] at this
  exact this

theorem insert_banner (valid : String → Bool) (acc acc' : Acc) (key : String) (values : List String)
    (h : Config.insert valid acc key values = .ok acc') (src : String) (hs : acc'.banner = some src) :
    acc.banner = some src ∨ (key = "checkbanner" ∧ values = [src] ∧ valid src = true) := by
  unfold Config.insert at h
  split at h
  · cases h; exact Or.inl hs
  · split at h
    · rename_i val
      split at h
      · rename_i hk
        split at h
        · rename_i hv
          cases h
          right
          simp only at hs
          cases hs
          exact ⟨regexp_key key hk, rfl, hv⟩
        · cases h
      · split at h
        · cases h; exact Or.inl hs
        · cases h
      · split at h
        · cases h; exact Or.inl hs
        · cases h; exact Or.inl hs
      · cases h; exact Or.inl hs
    · cases h

theorem step_banner (valid : String → Bool) (acc acc' : Acc) (line : String)
    (h : step valid acc line = .ok acc') (src : String) (hs : acc'.banner = some src) :
    acc.banner = some src ∨ (fieldsS line = ["checkbanner", "=", src] ∧ valid src = true) := by
  unfold step at h
  split at h
  · cases h; exact Or.inl hs
  · rename_i w0 rest hf
    split at h
    · cases h; exact Or.inl hs
    · split at h
      · rename_i eq v vs
        split at h
        · cases h; exact Or.inl hs
        · rename_i heq
          split at h
          · cases h; exact Or.inl hs
          · have := insert_banner valid _ acc' w0 (v :: vs) h src hs
            cases this with
            | inl hb => exact Or.inl hb
            | inr hr =>
              obtain ⟨hk, hv, hval⟩ := hr
              right
              refine ⟨?_, hval⟩
              have he : eq = "=" := by
                have : (eq != "=") = false := by simpa using heq
                simpa using this
              simp only [List.cons.injEq] at hv
              rw [hf, hk, he, hv.1, hv.2]
      · cases h; exact Or.inl hs

theorem go_banner (valid : String → Bool) : ∀ (ls : List String) (acc acc' : Acc),
    go valid acc ls = .ok acc' → ∀ src, acc'.banner = some src →
      acc.banner = some src ∨ ∃ l ∈ ls, fieldsS l = ["checkbanner", "=", src] ∧ valid src = true := by
  intro ls
  induction ls with
  | nil => intro acc acc' h src hs; simp only [go] at h; cases h; exact Or.inl hs
  | cons l ls ih =>
    intro acc acc' h src hs
    simp only [go] at h
    split at h
    · rename_i a1 hstep
      cases ih a1 acc' h src hs with
      | inl hb =>
        cases step_banner valid acc a1 l hstep src hb with
        | inl h0 => exact Or.inl h0
        | inr h1 => exact Or.inr ⟨l, List.mem_cons_self, h1⟩
      | inr hex =>
        obtain ⟨l', hl', hf⟩ := hex
        exact Or.inr ⟨l', List.mem_cons_of_mem _ hl', hf⟩
    · cases h

/-- **The configured banner text is taken whole**: if LoadConfig yields a banner regexp with
source `src`, the file has a line whose fields are exactly `checkbanner`, `=`, `src`, and `src`
compiles — for every file and every notion of "compiles". -/
theorem banner_taken_whole (valid : String → Bool) (lines : List String) (src : String)
    (h : loadLines valid lines = .ok (some src)) :
    ∃ l ∈ lines, fieldsS l = ["checkbanner", "=", src] ∧ valid src = true := by
  unfold loadLines at h
  split at h
  · cases h
  · rename_i acc hgo
    split at h
    · cases h
    · have hb : acc.banner = some src := by simpa using h
      cases go_banner valid lines {} acc hgo src hb with
      | inl h0 => simp at h0
      | inr h1 => exact h1

/-! ### a line with several words after `=` -/

theorem step_multiword (valid : String → Bool) (acc : Acc) (line : String) (v1 v2 : String)
    (rest : List String) (hf : fieldsS line = "checkbanner" :: "=" :: v1 :: v2 :: rest)
    (hseen : acc.seen.contains "checkbanner" = false) :
    step valid acc line = .error "one-value" := by
  unfold step
  rw [hf]
  have hn : "checkbanner" ∉ acc.seen := by simpa using hseen
  simp [hn, Config.insert, multiKeys]

/-- **Several words are rejected, never truncated**: if the first line of the file is a
`checkbanner` line with two or more values, LoadConfig fails (whatever follows). -/
theorem multiword_banner_rejected (valid : String → Bool) (line : String) (v1 v2 : String)
    (rest : List String) (more : List String)
    (hf : fieldsS line = "checkbanner" :: "=" :: v1 :: v2 :: rest) :
    loadLines valid (line :: more) = .error "one-value" := by
  unfold loadLines
  simp only [go]
  rw [step_multiword valid {} line v1 v2 rest hf rfl]

/-- kernel-evaluated instances: two words, quoted words, trailing blanks, tabs, a comment, a
missing `=`, a duplicate, an invalid regexp (here: "valid" = no parenthesis). -/
theorem config_examples :
    let valid : String → Bool := fun s => !s.toList.contains '('
    let base := "basedir = /home/netspoc"
    loadLines valid [base, "checkbanner = managed by NetSPoC"] = .error "one-value" ∧
    loadLines valid [base, "checkbanner = \"managed by NetSPoC\""] = .error "one-value" ∧
    loadLines valid [base, "checkbanner = NetSPoC   "] = .ok (some "NetSPoC") ∧
    loadLines valid [base, "\tcheckbanner\t=\tNetSPoC"] = .ok (some "NetSPoC") ∧
    loadLines valid [base, "# checkbanner = NetSPoC"] = .ok none ∧
    loadLines valid [base, "checkbanner=NetSPoC"] = .ok none ∧
    loadLines valid [base, "checkbanner = "] = .ok none ∧
    loadLines valid [base, "checkbanner = NetSPoC", "checkbanner = other words"] = .ok (some "NetSPoC") ∧
    loadLines valid [base, "checkbanner = Net(SPoC"] = .error "regexp" ∧
    loadLines valid ["checkbanner = NetSPoC"] = .error "basedir" ∧
    loadLines valid [base, "timeout = soon"] = .error "int" ∧
    loadLines valid [base, "systemuser = a b"] = .error "one-value" ∧
    loadLines valid [base, "server_ip_list = 10.1.1.1 10.1.1.2", "checkbanner = NetSPoC"] = .ok (some "NetSPoC") := by
  decide

/-! ### the whole run -/

/-- A rejected configuration file ends the run at once: nothing is sent, exit status 1, a
diagnostic. -/
theorem config_error_no_contact (b : Backend) (valid : String → Bool) (compile : String → Option Rx)
    (cfg : Cfg) (dev : Dev) (plan : List String) (text e : String)
    (h : loadConfig valid text = .error e) :
    (runWithConfig b valid compile cfg dev plan text).trace = [] ∧
    (runWithConfig b valid compile cfg dev plan text).exit = 1 ∧
    (runWithConfig b valid compile cfg dev plan text).diagnostic.isSome = true := by
  simp [runWithConfig, h, configErrorSt, St.exit, St.diagnostic]

/-- An accepted file runs the gate with the regexp compiled from the WHOLE configured value
(`banner_taken_whole`); the theorems of `NA.Props.C06` then say what that regexp must find. -/
theorem config_ok_is_gate (b : Backend) (valid : String → Bool) (compile : String → Option Rx)
    (cfg : Cfg) (dev : Dev) (plan : List String) (text src : String)
    (h : loadConfig valid text = .ok (some src)) :
    runWithConfig b valid compile cfg dev plan text =
      runMain b ⟨{ cfg with banner := compile src, bannerSrc := src }, dev, plan⟩ ∧
    ∃ l ∈ text.splitOn "\n", fieldsS l = ["checkbanner", "=", src] := by
  refine ⟨by simp [runWithConfig, h], ?_⟩
  obtain ⟨l, hl, hf, _⟩ := banner_taken_whole valid _ src h
  exact ⟨l, hl, hf⟩

/-! ### the expected name is compared exactly -/

/-- What each backend compares (after removing the line end / prompt character) is the complete
expected name. -/
theorem name_compare_exact (r : Reply) (n : String) :
    (hostIs .asa r n = true ↔ trimSuffixL (replyText r) ['\n'] = n.toList) ∧
    (hostIs .linux r n = true ↔ trimSuffixL (replyText r) ['\n'] = n.toList) ∧
    (hostIs .ios r n = true ↔ trimSuffixL (trimSpaceL (replyText r)) ['#'] = n.toList) := by
  refine ⟨?_, ?_, ?_⟩ <;> simp [hostIs]

/-- names with dots, other letter case, prefixes and extensions of the reported name: all
different (kernel-evaluated, every CLI backend and PAN-OS). -/
theorem name_examples :
    hostIs .linux (.text "fw\n") "fw.dmz2" = false ∧ hostIs .linux (.text "fw.dmz2\n") "fw.dmz2" = true ∧
    hostIs .linux (.text "fw.dmz1\n") "fw.dmz2" = false ∧ hostIs .linux (.text "fw1\n") "fw" = false ∧
    hostIs .linux (.text "fw\n") "fw1" = false ∧ hostIs .linux (.text "FW\n") "fw" = false ∧
    hostIs .asa (.text "fw\n") "fw.dmz2" = false ∧ hostIs .asa (.text "Fw\n") "fw" = false ∧
    hostIs .ios (.text "\nfw#") "fw.dmz2" = false ∧ hostIs .ios (.text "\nfw.dmz2# ") "fw.dmz2" = true ∧
    hostIs .ios (.text "\nfw1#") "fw" = false ∧
    hostIs .panos (.conf "fw" []) "fw.dmz2" = false ∧ hostIs .panos (.conf "FW" []) "fw" = false := by
  decide

/-- A Linux device called `fw.dmz2` in Netspoc, a host that answers `fw`: refused, nothing but
read-only requests (instance of `wrong_hostname_no_change`, evaluated). -/
example :
    let env : Env := { cfg := { name := "fw.dmz2" },
                       dev := fun _ o => match o with
                         | .wait => .text "\r\nroot@fw:~# "
                         | .lit "hostname -s" => .text "fw\n"
                         | _ => .text "",
                       plan := ["ip route add 10.0.0.0/8 via 10.1.1.99"] }
    (runMain .linux env).exit = 1 ∧ NoChange .linux (runMain .linux env).trace ∧
      .lit "hostname -s" ∈ (runMain .linux env).trace := by
  decide +kernel

def obligations : List Lean.Name := [
  ``banner_taken_whole, ``multiword_banner_rejected, ``config_examples, ``config_error_no_contact,
  ``config_ok_is_gate, ``name_compare_exact, ``name_examples]

end NA.C06Config
