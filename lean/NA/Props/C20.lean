import NA.Proofs.C20
import NA.Proofs.C20Shape
import NA.Proofs.C20Linux
import NA.Proofs.C20Http
import NA.Proofs.C20Sites
import NA.Proofs.C20RefCount
import NA.Proofs.C20Banner
import NA.Proofs.C20Status
import NA.Proofs.C20Msg
import NA.Proofs.C20Cycle
import NA.Proofs.C20Post
import NA.Proofs.C20Diff
import NA.Gen.PanicSites
/-!
# C20 — malformed input ends in a diagnostic, never in a crash

Property theorems only.  The models (`NA/Model/Cursor*.lean`) are total functions into
`Res = ok | diag | panic`, with a bounds check wherever the Go code indexes, slices or
dereferences; `NoPanic r` says that `r` is not a Go runtime panic.  Every repaired function has
one definition with a flag: `fixed = false` is the snapshot (the `…_counterexample` theorems are
about it), `fixed = true` the code after the `fix:` commits (the `no_panic_…` theorems, for ALL
token lists / file contents / decoded structures).

Two explicit `panic(` calls stay in the code because the suite pins their output
(asa_parse.t "Incomplete string", drc.t "Bad info file" / "Unreadable info file"): they are the
known findings, refuted here by `matchCmd_incomplete_string_counterexample` and
`loadInfoFile_garbage_counterexample`, with the `_partial` theorems for the complement.
-/
namespace NA.C20
open Res NA.Gen.PanicSites

/-! ## the regenerated tables -/

def toDescr (d : RawDescr) : Descr :=
  { pre := d.pre.toList, template := d.template.map String.toList, ignore := d.ignore,
    sub := d.sub.map fun s => (s.1.map String.toList, s.2),
    refs := d.refs.map String.toList, subRefs := d.subRefs.map fun l => l.map String.toList }

def asaTable : List Descr := asaDescr.map toDescr
def iosTable : List Descr := iosDescr.map toDescr

instance (t : Str) : Decidable (CleanTok t) := by unfold CleanTok; infer_instance
instance (tmpl : List Str) : Decidable (CleanTemplate tmpl) := by unfold CleanTemplate; infer_instance
instance (ds : List Descr) : Decidable (CleanTop ds) := by unfold CleanTop; infer_instance
instance (ds : List Descr) : Decidable (NoQuoteTop ds) := by unfold NoQuoteTop; infer_instance

/-- the translator understood everything it read. -/
theorem gen_no_problems : NA.Gen.PanicSites.problems = [] := by decide

/-- no top-level template of the command tables contains the `"` token … -/
theorem asa_noQuoteTop : NoQuoteTop asaTable := by decide
theorem ios_noQuoteTop : NoQuoteTop iosTable := by decide

/-- … and all templates consist of words, `*` only at the end. -/
theorem asa_cleanTop : CleanTop asaTable := by decide
theorem ios_cleanTop : CleanTop iosTable := by decide

/-- sub command templates are clean as well. -/
def CleanSubs (ds : List Descr) : Prop := ∀ d ∈ ds, ∀ s ∈ d.sub, CleanTemplate s.1
instance (ds : List Descr) : Decidable (CleanSubs ds) := by unfold CleanSubs; infer_instance
theorem asa_cleanSubs : CleanSubs asaTable := by decide
theorem ios_cleanSubs : CleanSubs iosTable := by decide

/-- minimal number of words of `parsed` for the commands with a given prefix. -/
def MinWords (ds : List Descr) (pre : Str) (n : Nat) : Prop :=
  ∀ d ∈ ds, d.pre = pre → n ≤ (fields d.pre).length + d.template.length
instance (ds : List Descr) (pre : Str) (n : Nat) : Decidable (MinWords ds pre n) := by
  unfold MinWords; infer_instance

/-- `access-list $NAME standard|extended|remark *`: four words (`tokens[2]`, `tokens[4:]`). -/
theorem asa_accessList_minWords : MinWords asaTable (lit "access-list") 4 := by decide
/-- `aaa-server $NAME …`: three words (`words[2]`). -/
theorem asa_aaaServer_minWords : MinWords asaTable (lit "aaa-server") 3 := by decide
/-- `ip route *`: three words (`tokens[2]` in routeVRF). -/
theorem ios_ipRoute_minWords : MinWords iosTable (lit "ip route") 3 := by decide
/-- `interface *`: two words (`strings.Fields(c.parsed)[1]`). -/
theorem ios_interface_minWords : MinWords iosTable (lit "interface") 2 := by decide
/-- `crypto map $REF interface *` is the only `crypto map` command whose second template token is
`interface`; it has five words (`strings.Fields(c.parsed)[4]`). -/
theorem asa_cryptoMapInterface_minWords :
    ∀ d ∈ asaTable, d.pre = lit "crypto map" → d.template.getD 1 [] = lit "interface" →
      5 ≤ (fields d.pre).length + d.template.length := by decide
/-- sub commands of `ip access-list extended`: at least two words (`tokens[0]`, `tokens[1:]`,
`parts[0]`); sub command `nameif *` of `interface`: two words (`tokens[1]`). -/
theorem ios_aclSub_minWords :
    ∀ d ∈ iosTable, d.pre = lit "ip access-list extended" → ∀ s ∈ d.sub, 2 ≤ s.1.length := by decide
theorem asa_nameif_minWords :
    ∀ d ∈ asaTable, d.pre = lit "interface" → ∀ s ∈ d.sub, s.1.head? = some (lit "nameif") → 2 ≤ s.1.length := by
  decide

/-! ## matchCmd and the line loop of ParseConfig -/

/-- `matchCmd` on words produced by `strings.Fields` (sub commands): the only panic is the
explicit "Incomplete string". -/
theorem no_panic_matchCmd_partial (pre : Str) (words : List Str) (hne : ∀ w ∈ words, w ≠ [])
    (ds : List (Nat × List Str × Bool)) : PanicOnly incompleteString (matchCmd pre words ds) :=
  matchCmd_panicOnly pre words hne ds

/-- … and it is a real one: `map-value memberOf "CN=a b` (no closing quote). Known finding
F-C20m, pinned by asa_parse.t "Incomplete string". -/
theorem matchCmd_incomplete_string_counterexample :
    matchCmd [] [lit "map-value", lit "memberOf", lit "\"CN=a", lit "b"]
      [(0, [lit "map-value", lit "memberOf", lit "\"", lit "$REF"], false)] = .panic incompleteString := by
  rfl

/-- templates without the `"` token: no panic for ANY words, also empty ones (`strings.Split`). -/
theorem no_panic_matchCmd_noquote (pre : Str) (words : List Str) (ds : List (Nat × List Str × Bool))
    (h : ∀ d ∈ ds, lit "\"" ∉ d.2.1) : NoPanic (matchCmd pre words ds) :=
  matchCmd_noPanic pre words ds h

/-- `w[0]` on an empty word would panic — unreachable, the `"` token occurs only in sub command
templates, whose words come from `strings.Fields`. -/
theorem matchCmd_empty_word_counterexample :
    matchCmd [] [[]] [(0, [lit "\""], false)] = .panic (.index "w[0]") := by rfl

/-- The line loop of `ParseConfig` (ASA and IOS tables as they are in /repo now) after the fix:
for ANY file content the only Go panic left is the pinned "Incomplete string". -/
theorem no_panic_parseConfig_asa (isRaw : Bool) (data : Str) :
    PanicOnly incompleteString (parseConfig true asaTable isRaw data) :=
  parseConfig_panicOnly asaTable asa_noQuoteTop isRaw data

theorem no_panic_parseConfig_ios (isRaw : Bool) (data : Str) :
    PanicOnly incompleteString (parseConfig true iosTable isRaw data) :=
  parseConfig_panicOnly iosTable ios_noQuoteTop isRaw data

/-- IOS has no `"` template at all: no panic whatsoever. -/
theorem ios_noQuoteSub : ∀ d ∈ iosTable, ∀ s ∈ d.sub, lit "\"" ∉ s.1 := by decide

def miniTable : List Descr :=
  [{ pre := lit "interface", template := [lit "*"], ignore := false,
     sub := [([lit "shutdown"], false), ([lit "nameif", lit "*"], false)] }]

/-- Snapshot: a sub command line with less indentation than the first one, when no sub command
was stored (`prev.sub` empty), indexes `prev.sub[0]` for the error message. F-C20c. -/
theorem parseConfig_indent_counterexample :
    parseConfig false miniTable false (lit "interface E0\n  !x\n nameif inside\n") =
      .panic (.index "prev.sub[0]") := by rfl

/-- the same input after the fix: a diagnostic naming both lines. -/
example : parseConfig true miniTable false (lit "interface E0\n  !x\n nameif inside\n") =
    .diag (badIndent (lit "  !x") (lit " nameif inside")) := by rfl

/-! ## postprocessACLParts -/

/-- After the fix: no Go panic for ANY token list and ANY name tables. -/
theorem no_panic_postprocessACLParts (tb : Tables) (orig : Str) (parts : List Str) :
    NoPanic (aclParts true tb orig parts) := noPanic_aclParts tb orig parts

def noTables : Tables :=
  ⟨fun _ => none, fun _ => none, fun _ => none, fun _ => none, fun _ => none, fun _ => none, fun _ => none⟩

/-- Snapshot, `access-list X extended permit ip host`. F-C20a. -/
theorem aclParts_host_counterexample :
    aclParts false noTables [] [lit "ip", lit "host"] = .panic (.slice "parts[2:]") := by rfl
/-- Snapshot, `access-list X extended permit object-group`. F-C20b. -/
theorem aclParts_objectGroup_counterexample :
    aclParts false noTables [] [lit "object-group"] = .panic (.index "parts[1]") := by rfl
/-- Snapshot, `access-list X extended permit`. -/
theorem aclParts_empty_counterexample :
    aclParts false noTables [] [] = .panic (.index "parts[0]") := by rfl

example : aclParts true noTables (lit "access-list X extended permit ip host") [lit "ip", lit "host"] =
    .diag (incomplete (lit "access-list X extended permit ip host")) := by rfl
example : (aclParts true noTables [] [lit "tcp", lit "any", lit "host", lit "10.1.1.1", lit "eq", lit "80"]).isPanic = false := by
  rfl

theorem indexed_getD {α : Type} (l : List α) (dflt : α) (x : Nat × α) (h : x ∈ indexed l) :
    l.getD x.1 dflt = x.2 := by
  unfold indexed at h
  obtain ⟨i, hi, hx⟩ := List.mem_iff_getElem.mp h
  simp at hi
  have : x = (i, l[i]'(by omega)) := by
    rw [← hx]; simp
  subst this
  simp [hi]

/-- `postprocessASAACL` on any command that `lookupCmd` finds for a right-trimmed line with the
ASA table: `tokens[2]` and `tokens[4:]` are in range, the rest is `postprocessACLParts`. -/
theorem no_panic_postprocessASAACL (tb : Tables) (raw : Str) (hne : trimRight raw ≠ []) (c : Cmd)
    (h : lookupCmd asaTable (trimRight raw) = .ok (some c))
    (hp : (asaTable.getD c.descr { pre := [], template := [], ignore := false }).pre = lit "access-list") :
    NoPanic (asaACL true tb c.orig c.parsed) := by
  obtain ⟨d, hd, hdi, hlen⟩ := lookupCmd_fields_ge asaTable asa_cleanTop raw hne c h
  have hget := indexed_getD asaTable { pre := [], template := [], ignore := false } d hd
  rw [← hdi] at hget
  rw [hget] at hp
  have := asa_accessList_minWords d.2 (mem_indexed hd) hp
  exact asaACL_noPanic tb _ _ (by omega)

/-- `postprocessIOSACL` on any sub command that `matchCmd` finds in a line body split by
`strings.Fields`, for the sub templates of `ip access-list extended`. -/
theorem no_panic_postprocessIOSACL (tb : Tables) (body : Str) (d : Descr) (hd : d ∈ iosTable)
    (hp : d.pre = lit "ip access-list extended") (sc : Cmd)
    (h : matchCmd [] (fields body) ((indexed d.sub).map fun x => (x.1, x.2.1, x.2.2)) = .ok (some sc)) :
    NoPanic (iosACL true tb sc.orig sc.parsed) := by
  obtain ⟨e, he, _, hlen⟩ := matchCmd_fields_ge [] (fields body) (fields_lastNonblank body) sc _ (by
      intro e he
      obtain ⟨x, hx, rfl⟩ := List.mem_map.mp he
      exact ios_cleanSubs d hd x.2 (mem_indexed hx)) h
  obtain ⟨x, hx, rfl⟩ := List.mem_map.mp he
  have h2 := ios_aclSub_minWords d hd hp x.2 (mem_indexed hx)
  simp [fields] at hlen
  have h3 : 2 ≤ (fields sc.parsed).length := by omega
  apply iosACL_noPanic
  match hf : fields sc.parsed with
  | [] => rw [hf] at h3; simp at h3
  | [_] => rw [hf] at h3; simp at h3
  | t0 :: t1 :: rest => exact ⟨t0, t1, rest, rfl⟩

/-! ## postprocessParsed: aaa-server, transform-set, metric -/

/-- the aaa-server part for one name, after the fix. -/
theorem no_panic_aaaServer (name : Str) (l : List Cmd) (hne : l ≠ [])
    (h1 : ∀ c ∈ l, 3 ≤ (fields c.parsed).length) (h2 : ∀ c ∈ l, ∀ s ∈ c.sub, s.ref ≠ []) :
    NoPanic (aaaGroup true name l) := aaaGroup_noPanic name l hne h1 h2

/-- … where the three words are what `lookupCmd` guarantees for the ASA table. -/
theorem aaaServer_words (raw : Str) (hne : trimRight raw ≠ []) (c : Cmd)
    (h : lookupCmd asaTable (trimRight raw) = .ok (some c))
    (hp : (asaTable.getD c.descr { pre := [], template := [], ignore := false }).pre = lit "aaa-server") :
    3 ≤ (fields c.parsed).length := by
  obtain ⟨d, hd, hdi, hlen⟩ := lookupCmd_fields_ge asaTable asa_cleanTop raw hne c h
  have hget := indexed_getD asaTable { pre := [], template := [], ignore := false } d hd
  rw [← hdi] at hget
  rw [hget] at hp
  have := asa_aaaServer_minWords d.2 (mem_indexed hd) hp
  omega

/-- Snapshot, `aaa-server N host` (no address). F-C20d. -/
theorem aaaHost_counterexample :
    aaaHost false [] (lit "aaa-server $NAME host") = .panic (.index "words[3]") := by rfl
/-- Snapshot, `aaa-server N  host 1.2.3.4` (two blanks): `words[2]` is the empty string. -/
theorem aaaHost_emptyWord_counterexample :
    aaaHost false [] (lit "aaa-server $NAME  host 1.2.3.4") = .panic (.index "words[2][0]") := by rfl

example : aaaHost true (lit "aaa-server N host") (lit "aaa-server $NAME host") =
    .diag (incomplete (lit "aaa-server N host")) := by rfl
example : aaaHost true [] (lit "aaa-server $NAME (inside) host 1.2.3.4 key") =
    .ok (some (lit "aaa-server $NAME host x")) := by rfl

theorem no_panic_stripMetric (parsed : Str) : NoPanic (stripMetric parsed) := stripMetric_noPanic parsed
example : stripMetric (lit "ipv6 route inside ::/0 2001::1 5") = .ok (lit "ipv6 route inside ::/0 2001::1") := by rfl
example : stripMetric (lit "ipv6 route vrf X 2001::/64 2001::1") = .ok (lit "ipv6 route vrf X 2001::/64 2001::1") := by rfl

/-- `setTransRef`: the text behind ` set ikev1 transform-set ` is the tail of a right-trimmed line,
so it has a word and `strings.Repeat` gets a count ≥ 0. -/
theorem no_panic_setTransRef (orig names : Str) (h : Nonblank names) : NoPanic (transRefs true orig names) :=
  transRefs_noPanic orig names (fields_ne_nil_of_mem names h)

theorem transRefs_blank_counterexample :
    transRefs true [] (lit " ") = .panic (.explicit "strings: negative Repeat count") := by rfl

/-! ## dstOfRoute, alignVRFs -/

/-- After the fix: no Go panic for ANY command text, IPv4 or IPv6. -/
theorem no_panic_dstOfRoute (isV6 : Bool) (orig parsed : Str) : NoPanic (dstOfRoute true isV6 orig parsed) :=
  dstOfRoute_noPanic isV6 orig parsed

/-- Snapshot, `route inside` (two of them are compared while sorting). F-C20e. -/
theorem dstOfRoute_short_counterexample :
    dstOfRoute false false [] (lit "route inside") = .panic (.index "l[2]") := by rfl
theorem dstOfRoute_vrf_counterexample :
    dstOfRoute false false [] (lit "ip route vrf X 10.0.0.0") = .panic (.index "l[5]") := by rfl
/-- Snapshot, `ipv6 route inside a b`: `slices.IndexFunc` returns -1. -/
theorem dstOfRoute_v6_counterexample :
    dstOfRoute false true [] (lit "ipv6 route inside a b") = .panic (.index "l[i] (i = -1)") := by rfl

example : dstOfRoute true false (lit "route inside") (lit "route inside") =
    .diag (incomplete (lit "route inside")) := by rfl
example : dstOfRoute true false [] (lit "ip route vrf X 10.0.0.0 255.0.0.0 10.1.1.1") =
    .ok ⟨lit "X", lit "10.0.0.0", lit "255.0.0.0"⟩ := by rfl

/-- `routeVRF` on any `ip route` command that `lookupCmd` finds with the IOS table. -/
theorem no_panic_routeVRF (raw : Str) (hne : trimRight raw ≠ []) (c : Cmd)
    (h : lookupCmd iosTable (trimRight raw) = .ok (some c))
    (hp : (iosTable.getD c.descr { pre := [], template := [], ignore := false }).pre = lit "ip route") :
    NoPanic (routeVRF true c.orig c.parsed) := by
  obtain ⟨d, hd, hdi, hlen⟩ := lookupCmd_fields_ge iosTable ios_cleanTop raw hne c h
  have hget := indexed_getD iosTable { pre := [], template := [], ignore := false } d hd
  rw [← hdi] at hget
  rw [hget] at hp
  have := ios_ipRoute_minWords d.2 (mem_indexed hd) hp
  exact routeVRF_noPanic _ _ (by omega)

/-- Snapshot, `ip route vrf`. F-C20f. -/
theorem routeVRF_counterexample :
    routeVRF false [] (lit "ip route vrf") = .panic (.index "tokens[3]") := by rfl

/-- interface checks: `strings.Fields(c.parsed)[k]` with `k` below the number of tokens of prefix
and template is in range, for every command found by `lookupCmd` in a right-trimmed line. -/
theorem parsed_index_ok (ds : List Descr) (hc : CleanTop ds) (raw : Str) (hne : trimRight raw ≠ []) (c : Cmd)
    (h : lookupCmd ds (trimRight raw) = .ok (some c)) (k : Nat)
    (hk : ∀ d ∈ indexed ds, c.descr = d.1 → k < (fields d.2.pre).length + d.2.template.length) :
    ((fields c.parsed)[k]?).isSome = true := by
  obtain ⟨d, hd, hdi, hlen⟩ := lookupCmd_fields_ge ds hc raw hne c h
  have := hk d hd hdi
  exact guarded_index_ok _ _ (by omega)

/-! ## Linux -/

/-- `ParseConfig` of package linux: no Go panic for ANY file content; the word loop terminates. -/
theorem no_panic_linux_parseConfig (data : Str) : NoPanic (Linux.parseConfig data) :=
  Linux.parseConfig_noPanic data

example : (Linux.parseConfig (lit "*filter\n:INPUT DROP\n-A INPUT ! -s 10.1.1.1 -p tcp ! --syn -j ACCEPT\nip route add 10.0.0.0/8 via 10.1.1.1\n")).isPanic = false := by
  rfl
example : Linux.parseConfig (lit "*filter\n:INPUT DROP\n-A INPUT !\n") =
    .diag (lit "Unexpected trailing '!' in line\n -A INPUT !") := by rfl

/-- `MergeSpoc` of package linux: the search for the insert position of `[APPEND]` rules never indexes
below 0, for ANY chain (empty, only DROP rules, …), and yields an index inside the chain. -/
theorem no_panic_linux_mergeSpoc (revDrop : List Bool) :
    NoPanic (Linux.appendIndex true revDrop) ∧ ∀ i, Linux.appendIndex true revDrop = .ok i → i ≤ revDrop.length :=
  ⟨Linux.appendIndex_noPanic revDrop, Linux.appendIndex_le revDrop⟩

/-- without the `i > 0` bound of the loop: an empty chain, or a chain of DROP rules only. -/
theorem linux_mergeSpoc_unbounded_counterexample :
    Linux.appendIndex false [] = .panic (.index "aChain.rules[i-1]") ∧
    Linux.appendIndex false [true, true] = .panic (.index "aChain.rules[i-1]") := ⟨rfl, rfl⟩

/-! ## NSX -/

/-- The checks of `ParseConfig` after the fix never panic, whatever `json.Unmarshal` produced. -/
theorem no_panic_nsx_parseConfig (isRaw : Bool) (c : Nsx.Config) : NoPanic (Nsx.validate true isRaw c) :=
  Nsx.validate_noPanic isRaw c

/-- … and on what they accept, every accessor path of the diff code is safe. -/
theorem nsx_accessors_safe (isRaw : Bool) (c : Nsx.Config) (h : Nsx.validate true isRaw c = .ok ()) :
    NoPanic (Nsx.sortGroups c) ∧ (∀ g ∈ c.groups, NoPanic (Nsx.firstAddr true g)) ∧
    (∀ r ∈ Nsx.allRules c, NoPanic (Nsx.ruleKeys r)) := by
  have hv := Nsx.validate_ok isRaw c h
  exact ⟨Nsx.sortGroups_noPanic c hv, fun g hg => Nsx.firstAddr_noPanic c hv g hg,
    fun r hr => Nsx.ruleKeys_noPanic c hv r hr⟩

theorem no_panic_nsx_equalizeGroups (ruleId path : Str) (ga gb : Option Nsx.Group) :
    NoPanic (Nsx.equalizeHead true ruleId path ga gb) := Nsx.equalizeHead_noPanic ruleId path ga gb

/-- Snapshot: `null` in the list of groups. -/
theorem nsx_null_counterexample :
    Nsx.validate false false ⟨[], [none], []⟩ = .panic (.nilDeref "g.Expression") := by rfl
/-- Snapshot: a validated group with an empty `ip_addresses` list, compared in `sortRules`. F-C20g. -/
theorem nsx_emptyAddresses_counterexample :
    Nsx.validate false false ⟨[], [some ⟨lit "Netspoc-g1", [some ⟨[]⟩]⟩], []⟩ = .ok () ∧
    Nsx.firstAddr false (some ⟨lit "Netspoc-g1", [some ⟨[]⟩]⟩) = .panic (.index "IPAddresses[0]") := by
  exact ⟨rfl, rfl⟩
/-- Snapshot: the target rule names a group that only the device defines (`gb == nil`). F-C20h. -/
theorem nsx_equalizeGroups_counterexample :
    Nsx.equalizeHead false (lit "r1") (lit "/infra/domains/default/groups/Netspoc-g1")
      (some ⟨lit "Netspoc-g1", [some ⟨[lit "10.1.1.1"]⟩]⟩) none = .panic (.nilDeref "gb.nameOnDevice") := by rfl

example : Nsx.validate true false ⟨[], [none], []⟩ = .diag (lit "Unexpected null in list of groups") := by rfl
example : Nsx.validate true true ⟨[some ⟨lit "Netspoc-v1", [some ⟨lit "x1", [lit "a"], [lit "b"], [lit "c"]⟩]⟩],
    [some ⟨lit "Netspoc-raw-g", [some ⟨[]⟩]⟩], [some ⟨lit "Netspoc-raw-s"⟩]⟩ = .ok () := by rfl

/-! ## PAN-OS -/

theorem no_panic_panos_checkRaw (c : PanOs.Config) : NoPanic (PanOs.checkRaw true c) := PanOs.checkRaw_noPanic c
theorem no_panic_panos_mergeSpoc (p1 p2 : PanOs.Config) : NoPanic (PanOs.mergeSpoc true p1 p2) :=
  PanOs.mergeSpoc_noPanic p1 p2
theorem no_panic_panos_getDevName (h : Option (List Str)) : NoPanic (PanOs.getDevName true h) :=
  PanOs.getDevName_noPanic h
theorem no_panic_panos_devNameFor (p1 : PanOs.Config) (v : Str) : NoPanic (PanOs.devNameFor p1 v) :=
  PanOs.devNameFor_noPanic p1 v

/-- Snapshot: raw file `<config></config>`. F-C20i. -/
theorem panos_checkRaw_counterexample :
    PanOs.checkRaw false ⟨none⟩ = .panic (.nilDeref "c.Devices.Entries") := by rfl
/-- Snapshot: `<config><devices></devices></config>` from Netspoc and a raw file with a vsys. -/
theorem panos_mergeSpoc_counterexample :
    PanOs.mergeSpoc false ⟨some []⟩ ⟨some [⟨lit "x", [⟨lit "vsys1", 0⟩]⟩]⟩ =
      .panic (.index "p1.Devices.Entries[0]") := by rfl
/-- Snapshot: the device answers the config request with an empty `<result>`. -/
theorem panos_getDevName_counterexample :
    PanOs.getDevName false none = .panic (.nilDeref "c.Devices.Entries") := by rfl

/-- `getObjListType` and `markAddresses` (panos/diff.go) recurse through nested address-groups; on
a group graph without cycle (rank function, established by `checkGroupCycle` for BOTH
configurations before `diffConfig` goes on) a stack of depth rank + 2 suffices … -/
theorem no_overflow_panos_getObjListType (groups : Str → Option (List Str)) (isAddr : Str → Bool)
    (rk : Str → Nat) (hrk : PanOs.Ranked groups rk) (fuel : Nat) (l : List Str)
    (h : ∀ e ∈ l, rk e + 1 < fuel) (h0 : 0 < fuel) : NoPanic (PanOs.objListType groups isAddr fuel l) :=
  PanOs.objListType_noPanic groups isAddr rk hrk fuel l h h0

theorem no_overflow_panos_markAddresses (groups : Str → Option (List Str)) (rk : Str → Nat)
    (hrk : PanOs.Ranked groups rk) (fuel : Nat) (l : List Str)
    (h : ∀ e ∈ l, rk e + 1 < fuel) (h0 : 0 < fuel) : NoPanic (PanOs.markAddresses groups fuel l) :=
  PanOs.markAddresses_noPanic groups rk hrk fuel l h h0

/-- … and with a cycle no stack is deep enough (Go: `fatal error: stack overflow`): the 1-cycle
g0 = [g0] and the 2-cycle g0 = [g1], g1 = [g0], reached from a rule whose only source is g0.
F-C20r; the device side is reached through `rulesPair.Equal → objectsTypeEq`. -/
theorem panos_groupCycle_counterexample (isAddr : Str → Bool) (fuel : Nat) :
    PanOs.objListType (fun n => if n = lit "g0" then some [lit "g0"] else none) isAddr fuel [lit "g0"] =
      .panic (.explicit "fatal error: stack overflow") := PanOs.objListType_cycle isAddr fuel

theorem panos_groupCycle2_counterexample (isAddr : Str → Bool) (fuel : Nat) :
    PanOs.objListType (fun n => if n = lit "g0" then some [lit "g1"] else if n = lit "g1" then some [lit "g0"] else none)
      isAddr fuel [lit "g0"] = .panic (.explicit "fatal error: stack overflow") :=
  (PanOs.objListType_cycle2 isAddr fuel).1

example : PanOs.Ranked (fun n => if n = lit "g0" then some [lit "a1"] else none)
    (fun n => if n = lit "g0" then 1 else 0) := by
  intro n ms h m hm
  by_cases hn : n = lit "g0"
  · simp [hn] at h; subst h; simp at hm; subst hm; simp [hn]; decide
  · simp [hn] at h

/-! ## info and status files, type assertions -/

/-- Snapshot: an info file with content `null` sets the pointer to nil. F-C20j. -/
theorem loadInfoFile_null_counterexample :
    Files.loadInfoFile false [.content true true false] = .panic (.nilDeref "info.IPList") := by rfl
/-- Still true after the fixes (known finding F-C20n, pinned by drc.t "Bad info file"): an
undecodable info file ends in `panic(err)`. -/
theorem loadInfoFile_garbage_counterexample :
    Files.loadInfoFile true [.content false false false] = .panic (.explicit "panic(err) // decode") := by rfl
/-- the complement: every existing info file readable and decodable ⇒ no panic … -/
theorem no_panic_loadInfoFile_partial (l : List Files.OpenRes)
    (h : ∀ o ∈ l, o ≠ .otherErr ∧ ∀ d n i, o = .content d n i → d = true) : NoPanic (Files.loadInfoFile true l) :=
  Files.loadInfoFile_noPanic l h
/-- … and otherwise only the two explicit `panic(err)`. -/
theorem loadInfoFile_only_explicit (l : List Files.OpenRes) (p : Panic) (h : Files.loadInfoFile true l = .panic p) :
    ∃ s, p = .explicit s := Files.loadInfoFile_explicitOnly l p h

example : Files.loadInfoFile true [.notExist, .content true true false] = .ok false := by rfl
example : (∀ o ∈ [Files.OpenRes.notExist, .content true false true], o ≠ .otherErr ∧
    ∀ d n i, o = .content d n i → d = true) := by decide

/-! ## the status file as bytes (audit follow-up: replaces the vacuous `no_panic_statusRead`) -/

/-- Bytes that are not JSON, or JSON whose top-level value is not an object (array, number,
string, bool, null): `status.Read` yields the zero status … -/
theorem status_nonObject_is_zero (t : Status.Top) (h : ∀ kvs, t ≠ .obj kvs) : Status.decode t = {} :=
  Status.decode_nonObject t h
/-- … unknown keys, an action that is not an object, a field of the wrong kind or a number that is
no int64 leave the value as it was (decoding goes on with the next key) … -/
theorem status_unknown_key_ignored (s : Status.St) (k : Str) (f : Status.Field)
    (h1 : Status.keyIs k "approve" = false) (h2 : Status.keyIs k "compare" = false) :
    Status.stepTop s (k, f) = s := Status.stepTop_unknown s k f h1 h2
theorem status_action_nonObject_ignored (a : Status.Action) (f : Status.Field) (h : ∀ kvs, f ≠ .obj kvs) :
    Status.decodeAction a f = a := Status.decodeAction_nonObject a f h
theorem status_bad_time_ignored (a : Status.Action) (k l : Str) (hk : Status.keyIs k "time" = true)
    (h1 : Status.keyIs k "result" = false) (h2 : Status.keyIs k "policy" = false) (h : Status.int64Of l = none) :
    Status.stepAction a (k, .num l) = a := Status.stepAction_time_bad a k l hk h1 h2 h
/-- … and `missing-approve` LISTS the device for every unreadable, non-JSON or wrong-shaped status
file; it does not list a device only if a record of a successful approve or an UPTODATE compare
with a policy name was decoded. -/
theorem status_garbage_is_listed (readable : Bool) (t : Status.Top)
    (h : readable = false ∨ ∀ kvs, t ≠ .obj kvs) (current : Str) :
    Status.check (Status.read readable t) current = .listed := Status.garbage_is_listed readable t h current
theorem status_not_listed_needs_record (v : Status.St) (current : Str) (h : Status.check v current ≠ .listed) :
    ((v.approve.result = lit "OK" ∨ v.approve.result = lit "WARNINGS") ∧ v.approve.policy ≠ []) ∨
    (v.compare.result = lit "UPTODATE" ∧ v.compare.policy ≠ []) := Status.check_not_listed v current h
/-- The status package has ONE panic: `panic(err)` in `write` when the file cannot be written
(pinned by ios_simul.t "do-approve approve: can't write status directory"); whatever was read. -/
theorem status_write_panics_iff_unwritable (v : Status.St) (policy : Str) (failed : Bool) (now : Int) (w : Bool) :
    (Status.setApprove v policy failed now w).isPanic = !w := Status.setApprove_panic_iff v policy failed now w
theorem no_panic_status_setCompare (v : Status.St) (policy : Str) (changed : Bool) (now : Int) :
    NoPanic (Status.setCompare v policy changed now true) := Status.setCompare_writable_noPanic v policy changed now

example : Status.decode (.obj [(lit "Approve", .obj [(lit "RESULT", .str (lit "OK")), (lit "time", .num (lit "7")),
      (lit "time", .num (lit "1.5")), (lit "policy", .null), (lit "policy", .str (lit "p1"))]),
    (lit "approve", .arr), (lit "x", .null)]) = { approve := ⟨lit "OK", lit "p1", 7⟩, compare := {} } := by rfl
example : Status.int64Of (lit "99999999999999999999") = none ∧ Status.int64Of (lit "-5") = some (-5) ∧
    Status.int64Of (lit "1e3") = none := by decide

/-! ## messages name the offending input -/

/-- Every rejection by the line loop of `ParseConfig` quotes a line of the file (ASA and IOS tables
or any other), … -/
theorem rejection_names_line (ds : List Descr) (isRaw : Bool) (data m : Str)
    (h : parseConfig true ds isRaw data = .diag m) : ∃ l ∈ splitLines data, Names m (trimRight l) :=
  parseConfig_diag_names_line ds isRaw data m h
/-- … every rejection by `postprocessACLParts`, the aaa-server normalisation, `dstOfRoute`,
`routeVRF`, `setTransRef` quotes the command, … -/
theorem rejection_names_command (tb : Tables) (orig : Str) :
    (∀ parts m, aclParts true tb orig parts = .diag m → Names m orig) ∧
    (∀ parsed m, aaaHost true orig parsed = .diag m → Names m orig) ∧
    (∀ v6 parsed m, dstOfRoute true v6 orig parsed = .diag m → Names m orig) ∧
    (∀ parsed m, routeVRF true orig parsed = .diag m → Names m orig) ∧
    (∀ names m, transRefs true orig names = .diag m → Names m orig) :=
  ⟨fun p m h => aclParts_diag_names tb orig p m h, fun p m h => aaaHost_diag_names orig p m h,
   fun v p m h => dstOfRoute_diag_names v orig p m h, fun p m h => routeVRF_diag_names orig p m h,
   fun n m h => transRefs_diag_names orig n m h⟩
/-- … and a dangling reference is reported with the command, the prefix and the name. -/
theorem rejection_names_reference (lk : Lookup) (isRaw : Bool) (orig : Str) (typRef refs : List Str) (m : Str)
    (h : checkRefs lk isRaw orig typRef refs = .diag m) :
    Names m orig ∧ ∃ p ∈ typRef, ∃ n ∈ refs, Names m p ∧ Names m n :=
  checkRefs_diag_names lk isRaw orig typRef refs m h

example : ∃ m, parseConfig true miniTable true (lit "interface E0\nbogus line\n") = .diag m ∧
    Names m (lit "bogus line") := ⟨_, rfl, names_mid _ _ _⟩

/-! ## PAN-OS: the cycle check establishes the rank function (no longer assumed) -/

/-- Soundness of `checkGroupCycle` (depth-first search, states visiting/done): if it returns without
reporting a cycle and was started on all groups, the group graph has a rank function. -/
theorem checkGroupCycle_sound (G : Str → Option (List Str)) (fuel : Nat) (names d : List Str)
    (hall : ∀ n, G n ≠ none → n ∈ names) (h : PanOs.checkGroupCycle G fuel names = .ok d) :
    PanOs.Ranked G (fun x => PanOs.rkR x d.reverse) := PanOs.checkGroupCycle_ranked G fuel names d hall h

/-- Hence: after a successful cycle check, `getObjListType` and `markAddresses` stay within a stack
of (number of finished groups + 3) frames, for ANY list they are called with. -/
theorem no_overflow_after_cycleCheck (G : Str → Option (List Str)) (isAddr : Str → Bool) (fuel : Nat)
    (names d : List Str) (hall : ∀ n, G n ≠ none → n ∈ names)
    (h : PanOs.checkGroupCycle G fuel names = .ok d) (l : List Str) :
    NoPanic (PanOs.objListType G isAddr (d.length + 3) l) ∧ NoPanic (PanOs.markAddresses G (d.length + 3) l) := by
  have hr := checkGroupCycle_sound G fuel names d hall h
  have hb : ∀ e ∈ l, PanOs.rkR e d.reverse + 1 < d.length + 3 := fun e _ => by
    have := PanOs.rank_le_groups e d; omega
  exact ⟨PanOs.objListType_noPanic G isAddr _ hr _ l hb (by omega),
    PanOs.markAddresses_noPanic G _ hr _ l hb (by omega)⟩

def twoGroups : Str → Option (List Str) := fun n =>
  if n = lit "g0" then some [lit "g1", lit "a1"] else if n = lit "g1" then some [lit "a1"] else none
example : PanOs.checkGroupCycle twoGroups 5 [lit "g0", lit "g1"] = .ok [lit "g1", lit "g0"] := by rfl
example : PanOs.checkGroupCycle (fun n => if n = lit "g0" then some [lit "g0"] else none) 5 [lit "g0"] =
    .diag (PanOs.cycleMsg (lit "g0")) := by rfl

/-! ## every panic site and guard of the modelled functions is in the table -/

set_option maxRecDepth 100000 in
/-- The regenerated list of sites (normalised keys) equals the hand-maintained table, key by key:
the translator compares the two key sets (`tableMismatch` lists every difference) — a kernel
`decide` over the 238 strings themselves takes minutes — and the lengths are compared here. -/
theorem sites_exact : NA.Gen.PanicSites.tableMismatch = [] ∧
    NA.Gen.PanicSites.sites.length = siteTable.length := by decide

/-! ## round 3: lookup map, checkReferences, merge index searches, removeBanner, all sites -/

instance (ds : List Descr) : Decidable (CleanSubsOf ds) := by unfold CleanSubsOf; infer_instance
instance (ds : List Descr) : Decidable (RefsDeclared ds) := by unfold RefsDeclared; infer_instance
instance (ds : List Descr) : Decidable (MaxRefs5 ds) := by unfold MaxRefs5; infer_instance

theorem asa_cleanSubsOf : CleanSubsOf asaTable := by decide
theorem ios_cleanSubsOf : CleanSubsOf iosTable := by decide
/-- the regenerated tables declare one referenced prefix per `$REF` token, at most five per template. -/
theorem asa_refsDeclared : RefsDeclared asaTable := by decide
theorem ios_refsDeclared : RefsDeclared iosTable := by decide
theorem asa_maxRefs5 : MaxRefs5 asaTable := by decide
theorem ios_maxRefs5 : MaxRefs5 iosTable := by decide
/-- every sub command template of `aaa-server` carries a `$REF`. -/
theorem asa_aaaSub_hasRef :
    ∀ d ∈ asaTable, d.pre = lit "aaa-server" → ∀ s ∈ d.sub, 1 ≤ s.1.count refTok := by decide

/-- Every command that the model of `ParseConfig` returns, for ANY file content: found for a
description of the table, at least as many words as prefix + template, one reference per `$REF`,
sub commands matched among the sub templates of that description. -/
theorem parser_result_topOK_asa (isRaw : Bool) (data : Str) (cmds : List Cmd)
    (h : parseConfig true asaTable isRaw data = .ok cmds) : ∀ c ∈ cmds, TopOK asaTable c :=
  parseConfig_inv asaTable asa_cleanTop asa_cleanSubsOf isRaw data cmds h
theorem parser_result_topOK_ios (isRaw : Bool) (data : Str) (cmds : List Cmd)
    (h : parseConfig true iosTable isRaw data = .ok cmds) : ∀ c ∈ cmds, TopOK iosTable c :=
  parseConfig_inv iosTable ios_cleanTop ios_cleanSubsOf isRaw data cmds h

/-- The lookup map: every stored list is non-empty and holds commands of the parse result under
their own (prefix, name) — `l[0]`, `acls[name][0]`, `ab.bCmds[0]` are in range. -/
theorem lookup_lists_nonempty (ds : List Descr) (cmds : List Cmd) :
    ∀ g ∈ buildLookup ds cmds, g.2 ≠ [] ∧ ∀ x ∈ g.2, x ∈ cmds ∧ keyOf ds x = g.1 :=
  fun g hg =>
    let h := buildLookup_ok ds (fun x => x ∈ cmds) cmds (fun c hc => hc) g hg
    ⟨h.1, fun x hx => h.2 x hx⟩

/-- `no_panic_aaaServer` with its hypotheses DERIVED from the parser model and the regenerated
ASA table: for any file content, the aaa-server part of `postprocessParsed` does not panic on any
entry of the lookup map. -/
theorem no_panic_aaaServer_derived (isRaw : Bool) (data : Str) (cmds : List Cmd)
    (h : parseConfig true asaTable isRaw data = .ok cmds) :
    ∀ g ∈ buildLookup asaTable cmds, g.1.1 = lit "aaa-server" → NoPanic (aaaGroup true g.1.2 g.2) :=
  aaaGroup_derived asaTable asa_cleanTop asa_cleanSubsOf isRaw data cmds h
    (fun d hd hp => asa_aaaServer_minWords d hd hp) asa_aaaSub_hasRef

example : ∃ cmds, parseConfig true asaTable false
    (lit "aaa-server N protocol ldap\naaa-server N (inside) host 1.2.3.4\n ldap-attribute-map M\n") = .ok cmds ∧
    (buildLookup asaTable cmds).any (fun g => g.1.1 = lit "aaa-server" ∧ g.2.length = 2) = true := by
  refine ⟨_, rfl, ?_⟩
  decide

/-- `checkReferences`: `c.typ.ref[i]` is in range whenever no command has more references than
registered prefixes … -/
theorem no_panic_checkReferences (fixed : Bool) (ds : List Descr) (lk : Lookup) (isRaw : Bool)
    (h : ∀ g ∈ lk, ∀ c ∈ g.2, RefsFit fixed ds c) : NoPanic (checkReferences fixed ds lk isRaw) :=
  checkReferences_noPanic fixed ds lk isRaw h

/-- … which holds for everything the parser returns (ASA and IOS tables, any file content) … -/
theorem no_panic_checkReferences_parsed_asa (isRaw : Bool) (data : Str) (cmds : List Cmd)
    (h : parseConfig true asaTable isRaw data = .ok cmds) :
    NoPanic (checkReferences true asaTable (buildLookup asaTable cmds) isRaw) := by
  apply checkReferences_noPanic
  intro g hg c hc
  have := (buildLookup_ok asaTable (TopOK asaTable) cmds (parser_result_topOK_asa isRaw data cmds h) g hg).2 c hc
  exact refsFit_of_topOK true asaTable asa_refsDeclared asa_maxRefs5 c this.1

theorem no_panic_checkReferences_parsed_ios (isRaw : Bool) (data : Str) (cmds : List Cmd)
    (h : parseConfig true iosTable isRaw data = .ok cmds) :
    NoPanic (checkReferences true iosTable (buildLookup iosTable cmds) isRaw) := by
  apply checkReferences_noPanic
  intro g hg c hc
  have := (buildLookup_ok iosTable (TopOK iosTable) cmds (parser_result_topOK_ios isRaw data cmds h) g hg).2 c hc
  exact refsFit_of_topOK true iosTable ios_refsDeclared ios_maxRefs5 c this.1

/-- … and stays true when `postprocessParsed` adds references: `postprocessACLParts` appends at
most five names (five `object-group` prefixes are registered), `setTransRef` stores at most eleven
after the fix (eleven prefixes are registered). -/
theorem postprocessACLParts_refs_le5 (fixed : Bool) (tb : Tables) (orig : Str) (parts : List Str)
    (r : List Str × List Str) (h : aclParts fixed tb orig parts = .ok r) : r.2.length ≤ 5 :=
  aclParts_refs_le5 fixed tb orig parts r h

theorem refsFit_after_postprocessASAACL (c : Cmd) (d : Nat × Descr) (hd : d ∈ indexed asaTable)
    (hdi : c.descr = d.1) (hpre : d.2.pre = lit "access-list") (hcnt : c.ref.length = 0) (tb : Tables)
    (p : Str) (refs : List Str) (h : asaACL true tb c.orig c.parsed = .ok (some (p, refs))) :
    ({ c with parsed := p, ref := c.ref ++ refs } : Cmd).ref.length ≤
      (typRefTop asaTable { c with parsed := p, ref := c.ref ++ refs }).length :=
  refsFit_asaACL asaTable c d hd hdi hpre hcnt tb p refs h

theorem setTransRef_refs_le11 (orig names : Str) (r : List Str × Str) (h : transRefs true orig names = .ok r) :
    r.1.length ≤ 11 := transRefs_le11 orig names r h

/-- Snapshot (F-C20t): twelve defined transform-sets, eleven registered prefixes. -/
theorem checkRefs_transformSet_counterexample :
    (transRefs false [] (lit "a a a a a a a a a a a a")).isPanic = false ∧
    checkRefs [((lit "crypto ipsec ikev1 transform-set", lit "a"), [])] false []
      (List.replicate 11 (lit "crypto ipsec ikev1 transform-set")) (List.replicate 12 (lit "a")) =
      .panic (.index "c.typ.ref[i]") := by
  exact ⟨rfl, rfl⟩
example : transRefs true (lit "cmd") (lit "a a a a a a a a a a a a") = .diag (lit "Too many names (max. 11) in: cmd") := by rfl

/-- Snapshot (F-C20u): an IOS ACL line with an object-group has a reference but no registered prefix. -/
theorem checkRefs_iosObjectGroup_counterexample :
    checkRefs [] false (lit "permit ip object-group G any")
      (typRefSub false iosTable ⟨3, [], [], [], 0, [], [], false⟩ ⟨1, [], [], [], 0, [lit "G"], [], false⟩)
      [lit "G"] = .panic (.index "c.typ.ref[i]") := by rfl
example : checkRefs [] false (lit "permit ip object-group G any")
      (typRefSub true iosTable ⟨3, [], [], [], 0, [], [], false⟩ ⟨1, [], [], [], 0, [lit "G"], [], false⟩)
      [lit "G"] = .diag (lit "'permit ip object-group G any' references unknown 'object-group G'") := by rfl

/-- `mergeASAACLs` / `mergeIOSACLs`: the search for the last permit line and the insert never
leave the ACL, for ANY lists of lines (IOS: `bCmds` non-empty, which `lookup_lists_nonempty` gives). -/
theorem no_panic_mergeASAACLs (a b : List AclLine) : NoPanic (mergeASAACL a b) := mergeASAACL_noPanic a b
theorem no_panic_mergeIOSACLs (aSub : List AclLine) (bCmds : List (List AclLine)) (hne : bCmds ≠ []) :
    NoPanic (mergeIOSACL aSub bCmds) := mergeIOSACL_noPanic aSub bCmds hne
theorem mergeIOSACLs_empty_counterexample : mergeIOSACL [] [] = .panic (.index "ab.bCmds[0]") := by rfl
example : mergeASAACL [⟨lit "p1", lit "access-list $NAME extended permit ip any4 any4", false⟩,
      ⟨lit "d1", lit "access-list $NAME extended deny ip any4 any4", false⟩]
    [⟨lit "r1", lit "access-list $NAME extended permit tcp any4 any4", false⟩,
     ⟨lit "a1", lit "access-list $NAME extended deny ip host 1.1.1.1 any4", true⟩] =
    .ok [⟨lit "r1", lit "access-list $NAME extended permit tcp any4 any4", false⟩,
         ⟨lit "p1", lit "access-list $NAME extended permit ip any4 any4", false⟩,
         ⟨lit "a1", lit "access-list $NAME extended deny ip host 1.1.1.1 any4", true⟩,
         ⟨lit "d1", lit "access-list $NAME extended deny ip any4 any4", false⟩] := by rfl

/-- `removeBanner` (ios/device.go) and `removeHeader` (nsx/parse.go): no Go panic and
TERMINATION (fuel `len(data)+1` is never used up: every iteration moves the read position
forward) for ANY bytes; the in-place copy never overtakes the read position. -/
theorem no_panic_removeBanner (data : Str) : NoPanic (Banner.removeBanner data) := Banner.removeBanner_noPanic data
theorem no_panic_removeHeader (data : Str) : NoPanic (Banner.removeHeader (data.length + 1) data) :=
  Banner.removeHeader_noPanic _ data (by omega)
example : Banner.removeBanner (lit "a\nbanner motd ^CC\nxx\n^C\nb\n") = .ok (lit "a\nb\n") := by rfl
example : Banner.removeHeader 20 (lit "# x\n#y\n{}") = .ok (lit "{}") := by rfl

/-- Every index / slice / type assertion / nil-map write / division / panic( site of the packages
reachable from the three mains has a class: theorem (key in `siteTable`), syntactic (recognised
guard pattern) or oracle (listed in translate/panicsites/oracle_sites.txt). -/
theorem all_sites_classified : NA.Gen.PanicSites.unclassified = [] := by decide
theorem all_sites_partition :
    NA.Gen.PanicSites.allSites_theorem + NA.Gen.PanicSites.allSites_syntactic + NA.Gen.PanicSites.allSites_oracle +
      NA.Gen.PanicSites.allSites_unclassified = NA.Gen.PanicSites.allSiteKeys := by decide

/-! ### checkReferences over the post-processed lookup map; diff engines -/

instance (ds : List Descr) : Decidable (AclNoRef ds) := by unfold AclNoRef; infer_instance
instance (ds : List Descr) : Decidable (IosSubNoRef ds) := by unfold IosSubNoRef; infer_instance

theorem asa_aclNoRef : AclNoRef asaTable := by decide
theorem ios_aclNoRef : AclNoRef iosTable := by decide
theorem asa_iosSubNoRef : IosSubNoRef asaTable := by decide
theorem ios_iosSubNoRef : IosSubNoRef iosTable := by decide

/-- ONE composed statement (both device types): for ANY file content, the commands the parser returns,
stored in the lookup map and post-processed (`postLookup`: ASA ACL, IOS ACL, aaa-server, the four
`setTransRef` passes), are checked by `checkReferences` without an index out of range in `c.typ.ref[i]`. -/
theorem no_panic_checkReferences_postprocessed (tb : Tables) (isRaw : Bool) (data : Str) :
    (∀ cmds lk', parseConfig true asaTable isRaw data = .ok cmds →
      postLookup tb (buildLookup asaTable cmds) = .ok lk' → NoPanic (checkReferences true asaTable lk' isRaw)) ∧
    (∀ cmds lk', parseConfig true iosTable isRaw data = .ok cmds →
      postLookup tb (buildLookup iosTable cmds) = .ok lk' → NoPanic (checkReferences true iosTable lk' isRaw)) :=
  ⟨fun cmds lk' h1 h2 => checkReferences_postprocessed_noPanic asaTable asa_cleanTop asa_cleanSubsOf asa_refsDeclared
      asa_maxRefs5 asa_aclNoRef asa_iosSubNoRef tb isRaw data cmds lk' h1 h2,
   fun cmds lk' h1 h2 => checkReferences_postprocessed_noPanic iosTable ios_cleanTop ios_cleanSubsOf ios_refsDeclared
      ios_maxRefs5 ios_aclNoRef ios_iosSubNoRef tb isRaw data cmds lk' h1 h2⟩

/-- the statement is not vacuous: a file whose ACL line references an object-group is parsed, stored and
post-processed, and the reference arrives in `c.ref`. -/
theorem postprocessed_nonvacuous : ∃ cmds lk',
    parseConfig true asaTable false (lit "access-list A extended permit ip object-group G any4\n") = .ok cmds ∧
    postLookup noTables (buildLookup asaTable cmds) = .ok lk' ∧
    lk'.any (fun g => g.2.any (fun c => c.ref == [lit "G"])) = true := by
  refine ⟨_, _, rfl, rfl, ?_⟩
  decide

/-- the edit scripts: every range of a valid script (NA.Acl.cellsOf) gives slices inside both lists. -/
theorem no_panic_diff_ranges (a b : List NA.Acl.Line) (rs : List NA.Acl.Range) (M : List NA.Acl.Cell)
    (h : NA.Acl.cellsOf a b rs = some M) {α β : Type} (la : List α) (lb : List β)
    (hla : la.length = a.length) (hlb : lb.length = b.length) :
    ∀ r ∈ rs, NoPanic (Diff.goSlice "a[LowA:HighA]" la r.lowA r.highA) ∧
      NoPanic (Diff.goSlice "b[LowB:HighB]" lb r.lowB r.highB) :=
  Diff.script_slices_noPanic a b rs M h la lb hla hlb

theorem no_panic_changes_bookkeeping (ch d ad : List Str) (cmd : Str) (hd : d ≠ []) (ha : ad ≠ []) :
    NoPanic (Diff.moveIOS ch d ad) ∧ NoPanic (Diff.moveASA ch d ad) ∧ NoPanic (Diff.dropResequence ch cmd d) :=
  ⟨Diff.moveIOS_noPanic ch d ad hd ha, Diff.moveASA_noPanic ch d ad hd ha, Diff.dropResequence_noPanic ch cmd d⟩

/-- without "every append is non-empty" the bookkeeping does fail: the hypothesis is needed. -/
theorem changes_bookkeeping_counterexample : (Diff.moveIOS [] [] []).isPanic = true := by rfl

def obligations : List Lean.Name := [
  ``asa_aclNoRef, ``ios_aclNoRef, ``asa_iosSubNoRef, ``ios_iosSubNoRef, ``no_panic_checkReferences_postprocessed,
  ``postprocessed_nonvacuous, ``no_panic_diff_ranges, ``no_panic_changes_bookkeeping, ``changes_bookkeeping_counterexample,
  ``Diff.cellsOf_rangesOK, ``Diff.sliceA_noPanic, ``Diff.sliceB_noPanic, ``Diff.sliceFromA_noPanic, ``Diff.indexFromA_noPanic,
  ``Diff.indexLowB_noPanic, ``Diff.indexEqualB_noPanic, ``Diff.indexEqualB_off_noPanic, ``Diff.indexInA_noPanic,
  ``Diff.panosMoveTo_noPanic,
  ``asa_cleanSubsOf, ``ios_cleanSubsOf, ``asa_refsDeclared, ``ios_refsDeclared, ``asa_maxRefs5, ``ios_maxRefs5,
  ``asa_aaaSub_hasRef, ``parser_result_topOK_asa, ``parser_result_topOK_ios, ``lookup_lists_nonempty,
  ``no_panic_aaaServer_derived, ``no_panic_checkReferences, ``no_panic_checkReferences_parsed_asa,
  ``no_panic_checkReferences_parsed_ios, ``postprocessACLParts_refs_le5, ``refsFit_after_postprocessASAACL,
  ``setTransRef_refs_le11, ``checkRefs_transformSet_counterexample, ``checkRefs_iosObjectGroup_counterexample,
  ``no_panic_mergeASAACLs, ``no_panic_mergeIOSACLs, ``mergeIOSACLs_empty_counterexample,
  ``no_panic_removeBanner, ``no_panic_removeHeader, ``all_sites_classified, ``all_sites_partition,
  ``gen_no_problems, ``sites_exact,
  ``asa_noQuoteTop, ``ios_noQuoteTop, ``asa_cleanTop, ``ios_cleanTop, ``asa_cleanSubs, ``ios_cleanSubs,
  ``asa_accessList_minWords, ``asa_aaaServer_minWords, ``ios_ipRoute_minWords, ``ios_interface_minWords,
  ``asa_cryptoMapInterface_minWords, ``ios_aclSub_minWords, ``asa_nameif_minWords,
  ``no_panic_matchCmd_partial, ``matchCmd_incomplete_string_counterexample, ``no_panic_matchCmd_noquote,
  ``matchCmd_empty_word_counterexample,
  ``no_panic_parseConfig_asa, ``no_panic_parseConfig_ios, ``parseConfig_indent_counterexample,
  ``no_panic_postprocessACLParts, ``aclParts_host_counterexample, ``aclParts_objectGroup_counterexample,
  ``aclParts_empty_counterexample, ``no_panic_postprocessASAACL, ``no_panic_postprocessIOSACL,
  ``no_panic_aaaServer, ``aaaServer_words, ``aaaHost_counterexample, ``aaaHost_emptyWord_counterexample,
  ``no_panic_stripMetric, ``no_panic_setTransRef, ``transRefs_blank_counterexample,
  ``no_panic_dstOfRoute, ``dstOfRoute_short_counterexample, ``dstOfRoute_vrf_counterexample,
  ``dstOfRoute_v6_counterexample, ``no_panic_routeVRF, ``routeVRF_counterexample, ``parsed_index_ok,
  ``no_panic_linux_parseConfig, ``no_panic_linux_mergeSpoc, ``linux_mergeSpoc_unbounded_counterexample,
  ``no_overflow_panos_getObjListType, ``no_overflow_panos_markAddresses, ``panos_groupCycle_counterexample,
  ``panos_groupCycle2_counterexample,
  ``no_panic_nsx_parseConfig, ``nsx_accessors_safe, ``no_panic_nsx_equalizeGroups, ``nsx_null_counterexample,
  ``nsx_emptyAddresses_counterexample, ``nsx_equalizeGroups_counterexample,
  ``no_panic_panos_checkRaw, ``no_panic_panos_mergeSpoc, ``no_panic_panos_getDevName, ``no_panic_panos_devNameFor,
  ``panos_checkRaw_counterexample, ``panos_mergeSpoc_counterexample, ``panos_getDevName_counterexample,
  ``loadInfoFile_null_counterexample, ``loadInfoFile_garbage_counterexample, ``no_panic_loadInfoFile_partial,
  ``loadInfoFile_only_explicit,
  ``status_nonObject_is_zero, ``status_unknown_key_ignored, ``status_action_nonObject_ignored, ``status_bad_time_ignored,
  ``status_garbage_is_listed, ``status_not_listed_needs_record, ``status_write_panics_iff_unwritable,
  ``no_panic_status_setCompare, ``rejection_names_line, ``rejection_names_command, ``rejection_names_reference,
  ``checkGroupCycle_sound, ``no_overflow_after_cycleCheck]

end NA.C20
