import NA.Proofs.AsaSafe
/-!
# C14 for the real ASA planner model: every command of `planASA M` is safe

For EVERY merged list `M` (any length; `mkey`s pairwise different in `olds M` and in `news M`),
the strict device accepts `planASA M` and after EVERY command each packet gets the old or the
new verdict — hence packets on which old and new ACL agree keep their verdict throughout —
provided

* `NoCross M`: every move emitted by `planASA M` that goes DOWNWARD (device line of old-only
  cell `i` re-added as new-only cell `j > i`, matched by `delLookup` on `mkey`) crosses only old
  lines (cells `c`, `i < c < j`, `c.old`) that commute with the moved line for every packet
  (decidable test `commutesAll`: one is a remark, or equal action, or disjoint match sets);
* `MoveSem M`: for every emitted move the re-added line hits the same packets as the deleted one
  (same `remark`, same `mask`; they have the same `mkey`).  `MkeySem M` (all cells of `M` with
  equal `mkey` hit the same packets) implies it.

Upward moves, adds, and the final deletes need no condition.  Without `NoCross` the statement is
false: `asa_steps_safe_needs_noCross` (the C14 counterexample F-C14 has `NoCross = false`).
The name `asa_steps_safe_partial` records that the unconditional property is false (F-C14).
-/
namespace NA.Acl

/-- All cells with equal `mkey` hit the same packets. -/
def MkeySem (M : List Cell) : Bool :=
  M.all fun c => M.all fun d => c.line.mkey != d.line.mkey || sameHits c.line d.line

theorem getD_mem_of_lt {α} [Inhabited α] (l : List α) (x : Nat) (h : x < l.length) :
    l.getD x default ∈ l := by
  simp [List.getD_eq_getElem?_getD, h]

theorem moveSem_of_mkeySem (M : List Cell) (h : MkeySem M = true) : MoveSem M = true := by
  apply List.all_eq_true.2
  intro j hj
  cases hd : delLookup M (M.getD j default).line.mkey with
  | none => rfl
  | some i =>
    obtain ⟨hi, _, _, hk⟩ := delLookup_some M _ i hd
    have hjl := ((mem_addIdx M j).1 hj).1
    have h1 := List.all_eq_true.1 h _ (getD_mem_of_lt M i hi)
    have h2 := List.all_eq_true.1 h1 _ (getD_mem_of_lt M j hjl)
    simp only [Bool.or_eq_true, bne_iff_ne, ne_eq] at h2
    rcases h2 with h2 | h2
    · exact absurd hk h2
    · simpa [hd] using h2

/-- After every command of the plan each packet gets the old or the new verdict. -/
theorem asa_steps_old_or_new (M : List Cell) (hold : ((olds M).map (·.mkey)).Nodup)
    (hnew : ((news M).map (·.mkey)).Nodup) (hcross : NoCross M = true) (hsem : MoveSem M = true) :
    ∃ tr, asaTrace (olds M) (planASA M) = some tr ∧
      ∀ s, s ∈ tr → ∀ p, eval s p = eval (olds M) p ∨ eval s p = eval (news M) p := by
  obtain ⟨tr, htr, hall⟩ :=
    (planASA_srun M (newInj_of_nodup M hnew) (oldInj_of_nodup M hold)).trace
  rw [masked_old] at htr
  refine ⟨tr, htr, fun s hs p => ?_⟩
  obtain ⟨ν, hν, e⟩ := hall s hs
  rw [e]
  exact hν.old_or_new (crossOK_of_noCross M hcross) (semOK_of_moveSem M hsem) p

/-- Step safety of C14 for the planner model: a packet on which the old and the new ACL agree
keeps that verdict after every command. -/
theorem asa_steps_safe_partial (M : List Cell) (hold : ((olds M).map (·.mkey)).Nodup)
    (hnew : ((news M).map (·.mkey)).Nodup) (hcross : NoCross M = true) (hsem : MoveSem M = true) :
    ∃ tr, asaTrace (olds M) (planASA M) = some tr ∧
      ∀ s, s ∈ tr → ∀ p, eval (olds M) p = eval (news M) p → eval s p = eval (olds M) p := by
  obtain ⟨tr, htr, hall⟩ := asa_steps_old_or_new M hold hnew hcross hsem
  refine ⟨tr, htr, fun s hs p hp => ?_⟩
  rcases hall s hs p with h | h
  · exact h
  · rw [h, hp]

/-- Without moves no side condition is needed. -/
theorem asa_steps_old_or_new_no_moves (M : List Cell) (hold : ((olds M).map (·.mkey)).Nodup)
    (hnew : ((news M).map (·.mkey)).Nodup) (hnm : NoMoves M = true) :
    ∃ tr, asaTrace (olds M) (planASA M) = some tr ∧
      ∀ s, s ∈ tr → ∀ p, eval s p = eval (olds M) p ∨ eval s p = eval (news M) p := by
  obtain ⟨tr, htr, hall⟩ :=
    (planASA_srun M (newInj_of_nodup M hnew) (oldInj_of_nodup M hold)).trace
  rw [masked_old] at htr
  refine ⟨tr, htr, fun s hs p => ?_⟩
  obtain ⟨ν, hν, e⟩ := hall s hs
  rw [e]
  exact hν.old_or_new (crossOK_of_noMoves M hnm) (semOK_of_noMoves M hnm) p

theorem asa_steps_safe_no_moves (M : List Cell) (hold : ((olds M).map (·.mkey)).Nodup)
    (hnew : ((news M).map (·.mkey)).Nodup) (hnm : NoMoves M = true) :
    ∃ tr, asaTrace (olds M) (planASA M) = some tr ∧
      ∀ s, s ∈ tr → ∀ p, eval (olds M) p = eval (news M) p → eval s p = eval (olds M) p := by
  obtain ⟨tr, htr, hall⟩ := asa_steps_old_or_new_no_moves M hold hnew hnm
  refine ⟨tr, htr, fun s hs p hp => ?_⟩
  rcases hall s hs p with h | h
  · exact h
  · rw [h, hp]

/-! ## Instances -/

def sfA : Line := { key := 1, mkey := 1, permit := true, mask := 3 }
def sfA' : Line := { key := 11, mkey := 1, permit := true, mask := 3 }   -- `log` changed
def sfB : Line := { key := 2, mkey := 2, permit := false, mask := 1 }    -- overlaps A, other action
def sfC : Line := { key := 3, mkey := 3, permit := true, mask := 4 }
def sfD : Line := { key := 4, mkey := 4, permit := false, mask := 8 }    -- disjoint from A

/-- The C14 counterexample (F-C14): `permit A` is moved below `deny B`, which is deleted last. -/
def sfCex : List Cell :=
  [⟨sfA, true, false⟩, ⟨sfB, true, false⟩, ⟨sfC, true, true⟩, ⟨sfA, false, true⟩]

/-- `NoCross` is necessary: all other hypotheses hold for `sfCex`, `NoCross` fails, and packet 0
(same verdict before and after) is denied in between. -/
theorem asa_steps_safe_needs_noCross :
    ((olds sfCex).map (·.mkey)).Nodup ∧ ((news sfCex).map (·.mkey)).Nodup ∧
    MoveSem sfCex = true ∧ NoCross sfCex = false ∧
    ∃ tr, asaTrace (olds sfCex) (planASA sfCex) = some tr ∧
      ∃ s, s ∈ tr ∧ ∃ p, eval (olds sfCex) p = eval (news sfCex) p ∧ eval s p ≠ eval (olds sfCex) p := by
  refine ⟨by decide, by decide, by decide, by decide, [[sfB, sfC, sfA], [sfC, sfA]], by decide,
    [sfB, sfC, sfA], by simp, 0, by decide, by decide⟩

/-- A downward move across a disjoint line of the other action and a line of the same action,
an add and a delete: the hypotheses hold.  device: A D C B;  target: D C A' E. -/
def sfOK : List Cell :=
  [⟨sfA, true, false⟩, ⟨sfD, true, true⟩, ⟨sfC, true, true⟩, ⟨sfA', false, true⟩,
   ⟨{ key := 5, mkey := 5, permit := true, mask := 16 }, false, true⟩, ⟨sfB, true, false⟩]

example : NoCross sfOK = true ∧ MoveSem sfOK = true ∧ MkeySem sfOK = true ∧ NoMoves sfOK = false := by
  decide
example : planASA sfOK =
    [Op.move 0 sfA 2 sfA', Op.add 3 { key := 5, mkey := 5, permit := true, mask := 16 },
     Op.del 4 sfB] := by decide
example : ∃ tr, asaTrace (olds sfOK) (planASA sfOK) = some tr ∧
    ∀ s, s ∈ tr → ∀ p, eval (olds sfOK) p = eval (news sfOK) p → eval s p = eval (olds sfOK) p :=
  asa_steps_safe_partial sfOK (by decide) (by decide) (by decide) (by decide)

/-- An UPWARD move across an overlapping line of the other action satisfies `NoCross`. -/
example : NoCross [⟨sfB, true, true⟩, ⟨sfA', false, true⟩, ⟨sfC, true, true⟩, ⟨sfA, true, false⟩] = true
    ∧ planASA [⟨sfB, true, true⟩, ⟨sfA', false, true⟩, ⟨sfC, true, true⟩, ⟨sfA, true, false⟩]
      = [Op.move 2 sfA 1 sfA'] := by decide

/-- A plan without moves. -/
example : NoMoves [⟨sfA, true, false⟩, ⟨sfB, true, true⟩, ⟨sfC, false, true⟩] = true := by decide

end NA.Acl

namespace NA.AsaSafe
def obligations : List Lean.Name := [
  ``NA.Acl.asa_steps_old_or_new, ``NA.Acl.asa_steps_safe_partial,
  ``NA.Acl.asa_steps_old_or_new_no_moves, ``NA.Acl.asa_steps_safe_no_moves,
  ``NA.Acl.asa_steps_safe_needs_noCross, ``NA.Acl.moveSem_of_mkeySem,
  ``NA.Acl.planASA_srun, ``NA.Acl.Shape.old_or_new]
end NA.AsaSafe
