import NA.Spec.Gate
import NA.Gen.CallGraph
/-!
# C11, layer 2b — writer sites found by TYPE (translate/callgraph/writers.go, leaves.go)

Every call in the module that hands data to a value of a connection / client type (goexpect,
net/http client / transport / request, os/exec, net dialer) or that opens a connection or
assembles a request, and — by a fixpoint — every call of a function that hands one of its
parameters on to such a call (a *carrier*), with one row per data argument
(`NA.Gen.CallGraph.writerSites`, regenerated on every run with go/types over the whole programs).
A request that is assembled in a helper is thus classified at the call that decides its content;
a device-I/O function the translator does not know is emitted as `unclassified` and accepted by
nothing here.

What a row is compared with is **meaning, not spelling**: a row is keyed by the package it stands
in and by its *sinks* (the foreign device-I/O functions, with argument index, the data finally
reaches — `GExpect.Send#0` is "a line on the console", `http.NewRequest#0` "the method of an NSX
request", …), never by the name of a function of the module; a non-constant argument is described
by the *leaves* of its data flow (constants with adjacent ones merged, parameters, foreign API
calls, device replies, data of the module's source packages), with locals followed through all
their definitions and helpers of the module expanded — renaming a local, a helper or a carrier,
extracting or inlining a helper, `Sprintf` ↔ `+`, moving a statement do not change a row; a new
constant, a new foreign call, a new source of data, another sink do.

(Own file, so that edits of `NA/Props/C11.lean` that follow the shared C06 model do not touch it.)
-/
namespace NA.C11W
open NA.Gate NA.Gate.Spec NA.Gen

/-! sinks -/
def kSend := "(*github.com/tailscale/goexpect.GExpect).Send#0"
def kSpawn := "github.com/tailscale/goexpect.SpawnWithArgs#0"
def kGet := "(*net/http.Client).Get#0"
def kDo := "(*net/http.Client).Do#0"
def kPostUrl := "(*net/http.Client).PostForm#0"
def kPostForm := "(*net/http.Client).PostForm#1"
def kReqMethod := "net/http.NewRequest#0"
def kReqUrl := "net/http.NewRequest#1"
def kReqBody := "net/http.NewRequest#2"
def kDial := "(*net.Dialer).Dial#0"

def nsxReadPaths : List String :=
  ["/policy/api/v1/infra/domains/default/gateway-policies", "/policy/api/v1/infra/services",
   "/policy/api/v1/infra/domains/default/groups"]

/-- a constant line of a command-line backend: what the specification says about it -/
def lineAllowed (pkg line : String) : Bool :=
  match pkg with
  | "asa" => harmless .asa (.lit line)
  | "ios" => harmless .ios (.lit line)
  | "cisco" => harmless .asa (.lit line) && harmless .ios (.lit line)
  | "linux" => harmless .linux (.lit line)
  | "console" => line == "exit\n"   -- `Conn.Close`, what `CloseConnection` of ASA and IOS ends the session with
  | _ => false

/-- a constant that reaches sink `k` from package `pkg`: what the specification says about it.
`Do#0` is the request assembled by `http.NewRequest`: a constant may reach it only as method,
path or body of that request, and is judged there. -/
def sinkLitOk (pkg : String) (sinks : List String) (k text : String) : Bool :=
  if k == kSend then lineAllowed pkg text
  else if k == kReqMethod then pkg == "nsx" && text == "GET"
  else if k == kReqUrl then pkg == "nsx" && nsxReadPaths.contains text
  else if k == kReqBody then pkg == "nsx" && text == "nil"
  else if k == kDo then sinks.contains kReqMethod || sinks.contains kReqUrl || sinks.contains kReqBody
  else if k == kGet then pkg == "panos" && harmless .panos (.lit text)
  else false

/-- a constant data argument: harmless at every sink it reaches -/
def wLitAllowed (s : CallGraph.WSite) : Bool :=
  !s.sinks.isEmpty && s.sinks.all fun k => sinkLitOk s.pkg s.sinks k s.text

def credentials := ["param", "src codefiles", "src program"]
def deviceAddr := ["call os.Getenv", "const \"SIMULATE_ROUTER\"", "const \"https://\"", "param"]

/-- The non-constant data arguments on the compare path, each justified: (package, sinks the data
may reach, leaves of the data flow).  Module-local helpers (unexported, every use a static call
from their own package) are looked through: a parameter of such a helper stands for the arguments
at its call sites on the compare side, so a row of `getRawJSON` / `sendRequest` / `httpPrefixGetLog`
lists the path / query constants its compare-side callers hand in (and none of the apply side). -/
def wFlowAllowed : List (String × List String × List String) := [
  -- user name (ssh command line) and password (answer to the password prompt) of the device, from
  -- the settings / the credentials file, looked up by the name of the code file
  ("asa", [kSpawn, kSend], credentials), ("ios", [kSpawn, kSend], credentials), ("linux", [kSpawn, kSend], credentials),
  -- the one place where a line is written to the expect connection: the parameter and a newline
  ("console", [kSend], ["const \"\\n\"", "param"]),
  -- Linux: grep of the configured regexp in /etc/issue
  ("linux", [kSend], ["call (*regexp.Regexp).String", "const \"' /etc/issue\"", "const \"grep '\"", "src program"]),
  -- NSX: GET of one gateway policy (id from the device's own list) / of the next page (cursor from
  -- the device's answer) under the three read-only paths
  ("nsx", [kDo, kReqUrl], ["const \"/\"", "const \"/policy/api/v1/infra/domains/default/gateway-policies\"",
    "const \"/policy/api/v1/infra/domains/default/groups\"", "const \"/policy/api/v1/infra/services\"",
    "reply (*net/http.Client).Do"]),
  ("nsx", [kDo, kReqUrl], ["const \"/policy/api/v1/infra/domains/default/gateway-policies\"",
    "const \"/policy/api/v1/infra/domains/default/groups\"", "const \"/policy/api/v1/infra/services\"",
    "const \"?cursor=\"", "reply (*net/http.Client).Do"]),
  -- NSX: the login — URL of the session service at the device's address, form with user and password
  ("nsx", [kPostUrl], ["call os.Getenv", "const \"/api/session/create\"", "const \"SIMULATE_ROUTER\"", "const \"https://\"", "param"]),
  ("nsx", [kPostForm], ["call (net/url.Values).Set", "const \"j_password\"", "const \"j_username\"", "const \"xxx\"", "param"]),
  -- NSX: every request = device address + path parameter; the assembled request with the session
  -- token of the login answer and the content type
  ("nsx", [kReqUrl], ["call os.Getenv", "const \"/\"", "const \"/policy/api/v1/infra/domains/default/gateway-policies\"",
    "const \"/policy/api/v1/infra/domains/default/groups\"", "const \"/policy/api/v1/infra/services\"",
    "const \"?cursor=\"", "const \"SIMULATE_ROUTER\"", "const \"https://\"", "param", "reply (*net/http.Client).Do"]),
  ("nsx", [kDo], ["call (net/http.Header).Set", "const \"application/json\"", "const \"content-type\"",
    "const \"x-xsrf-token\"", "reply (*net/http.Client).PostForm", "reply net/http.NewRequest"]),
  -- PAN-OS: address of the device; the key generation request; every other request = address,
  -- the API key the device answered, the query parameter
  ("panos", [kGet], deviceAddr),
  ("panos", [kGet], ["call (*net/url.URL).String", "call (net/url.Values).Encode", "call (net/url.Values).Set",
    "call net/url.Parse", "call os.Getenv", "const \"SIMULATE_ROUTER\"", "const \"api\"", "const \"https://\"",
    "const \"keygen\"", "const \"password\"", "const \"type\"", "const \"user\"", "param", "set Path", "set RawQuery"]),
  ("panos", [kGet], ["call os.Getenv", "const \"&\"", "const \"/api/?key=\"", "const \"SIMULATE_ROUTER\"",
    "const \"https://\"", "const \"type=config&action=get&xpath=/config/devices\"",
    "const \"type=op&cmd=<show><high-availability><state/></high-availability></show>\"", "param",
    "reply (*net/http.Client).Get"]),
  -- the ssh process (or the simulator) and the TCP dialer of the HTTP client
  ("console", [kSpawn], ["call os.Getenv", "call strings.Fields", "const \" -W %h:%p\"", "const \"-l\"", "const \"-o\"",
    "const \"ProxyCommand ssh \"", "const \"SIMULATE_ROUTER\"", "const \"ssh\"", "param", "src codefiles"]),
  ("httpdevice", [kDial], ["method-value"]),
  -- address, user, password handed to the login function of PAN-OS / NSX
  ("httpdevice", [kPostUrl, kPostForm, kGet], ["src codefiles"]),
  ("httpdevice", [kPostUrl, kPostForm, kGet], ["src codefiles", "src program"])]

def wSiteAllowed (s : CallGraph.WSite) : Bool :=
  if s.kind == "lit" then wLitAllowed s
  else if s.kind == "param" then CallGraph.carriers.any fun c => c.2.2 == s.pidx && c.2.1 == s.owner
  else if s.kind == "flow" then
    s.cls != "unclassified" && !s.sinks.isEmpty &&
      wFlowAllowed.any fun e => e.1 == s.pkg && s.sinks.all e.2.1.contains && e.2.2 == s.leaves
  else false

/-- **Every data argument of every call that can write to the device connection, in a function
reachable from compare, is a read-only constant, a parameter that is checked at every caller, or
data of one of the enumerated compositions** — found by type, also through helpers. -/
theorem writers_by_type_readonly :
    CallGraph.writerSites.all (fun s => !(decide (s.node < CallGraph.n)) || wSiteAllowed s) = true := by
  decide +kernel

/-- **No call of a carrier goes unseen**: whenever the VTA call graph has an edge from a function
reachable from compare to a carrier, the writer sites have a row for that caller and that callee —
also for calls through interfaces and function values. -/
theorem carrier_calls_covered :
    CallGraph.graph.all (fun e => !(decide (e.1 < CallGraph.n)) || e.2.all fun c =>
      match CallGraph.carriers.find? (·.1 == c) with
      | none => true
      | some k => CallGraph.writerSites.any fun s => s.node == e.1 && s.callee == k.2.1) = true := by
  decide +kernel

/-- The calls that touch the connection itself (not through a carrier) and are reachable from
compare, by package, foreign function, class and **number of call sites** — a new one (another
client method, an `exec`, a second place that writes to the expect connection) changes a count or
is not in the list.  None is unclassified; the only method value is the TCP dialer of the HTTP
transport. -/
def ioExpected : List ((String × String × String) × Nat) := [
  (("console", "(*github.com/tailscale/goexpect.GExpect).Send", "send"), 2),   -- `Conn.Send` and `Conn.Close`
  (("nsx", "(*net/http.Client).PostForm", "send"), 1),
  (("nsx", "net/http.NewRequest", "assemble"), 1),
  (("nsx", "(*net/http.Client).Do", "send"), 1),
  (("panos", "(*net/http.Client).Get", "send"), 1),
  (("console", "github.com/tailscale/goexpect.SpawnWithArgs", "connect"), 1),
  (("httpdevice", "(*net.Dialer).Dial", "method-value"), 1)]

def ioReachable : List (String × String × String) :=
  (CallGraph.ioCalls.filter fun c => decide (c.1 < CallGraph.n)).map (·.2)

theorem device_io_under_compare :
    ioReachable.all (fun c => ioExpected.any (·.1 == c)) = true ∧
    ioExpected.all (fun e => ioReachable.count e.1 == e.2) = true := by
  decide +kernel

/-- every call of the inventory has its rows among the writer sites (the two lists are one extraction) -/
theorem io_calls_have_rows :
    CallGraph.ioCalls.all (fun c => CallGraph.writerSites.any fun s =>
      s.node == c.1 && s.callee == c.2.2.1 && s.cls == c.2.2.2) = true := by
  decide +kernel

/-- Positive control: the same check rejects a row outside the compare path in each of the five
backend packages (their `ApplyCommands` / `cmd` / `writeMem` / `putScp` side). -/
theorem writers_check_rejects_apply :
    ["asa", "ios", "linux", "nsx", "panos"].all (fun p =>
        CallGraph.writerSites.any fun s => s.pkg == p && decide (CallGraph.n ≤ s.node) && !wSiteAllowed s) = true := by
  decide +kernel

/-- non-vacuity: rows of every kind are reachable from compare -/
example :
    ["lit", "param", "flow"].all (fun k =>
      CallGraph.writerSites.any fun s => decide (s.node < CallGraph.n) && s.kind == k) = true := by
  decide +kernel

def obligations : List Lean.Name := [
  ``writers_by_type_readonly, ``carrier_calls_covered, ``device_io_under_compare, ``io_calls_have_rows,
  ``writers_check_rejects_apply]

end NA.C11W
