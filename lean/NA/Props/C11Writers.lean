import NA.Spec.Gate
import NA.Gen.CallGraph
/-!
# C11, layer 2b — writer sites found by TYPE (translate/callgraph/writers.go)

Every call in the module that hands data to a value of a connection / client type (goexpect,
net/http client / transport / request, os/exec, net dialer) or that opens a connection or
assembles a request, and — by a fixpoint — every call of a function that hands one of its
parameters on to such a call (a *carrier*), with one row per data argument
(`NA.Gen.CallGraph.writerSites`, regenerated on every run with go/types over the whole programs).
A request that is assembled in a helper is thus classified at the call that decides its content;
a device-I/O function the translator does not know is emitted as `unclassified` and accepted by
nothing here.

(Own file, so that edits of `NA/Props/C11.lean` that follow the shared C06 model do not touch it.)
-/
namespace NA.C11W
open NA.Gate NA.Gate.Spec NA.Gen

/-- functions of `pkg/console` and `cisco` whose first argument is the line sent -/
def lineCarriers : List String :=
  ["(*console.Conn).GetCmdOutput", "(*console.Conn).SendCmd", "(*console.Conn).IssueCmd",
   "(*console.Conn).Send", "(*cisco.State).LoginEnable$1"]

def nsxReadPaths : List String :=
  ["/policy/api/v1/infra/domains/default/gateway-policies", "/policy/api/v1/infra/services",
   "/policy/api/v1/infra/domains/default/groups"]

/-- a constant line of a command-line backend: what the specification says about it -/
def lineAllowed (pkg line : String) : Bool :=
  match pkg with
  | "asa" => harmless .asa (.lit line)
  | "ios" => harmless .ios (.lit line)
  | "cisco" => harmless .asa (.lit line) && harmless .ios (.lit line)
  | "linux" => harmless .linux (.lit line)
  | _ => false

/-- a constant data argument: what the specification says about it -/
def wLitAllowed (s : CallGraph.WSite) : Bool :=
  if lineCarriers.contains s.callee then s.arg == 0 && lineAllowed s.pkg s.text
  else if s.callee == "(*nsx.State).sendRequest" then
    (s.arg == 0 && s.text == "GET") || (s.arg == 1 && nsxReadPaths.contains s.text) || (s.arg == 2 && s.text == "nil")
  else if s.callee == "(*nsx.State).getRawJSON" then s.arg == 0 && nsxReadPaths.contains s.text
  else if s.callee == "(*panos.State).httpPrefixGetLog" then s.arg == 0 && harmless .panos (.lit s.text)
  else false

/-- The non-constant data arguments on the compare path, each justified: (enclosing function,
callee, argument index, expression with the statements that define its locals). -/
def wExprAllowed : List (String × String × Nat × String) := [
  -- user name and password from the credentials file
  ("(*asa.State).LoadDevice", "console.GetSSHConn", 1, "cfg.GetUserPass(codefiles.GetHostname(spocFile))"),
  ("(*asa.State).LoadDevice", "(*cisco.State).LoginEnable", 0, "cfg.GetUserPass(codefiles.GetHostname(spocFile))"),
  ("(*ios.State).LoadDevice", "console.GetSSHConn", 1, "cfg.GetUserPass(codefiles.GetHostname(spocFile))"),
  ("(*ios.State).LoadDevice", "(*cisco.State).LoginEnable", 0, "cfg.GetUserPass(codefiles.GetHostname(spocFile))"),
  ("(*linux.State).LoadDevice", "console.GetSSHConn", 1, "cfg.GetUserPass(codefiles.GetHostname(spocFile))"),
  ("(*linux.State).LoadDevice", "(*linux.State).loginEnable", 0, "cfg.GetUserPass(codefiles.GetHostname(spocFile))"),
  -- the one place where a line is written to the expect connection
  ("(*console.Conn).Send", "(*github.com/tailscale/goexpect.GExpect).Send", 0, "cmd + \"\\n\""),
  -- Linux: grep of the configured regexp in /etc/issue
  ("(*linux.State).checkBanner", "(*console.Conn).GetCmdOutput", 0,
    "\"grep '\" + cfg.CheckBanner.String() + \"' /etc/issue\""),
  -- NSX: GET of one gateway policy / of the next page; the login form; the request is assembled here
  ("(*nsx.State).LoadDevice", "(*nsx.State).sendRequest", 1,
    "path + \"/\" + result.Id where path := \"/policy/api/v1/infra/domains/default/gateway-policies\"; path = \"/policy/api/v1/infra/services\"; path = \"/policy/api/v1/infra/domains/default/groups\""),
  ("(*nsx.State).LoadDevice$1", "(*net/http.Client).PostForm", 0, "s.prefix + \"/api/session/create\""),
  ("(*nsx.State).LoadDevice$1", "(*net/http.Client).PostForm", 1,
    "v where v := url.Values{}; v.Set(\"j_username\", user); v.Set(\"j_password\", \"xxx\"); v.Set(\"j_password\", pass)"),
  ("(*nsx.State).getRawJSON", "(*nsx.State).sendRequest", 1,
    "path + \"?cursor=\" + cursor where cursor string; results struct { Cursor string Results []json.RawMessage }; cursor = results.Cursor"),
  ("(*nsx.State).sendRequest", "net/http.NewRequest", 1, "s.prefix + path"),
  ("(*nsx.State).sendRequest", "(*net/http.Client).Do", 0, "http.NewRequest(method, s.prefix+path, body)"),
  -- PAN-OS: address of the device; the key generation request
  ("(*panos.State).LoadDevice$1", "(*panos.State).getAPIKey", 0, "httpdevice.GetHTTPClient(cfg, ip)"),
  ("(*panos.State).getAPIKey", "(*panos.State).httpGet", 0,
    "base.String() where base, err := url.Parse(addr); base.Path += \"api\"; params := url.Values{}; params.Set(\"type\", \"keygen\"); params.Set(\"user\", user); params.Set(\"password\", pass); base.RawQuery = params.Encode()"),
  -- the ssh process (or the simulator) and the TCP dialer of the HTTP client
  ("console.GetSSHConn", "github.com/tailscale/goexpect.SpawnWithArgs", 0,
    "cmd where ip, pdp, err := codefiles.GetIPPDP(spocFile); cmd := []string{\"ssh\", \"-l\", user, ip}; cmd = append(cmd, []string{\"-o\", \"ProxyCommand ssh \" + pdp + \" -W %h:%p\"}...); simul := os.Getenv(\"SIMULATE_ROUTER\"); cmd = strings.Fields(simul)"),
  ("httpdevice.GetHTTPClient", "(*net.Dialer).Dial", 0,
    "method value of (&net.Dialer{ Timeout: time.Duration(cfg.LoginTimeout) * time.Second, })"),
  -- address, user, password handed to the login closure of PAN-OS / NSX
  ("httpdevice.TryReachableHTTPLogin", "(*nsx.State).LoadDevice$1", 1,
    "ipList[i] where nameList, ipList, err := getHostnameIPList(fname)"),
  ("httpdevice.TryReachableHTTPLogin", "(*nsx.State).LoadDevice$1", 2, "cfg.GetUserPass(name)"),
  ("httpdevice.TryReachableHTTPLogin", "(*nsx.State).LoadDevice$1", 3, "cfg.GetUserPass(name)"),
  ("httpdevice.TryReachableHTTPLogin", "(*panos.State).LoadDevice$1", 1,
    "ipList[i] where nameList, ipList, err := getHostnameIPList(fname)"),
  ("httpdevice.TryReachableHTTPLogin", "(*panos.State).LoadDevice$1", 2, "cfg.GetUserPass(name)"),
  ("httpdevice.TryReachableHTTPLogin", "(*panos.State).LoadDevice$1", 3, "cfg.GetUserPass(name)")]

def wSiteAllowed (s : CallGraph.WSite) : Bool :=
  if s.kind == "lit" then wLitAllowed s
  else if s.kind == "param" then CallGraph.carriers.any fun c => c.2.2 == s.pidx && c.2.1 == s.owner
  else if s.kind == "expr" then
    -- numbers first, the long text last: string comparison is what the kernel is slow at
    s.cls != "unclassified" &&
      wExprAllowed.any fun e => e.2.2.1 == s.arg && e.1 == s.fn && e.2.1 == s.callee && e.2.2.2 == s.text
  else false

/-- **Every data argument of every call that can write to the device connection, in a function
reachable from compare, is a read-only constant, a parameter that is checked at every caller, or
one of the enumerated expressions** — found by type, also through helpers. -/
theorem writers_by_type_readonly :
    CallGraph.writerSites.all (fun s => !(decide (s.node < CallGraph.n)) || wSiteAllowed s) = true := by
  decide +kernel

/-- **No call of a carrier goes unseen**: whenever the VTA call graph has an edge from a function
reachable from compare to a carrier, the writer sites have a row for that caller and that callee —
also for calls through interfaces and function values. -/
theorem carrier_calls_covered :
    CallGraph.graph.all (fun e => !(decide (e.1 < CallGraph.n)) || e.2.all fun c =>
      match CallGraph.carriers.find? (·.1 == c) with
      | none => true
      | some k => CallGraph.writerSites.any fun s => s.node == e.1 && s.callee == k.2.1) = true := by
  decide +kernel

/-- The calls that touch the connection itself (not through a carrier) and are reachable from
compare are exactly these — a new one (another client method, an `exec`, a second place that
writes to the expect connection) changes the list.  None is unclassified; the only method value
is the TCP dialer of the HTTP transport. -/
theorem device_io_under_compare :
    ((CallGraph.writerSites.filter fun s =>
        decide (s.node < CallGraph.n) && !(s.cls == "carrier" || s.cls == "carrier-dyn")).map
      fun s => (s.fn, s.callee, s.cls)).eraseDups =
      [("(*console.Conn).Send", "(*github.com/tailscale/goexpect.GExpect).Send", "send"),
       ("(*nsx.State).LoadDevice$1", "(*net/http.Client).PostForm", "send"),
       ("(*nsx.State).sendRequest", "net/http.NewRequest", "assemble"),
       ("(*nsx.State).sendRequest", "(*net/http.Client).Do", "send"),
       ("(*panos.State).httpGet", "(*net/http.Client).Get", "send"),
       ("console.GetSSHConn", "github.com/tailscale/goexpect.SpawnWithArgs", "connect"),
       ("httpdevice.GetHTTPClient", "(*net.Dialer).Dial", "method-value")] := by
  decide +kernel

/-- Positive control: the same check rejects the apply side of every backend (and `scp`). -/
theorem writers_check_rejects_apply :
    ["(*asa.State).ApplyCommands", "(*ios.State).ApplyCommands$1", "(*linux.State).ApplyCommands",
     "(*nsx.State).ApplyCommands", "(*panos.State).ApplyCommands$2", "(*ios.State).writeMem",
     "(*linux.State).putScp"].all (fun f =>
        CallGraph.writerSites.any fun s => s.fn == f && !wSiteAllowed s) = true := by
  decide +kernel

def obligations : List Lean.Name := [
  ``writers_by_type_readonly, ``carrier_calls_covered, ``device_io_under_compare, ``writers_check_rejects_apply]

end NA.C11W
