import NA.Props.C17
import NA.Proofs.C17Cover
/-!
# C17, T-gen part: every sink call in scope of a secret is covered by a lemma

Separate module because it is re-checked whenever `/repo` changes (`NA.Gen.Sinks` is regenerated on
every run).
-/
namespace NA.C17Sites
open NA.C17

/-- Every sink call site that `translate/sinks` found in `/repo` (functions in which a secret-typed
value is in scope; interprocedural taint of parameters and returned errors) is classified by the
table `NA.C17.cover` — by site id, which hashes package, function, sink, argument text and taint
class — and no tainted site is classified as anything but the known finding F-C17. -/
theorem all_sink_sites_covered : NA.C17.uncovered = [] := by decide

/-- The sites through which F-C17 flows are exactly the ones the table lists under `fc17`. -/
theorem fc17_sites_exact : NA.C17.taintedSites = NA.C17.fc17Sites := by decide

/-- Every sink kind the property names occurs among the regenerated sites: session logs
(`.login/.config/.change/.cmp`), run log, history file, status file, stdout, stderr. -/
theorem every_sink_kind_listed : NA.C17.kindsPresent = [1, 2, 3, 4, 5, 6] := by decide

/-- Every failure kind of the source (an API whose error text embeds the request URL:
`client.Get/Do/PostForm`, `http.NewRequest`, `url.Parse`) either has a URL without secrets — then it
is harmless wherever the call stands — or is the PAN-OS `client.Get`. -/
theorem all_error_sources_classified : NA.C17.unclassifiedSources = [] := by decide

/-- **Flow model**: for every failure kind and every sink its error text reaches, the secrets of
the URL are redacted there (`passRE` / `apiRE` are the only sanitisers the translator knows) — or the
sink is the F-C17 site. -/
theorem error_flows_redacted :
    (NA.Gen.Sinks.errFlows.all fun f => !f.raw || NA.C17.fc17Sites.contains f.site) = true := by decide

/-- … and the raw flows are exactly one: the transport error of a PAN-OS request
(`panos.httpGet: s.client.Get(uri)`) reaching `device.ApproveOrCompare: errlog.Abort("%v", err)`. -/
theorem raw_flows_exact : NA.C17.rawFlows = [(197749963, 3659553034)] := by decide

/-! ## where a password can enter (regenerated table `inputs`) -/

/-- Every place where the program reads from outside — files, environment variables, terminal,
command line flags, `os.Args` — is classified by the hand-written table `inputKinds`; a new one (say a
flag `-p` or `os.Getenv("PASSWORD")`) has an unknown id and fails here. -/
theorem all_inputs_classified : NA.C17.unclassifiedInputs = [] := by decide

/-- Every place classified as a password source is a taint seed of `translate/sinks` … -/
theorem password_inputs_are_seeds : NA.C17.unseededPasswordInputs = [] := by decide

/-- … and the password sources are exactly two: the terminal (`askPassword`: `term.ReadPassword`, taken
with `drc -u USER`) and the credentials file (`getSystemPassword`: `os.ReadFile`). -/
theorem password_inputs_exact :
    NA.C17.seededInputs = [3900004185, 1574504650] ∧
    (NA.C17.inputKinds.filter fun p => p.2.isPassword).map (·.1) = [3900004185, 1574504650] := by decide

/-- There is no `-p` flag and no password environment variable: these are all flags and all
environment variables of the module, by name. -/
theorem no_password_flag_or_environment :
    NA.C17.inputNames "flag.StringP" = ["logdir", "LOGFILE", "user"] ∧
    NA.C17.inputNames "flag.BoolP" = ["brief", "compare", "quiet", "version"] ∧
    NA.C17.inputNames "os.Getenv" = ["TEST_TIME", "SIMULATE_ROUTER", "SIMULATE_ROUTER", "SIMULATE_ROUTER", "SIMULATE_ROUTER"] := by
  decide

/-! ## NSX and SSH runs derived from the regenerated steps

Nothing below is written by hand about where a secret goes: the steps (sink writes and transmissions,
in source order, with the labelled values they depend on) come from `translate/sinks`; what a sink
receives is an arbitrary function `F` of those values. -/

/-- **NSX**: for everything the code of package `nsx` may compute at its sinks, two runs that differ
in password, session token and cookie (labels 1, 3, 4 — and 2) write the same to every sink. -/
theorem nsx_steps_independent (F : Nat → NA.Mask.LEnv → NA.Mask.Str) (env1 env2 : NA.Mask.LEnv)
    (h0 : env1 0 = env2 0) :
    NA.Mask.runSteps F env1 (stepsOf 1) = NA.Mask.runSteps F env2 (stepsOf 1) :=
  NA.Mask.runSteps_independent F env1 env2 h0 _ (by decide)

/-- **SSH back ends and `console.Conn`**: likewise (the password is transmitted, never written);
label 0 includes the device output — that it does not depend on the password is the hypothesis
`noEchoAtPasswordPrompt` of `ssh_echo_device_independent`. -/
theorem ssh_steps_independent (F : Nat → NA.Mask.LEnv → NA.Mask.Str) (env1 env2 : NA.Mask.LEnv)
    (h0 : env1 0 = env2 0) :
    NA.Mask.runSteps F env1 (stepsOf 2) = NA.Mask.runSteps F env2 (stepsOf 2) :=
  NA.Mask.runSteps_independent F env1 env2 h0 _ (by decide)

/-- **PAN-OS package**: every sink step sees its secrets only through a redaction step. -/
theorem panos_steps_independent (F : Nat → NA.Mask.LEnv → NA.Mask.Str) (env1 env2 : NA.Mask.LEnv)
    (h0 : env1 0 = env2 0) :
    NA.Mask.runSteps F env1 (stepsOf 3) = NA.Mask.runSteps F env2 (stepsOf 3) :=
  NA.Mask.runSteps_independent F env1 env2 h0 _ (by decide)

/-- The rest of the module (device, httpdevice, doapprove, drc, errlog, program, status …): the only
sink step that depends on a secret is the F-C17 site. -/
theorem common_steps_secret_only_at_fc17 : NA.Mask.secretSinks (stepsOf 4) = NA.C17.fc17Sites := by decide

/-- The derived NSX runs are not vacuous: the analysis does see the password (login form) and the
session token (request header) being transmitted to the device. -/
theorem nsx_secrets_are_transmitted : transmits 1 [1] = true ∧ transmits 1 [3] = true := by decide

/-- … and the SSH back ends transmit the password (`console.Conn.Send`). -/
theorem ssh_password_is_transmitted : transmits 2 [1] = true := by decide

/-- The lemma behind every class of the table (checked names). -/
def coverLemma : Cover → Lean.Name
  | .clean => ``all_sink_sites_covered
  | .maskUri => ``mask_uri_independent
  | .maskBody => ``mask_body_independent
  | .maskError => ``mask_error_independent
  | .nsxLogin => ``nsx_login_log_independent
  | .deviceOutput => ``ssh_session_independent
  | .copyOfRunLog => ``sinks_independent
  | .wrapper => ``all_sink_sites_covered
  | .fc17 => ``sinks_independent_counterexample

/-- The theorem of the run model behind every failure kind. -/
def failureLemma : FailureKind → Lean.Name
  | .panosGet => ``keygen_independent           -- keygen: masked; later requests: ``sinks_independent_partial / F-C17
  | .panosAddrParse => ``keygen_independent
  | .nsxLoginPost => ``nsx_steps_independent
  | .nsxRequest => ``nsx_steps_independent

def obligations : List Lean.Name := [``all_sink_sites_covered, ``fc17_sites_exact, ``every_sink_kind_listed,
  ``all_error_sources_classified, ``error_flows_redacted, ``raw_flows_exact,
  ``nsx_steps_independent, ``ssh_steps_independent, ``panos_steps_independent, ``common_steps_secret_only_at_fc17,
  ``nsx_secrets_are_transmitted, ``ssh_password_is_transmitted,
  ``all_inputs_classified, ``password_inputs_are_seeds, ``password_inputs_exact, ``no_password_flag_or_environment]

end NA.C17Sites
