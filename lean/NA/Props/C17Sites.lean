import NA.Props.C17
import NA.Proofs.C17Cover
/-!
# C17, T-gen part: every sink call in scope of a secret is covered by a lemma

Separate module because it is re-checked whenever `/repo` changes (`NA.Gen.Sinks` is regenerated on
every run).
-/
namespace NA.C17Sites
open NA.C17

/-- Every sink call site that `translate/sinks` found in `/repo` (functions in which a secret-typed
value is in scope; interprocedural taint of parameters and returned errors) is classified by the
table `NA.C17.cover` — by site id, which hashes package, function, sink, argument text and taint
class — and no tainted site is classified as anything but the known finding F-C17. -/
theorem all_sink_sites_covered : NA.C17.uncovered = [] := by decide

/-- The sites through which F-C17 flows are exactly the ones the table lists under `fc17`. -/
theorem fc17_sites_exact : NA.C17.taintedSites = NA.C17.fc17Sites := by decide

/-- Every sink kind the property names occurs among the regenerated sites: session logs
(`.login/.config/.change/.cmp`), run log, history file, status file, stdout, stderr. -/
theorem every_sink_kind_listed : NA.C17.kindsPresent = [1, 2, 3, 4, 5, 6] := by decide

/-- Every failure kind of the source (a call whose error text embeds the request URL:
`client.Get/Do/PostForm`, `http.NewRequest`, `url.Parse`) is mapped to a failure kind of the run
model, and only the URL of the PAN-OS requests carries secrets. -/
theorem all_error_sources_classified : NA.C17.unclassifiedSources = [] := by decide

/-- **Flow model**: for every failure kind and every sink its error text reaches, the secrets of
the URL are redacted there (`passRE` / `apiRE` are the only sanitisers the translator knows) — or the
sink is the F-C17 site. -/
theorem error_flows_redacted :
    (NA.Gen.Sinks.errFlows.all fun f => !f.raw || NA.C17.fc17Sites.contains f.site) = true := by decide

/-- … and the raw flows are exactly one: the transport error of a PAN-OS request
(`panos.httpGet: s.client.Get(uri)`) reaching `device.ApproveOrCompare: errlog.Abort("%v", err)`. -/
theorem raw_flows_exact : NA.C17.rawFlows = [(31414, 2102085953)] := by decide

/-- The lemma behind every class of the table (checked names). -/
def coverLemma : Cover → Lean.Name
  | .clean => ``all_sink_sites_covered
  | .maskUri => ``mask_uri_independent
  | .maskBody => ``mask_body_independent
  | .maskError => ``mask_error_independent
  | .maskApi => ``mask_api_uri_independent
  | .nsxLogin => ``nsx_login_log_independent
  | .deviceOutput => ``ssh_session_independent
  | .copyOfRunLog => ``sinks_independent
  | .wrapper => ``all_sink_sites_covered
  | .fc17 => ``sinks_independent_counterexample

/-- The theorem of the run model behind every failure kind. -/
def failureLemma : FailureKind → Lean.Name
  | .panosGet => ``keygen_independent           -- keygen: masked; later requests: ``sinks_independent_partial / F-C17
  | .panosAddrParse => ``keygen_independent
  | .nsxLoginPost => ``nsx_sinks_independent
  | .nsxRequest => ``nsx_sinks_independent

def obligations : List Lean.Name := [``all_sink_sites_covered, ``fc17_sites_exact, ``every_sink_kind_listed,
  ``all_error_sources_classified, ``error_flows_redacted, ``raw_flows_exact]

end NA.C17Sites
