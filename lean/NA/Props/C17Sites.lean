import NA.Props.C17
import NA.Proofs.C17Cover
/-!
# C17, T-gen part: every sink call in scope of a secret is covered by a lemma

Separate module because it is re-checked whenever `/repo` changes (`NA.Gen.Sinks` is regenerated on
every run).
-/
namespace NA.C17Sites
open NA.C17

/-- Every sink call site that `translate/sinks` found in `/repo` (functions in which a secret-typed
value is in scope; interprocedural taint of parameters and returned errors) is classified by the
table `NA.C17.cover` — by site id, which hashes package, function, sink, argument text and taint
class — and no tainted site is classified as anything but the known finding F-C17. -/
theorem all_sink_sites_covered : NA.C17.uncovered = [] := by decide

/-- The sites through which F-C17 flows are exactly the ones the table lists under `fc17`. -/
theorem fc17_sites_exact : NA.C17.taintedSites = NA.C17.fc17Sites := by decide

/-- The lemma behind every class of the table (checked names). -/
def coverLemma : Cover → Lean.Name
  | .clean => ``all_sink_sites_covered
  | .maskUri => ``mask_uri_independent
  | .maskBody => ``mask_body_independent
  | .maskError => ``mask_error_independent
  | .maskApi => ``mask_api_uri_independent
  | .nsxLogin => ``nsx_login_log_independent
  | .deviceOutput => ``ssh_log_is_device_output_only
  | .copyOfRunLog => ``sinks_independent
  | .fc17 => ``sinks_independent_counterexample

def obligations : List Lean.Name := [``all_sink_sites_covered, ``fc17_sites_exact]

end NA.C17Sites
