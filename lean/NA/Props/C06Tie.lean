import NA.Model.GateProgs
import NA.Model.GateConfig
import NA.Gen.GateSkel
/-!
# C06 — the tie of the gate model to the Go source (regenerated on every run)

Kept apart from `NA.Props.C06` so that a change of the source re-checks exactly these facts.
The printed form of every guard of the model (`Pred.show`: strings.HasSuffix / Contains /
TrimSuffix / TrimSpace / `!=` / `len(x) == 0` / the checkbanner regexp test) is part of the
skeleton, so the *meaning* the model gives to a guard is determined by the source text it must
print to.
-/
namespace NA.C06Tie
open NA.Gate

/-- Every function of the model has exactly the skeleton that `translate/gateskel` extracts from
the Go source now: order of the calls in approve/compare, the gate before applyCommands, every
request with its literal argument, every guard with its condition text, every Abort. -/
theorem skeleton_matches :
    modelSkeletons.all (fun e => NA.Gen.GateSkel.functions.lookup e.1 == some e.2) = true := by
  decide +kernel

/-- drc: `-C` is the only source of `isCompare`, which is the first argument of
ApproveOrCompare; two arguments go to CompareFiles.  do-approve: `isCompare := action == "compare"`. -/
theorem front_ends_match :
    frontEndFacts.all (fun e =>
      (NA.Gen.GateSkel.functions.lookup e.1).map (fun l => l.filter isFrontEndItem) == some e.2) = true := by
  decide +kernel

/-- Which field each `GetErrUnmanaged` of the module returns — the model's `consults`. -/
theorem gate_impls :
    NA.Gen.GateSkel.gateImpls =
      [("cisco.(*State).GetErrUnmanaged", "recv.errUnmanaged"), ("linux.(*State).GetErrUnmanaged", "nil"),
       ("nsx.(*State).GetErrUnmanaged", "nil"), ("panos.(*State).GetErrUnmanaged", "recv.errUnmanaged")] := by
  decide

/-- `errUnmanaged` is written at exactly the three places the model has a `record` node. -/
theorem errUnmanaged_writes :
    NA.Gen.GateSkel.errUnmanagedWrites.map (·.1) =
      ["cisco.(*State).checkBanner", "linux.(*State).checkBanner", "panos.(*State).checkUnmanaged"] := by
  decide

/-- `program.LoadConfig`: its skeleton, with the dispatch of `insert` computed from the tables of
the model (`Config.multiKeys`: keys that may have several values — `checkbanner` is not among
them; `Config.singleKeys`: `checkbanner` is the key compiled with `regexp.Compile(val)`), the
"exactly one value" check between the two switches, `strings.Fields`, the `words[1] != "="` and
duplicate-key guards. -/
theorem loadConfig_matches :
    NA.Gen.GateSkel.functions.lookup "program.LoadConfig" = some Config.loadConfigSkel := by
  decide

def obligations : List Lean.Name := [
  ``skeleton_matches, ``front_ends_match, ``gate_impls, ``errUnmanaged_writes, ``loadConfig_matches]

end NA.C06Tie
