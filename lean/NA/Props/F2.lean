import NA.Proofs.F2Mode
import NA.Proofs.F2Exec
import NA.Proofs.F2Acl
import NA.Proofs.F2Unordered
import NA.Proofs.F1Names
import NA.Proofs.F2Final
import NA.Proofs.F2Equiv
import NA.Proofs.F2Plan
import NA.Proofs.F2Quiet
import NA.Proofs.F2Again
import NA.Proofs.F2Resume
import NA.Proofs.F2RouteScript
/-!
# F2 — the IOS diff engine on fragment F2 (C02, C07, C08, C10, C14)

Model: `NA.F2.engine` (NA/Model/IosEngine.lean) = decisions (`List MA`) → events (`expand`) → printed
lines (`render`, the `subCmdOf` bookkeeping).  Strict device: `NA.IosDev2` (NA/Spec/IosCfgDev.lean).
All theorems are for ALL inputs (configurations, scripts) unless a decidable hypothesis is named.
-/
namespace NA.F2
open NA.IosDev2
open NA.Acl (Range BlockEqG LineEqv)
open NA.F1 (genName isTagged diffUnordered lookupD)

/-! ## 1. Generated names -/

/-- `ios_names_fresh`: the name given to a transferred ACL is not a name on the device, carries the
`-DRC-` tag, every smaller index is taken; different target names get different generated names. -/
theorem ios_names_fresh (base : Name) (dev : List Name) :
    genName base dev ∉ dev ∧ isTagged (genName base dev) = true ∧
    (∀ k, k < NA.F1.firstFree base (dev.length + 1) dev 0 → NA.F1.drcName base k ∈ dev) ∧
    (∀ base' dev', genName base dev = genName base' dev' → base = base') :=
  ⟨NA.F1.genName_fresh base dev, NA.F1.genName_tagged base dev, NA.F1.genName_least base dev,
   fun _ _ h => NA.F1.genName_injective h⟩

example : genName "e0_in" ["e0_in-DRC-0", "x", "e0_in-DRC-1"] = "e0_in-DRC-2" := by decide

/-! ## 2. Configuration mode (C08) -/

/-- `ios_confmode_tracks`: in the script of the engine (any input) every sub-command arrives while
the device — whose mode is the last mode line, reset by `exit` and by every other top-level command
— is in the mode of the parent the sub-command was emitted for, and `exit` is sent only inside a
sub-mode.  `renderP` is the printed script annotated with those parents. -/
theorem ios_confmode_tracks (a b : Config) (sc : Scripts) :
    (renderP none ((engine a b sc).acts.flatMap expand)).map (·.2) = scriptOf (engine a b sc).acts ∧
    inModes none (renderP none ((engine a b sc).acts.flatMap expand)) = true :=
  ⟨renderP_map _ _, inModes_render _ none none (fun _ h => by cases h) (acts_wf _)⟩

/-- … for every list of well-formed events and every agreeing start (`m`: `subCmdOf`, `dm`: device). -/
theorem ios_confmode_tracks_events (evs : List Ev) (m dm : Option Mode)
    (hm : ∀ p, m = some p → dm = some p) (hwf : ∀ e ∈ evs, wfEv e = true) :
    inModes dm (renderP m evs) = true := inModes_render evs m dm hm hwf

/-- `ios_confmode_exec`: executing the printed script command by command on the strict device is the
mode-free semantics of the decisions' events: no command is refused (or accepted) because of the
configuration mode. -/
theorem ios_confmode_exec (acts : List MA) (d : Dev) (hmode : d.mode = none) :
    (exec d (scriptOf acts)).map strip = (evsRun d (acts.flatMap expand)).map strip :=
  exec_script acts d hmode

example : inModes none (renderP none (expand (.bind "e0" "x" "in") ++ expand (.transfer "y" []) ++
    expand (.bind "e0" "y" "out"))) = true := by decide

/-! ## 3. One ACL object (C02) -/

/-- `ios_acl_object_converges_partial` (incremental branch `diffIOSACLs`): for a pair that satisfies the
decidable hypotheses `incrOK` (valid script keeping a line, runs < 10000, lines pairwise different
modulo `log` per side, NO REMARK LINES), on every device that holds the ACL `aN` with the lines
`al`: resequence, mode line, numbered adds / moves / deletes and the final resequence are all
accepted; the ACL ends block-equivalent modulo `log` to the target (`BlockEqG LineEqv` on the
encoded lines: swaps of neighbours with equal action, replacement by a line equal modulo `log`;
table-free: `BlockEquivA` — same sequence of actions and block by block the same lines modulo `log`
up to order, remark lines ignored);
every other ACL, the interfaces and the routes are unchanged (`putAcl`).  Reduction to
`NA.Acl.IosAclProps.ios_plan_block_equiv_partial`. -/
theorem ios_acl_object_converges_partial (aN : Name) (al bl : List ALine) (rs : List Range)
    (hok : incrOK al bl rs = true) (d : Dev) (hhas : hasAcl d aN = true) (hmode : d.mode = none)
    (hnd : (aclNames d).Nodup) (hlines : (entriesOf d aN).map (·.2) = al) :
    ∃ esF, evsRun d (expand (.edit aN al bl rs)) = some (putAcl d aN esF) ∧
      BlockEqG LineEqv ((esF.map (·.2)).map (encP al bl)) (bl.map (encP al bl)) ∧
      BlockEquivA (esF.map (·.2)) bl := by
  obtain ⟨esF, h1, h2⟩ := edit_incremental aN al bl rs hok d hhas hmode hnd hlines
  exact ⟨esF, h1, h2, (show AclEqv (esF.map (·.2)) bl from ⟨al, h2⟩).blockEquivA⟩

/-- `ios_acl_object_replaced` (branch "no parts equal" of `diffCmds`, and a device ACL without
entries): all entries are deleted top-down by text, the target's are appended; accepted whenever
the target's lines can be appended one after the other (`replaceOK`); the ACL ends with exactly the
target's lines. -/
theorem ios_acl_object_replaced (aN : Name) (al bl : List ALine) (rs : List Range)
    (hok : replaceOK al bl rs = true) (d : Dev) (hhas : hasAcl d aN = true) (hmode : d.mode = none)
    (hnd : (aclNames d).Nodup) (hlines : (entriesOf d aN).map (·.2) = al) :
    ∃ esF, evsRun d (expand (.edit aN al bl rs)) = some (putAcl d aN esF) ∧ esF.map (·.2) = bl.map typed :=
  edit_replace aN al bl rs hok d hhas hmode hnd hlines

/-! ## 4. `diffUnordered` -/

/-- `ios_unordered_ranges`: for a duplicate-free device-side key list the ranges of `diffUnordered`
are: first delete / equal ranges whose flattened indices are exactly the device keys without / with
partner (paired with the last index of the key on the target side), in device order, then insert
ranges whose flattened indices are the target keys without partner, in target order; every range
lies inside the bounds and passes exactly one of the tests `IsDelete`/`IsInsert`/`IsEqual`. -/
theorem ios_unordered_ranges (as bs : List String) (hnd : as.Nodup) :
    ∃ rsA rsB, diffUnordered as bs = rsA ++ rsB ∧
      (∀ r ∈ rsA, kindOf as.length bs.length r = some .del ∨ kindOf as.length bs.length r = some .eq) ∧
      (∀ r ∈ rsB, kindOf as.length bs.length r = some .ins) ∧
      fDel rsA = sDel bs 0 as ∧ fEq rsA = sEq bs 0 as ∧ fIns rsB = sIns as 0 bs :=
  diffUnordered_spec as bs hnd

/-! ## 5. End to end -/

/-- **`ios_F2_converges_partial`** (END TO END, all of fragment F2; the unrestricted statement
`ios_F2_converges` is false: `ios_F2_converges_counterexample`).  For every pair of configurations and
Myers scripts that passes the decidable check `wfB` (names pairwise different, at most one `in`/`out`
binding per interface and every binding refers to a defined ACL, every ACL pair passes `pairOK` —
valid script, lines pairwise different modulo `log`, NO REMARK LINES in incrementally edited pairs —,
route lines pairwise different) and that `checkIOSInterfaces` accepts:

* the whole printed script (mode lines and `exit` included) is accepted command by command by the
  strict device started on the device configuration;
* every binding of a target interface is in place and points to an ACL that exists and is
  block-equivalent modulo `log` to the target's ACL (`BlockEquivA`); a direction the target does not
  bind is unbound;
* the route set is the device's minus the deleted routes of VRFs for which the target specifies
  routes plus the target's new routes;
* an interface the target does not name keeps its bindings, and the ACLs it binds exist with
  exactly their original entries (interfaces of unmanaged VRFs and interfaces unknown to Netspoc). -/
theorem ios_F2_converges_partial (a0 b : Config) (sc : Scripts) (hw : wfB a0 b sc = true) (hok : (engine a0 b sc).ok = true) :
    ∃ d', (exec (ofConfig a0) (engine a0 b sc).script).map strip = some d' ∧
      (∀ bi ∈ b.intfs, ∀ bd ∈ bi.binds, ∃ n, slotOf d' bi.name bd.dir = some n ∧ hasAcl d' n = true ∧
          BlockEquivA (linesOf d' n) (b.lines bd.acl)) ∧
      (∀ bi ∈ b.intfs, ∀ dir, isDir dir = true → dir ∉ bi.binds.map (·.dir) → slotOf d' bi.name dir = none) ∧
      (∀ t, t ∈ d'.routes ↔ (t ∈ a0.routes.map (·.text) ∧ ¬ DelT (alignVRFs a0 b {}).2.routes b.routes t) ∨
          InsT (alignVRFs a0 b {}).2.routes b.routes t) ∧
      (∀ x, x ∉ b.intfs.map (·.name) → ∀ dir, isDir dir = true → slotOf d' x dir = slotOf (ofConfig a0) x dir) ∧
      (∀ i ∈ a0.intfs, i.name ∉ b.intfs.map (·.name) → ∀ bd ∈ i.binds,
          hasAcl d' bd.acl = true ∧ entriesOf d' bd.acl = entriesOf (ofConfig a0) bd.acl) := by
  obtain ⟨d', h, h1, h2, h3, h4, h5⟩ := F2_end_to_end a0 b sc (WF_of_wfB hw) hok
  refine ⟨d', h, ?_, h2, h3, h4, h5⟩
  intro bi hbi bd hbd
  obtain ⟨n, k1, k2, k3⟩ := h1 bi hbi bd hbd
  exact ⟨n, k1, k2, k3.blockEquivA⟩

/-- `ios_script_accepted` (C08 for F2: `ios_objects_before_use`, `ios_no_referenced_acl_deleted`): under
`wfB` the strict device — which refuses `ip access-group` of an ACL that does not exist at that
moment, `no ip access-list extended` of a missing or still bound ACL, a used sequence number, a
duplicate entry, a sub-command outside its mode — accepts every command of the script. -/
theorem ios_script_accepted (a0 b : Config) (sc : Scripts) (hw : wfB a0 b sc = true) (hok : (engine a0 b sc).ok = true) :
    (exec (ofConfig a0) (engine a0 b sc).script).isSome = true := by
  obtain ⟨d', h, _⟩ := ios_F2_converges_partial a0 b sc hw hok
  cases hx : exec (ofConfig a0) (engine a0 b sc).script with
  | none => rw [hx] at h; cases h
  | some _ => rfl

/-- The rules of the strict device that C08 is about. -/
theorem device_rules (d d' : Dev) :
    (∀ a dir, exec1 d (.bind a dir) = .ok d' → hasAcl d a = true) ∧
    (∀ n, exec1 d (.noAcl n) = .ok d' → hasAcl d n = true ∧ aclBound d n = false) := by
  constructor
  · intro a dir h
    simp only [exec1, isEntryCmd, isBindCmd] at h
    cases hm : d.mode with
    | none => rw [hm] at h; simp at h
    | some m =>
      rw [hm] at h
      cases m with
      | acl n => simp at h
      | intf i =>
        simp only [Bool.false_eq_true, ↓reduceIte] at h
        by_cases hh : hasAcl d a = true
        · exact hh
        · simp [hh] at h
  · intro n h
    simp only [exec1, isEntryCmd, isBindCmd, Bool.false_eq_true, ↓reduceIte, execTop] at h
    by_cases h1 : hasAcl d n = true
    · by_cases h2 : aclBound d n = true
      · simp [h1, h2] at h
      · exact ⟨h1, by simpa using h2⟩
    · simp [h1] at h

theorem exec_split (d d' : Dev) (cs1 : List Chg) (c : Chg) (cs2 : List Chg) (h : exec d (cs1 ++ c :: cs2) = some d') :
    ∃ d1 d2, exec d cs1 = some d1 ∧ exec1 d1 c = .ok d2 := by
  rw [exec_append] at h
  cases h1 : exec d cs1 with
  | none => rw [h1] at h; cases h
  | some d1 =>
    rw [h1, Option.bind_some, exec_cons] at h
    cases h2 : exec1 d1 c with
    | error e => rw [h2] at h; cases h
    | ok d2 => exact ⟨d1, d2, rfl, h2⟩

/-- `ios_objects_before_use` (C08): under `wfB`, at the moment an `ip access-group ACL in|out` of the
script is executed (after any prefix of the script), `ACL` exists on the device. -/
theorem ios_objects_before_use (a0 b : Config) (sc : Scripts) (hw : wfB a0 b sc = true) (hok : (engine a0 b sc).ok = true)
    (cs1 cs2 : List Chg) (acl : Name) (dir : String) (hs : (engine a0 b sc).script = cs1 ++ .bind acl dir :: cs2) :
    ∃ d1, exec (ofConfig a0) cs1 = some d1 ∧ hasAcl d1 acl = true := by
  have hacc := ios_script_accepted a0 b sc hw hok
  cases hx : exec (ofConfig a0) (engine a0 b sc).script with
  | none => rw [hx] at hacc; cases hacc
  | some d' =>
    rw [hs] at hx
    obtain ⟨d1, d2, h1, h2⟩ := exec_split _ _ _ _ _ hx
    exact ⟨d1, h1, (device_rules d1 d2).1 acl dir h2⟩

/-- `ios_no_referenced_acl_deleted` (C08): under `wfB`, at the moment a `no ip access-list extended N`
of the script is executed, `N` exists and no interface binds it (the last binding is gone). -/
theorem ios_no_referenced_acl_deleted (a0 b : Config) (sc : Scripts) (hw : wfB a0 b sc = true)
    (hok : (engine a0 b sc).ok = true)
    (cs1 cs2 : List Chg) (n : Name) (hs : (engine a0 b sc).script = cs1 ++ .noAcl n :: cs2) :
    ∃ d1, exec (ofConfig a0) cs1 = some d1 ∧ hasAcl d1 n = true ∧ aclBound d1 n = false := by
  have hacc := ios_script_accepted a0 b sc hw hok
  cases hx : exec (ofConfig a0) (engine a0 b sc).script with
  | none => rw [hx] at hacc; cases hacc
  | some d' =>
    rw [hs] at hx
    obtain ⟨d1, d2, h1, h2⟩ := exec_split _ _ _ _ _ hx
    exact ⟨d1, h1, (device_rules d1 d2).2 n h2⟩

/-- `ios_bindings_converge`: after the script every target interface has exactly the target's in/out
bindings, pointing to ACLs equivalent to the target's. -/
theorem ios_bindings_converge (a0 b : Config) (sc : Scripts) (hw : wfB a0 b sc = true) (hok : (engine a0 b sc).ok = true) :
    ∃ d', (exec (ofConfig a0) (engine a0 b sc).script).map strip = some d' ∧
      ∀ bi ∈ b.intfs, ∀ dir, isDir dir = true →
        match bi.binds.find? (·.dir == dir) with
        | some bd => ∃ n, slotOf d' bi.name dir = some n ∧ hasAcl d' n = true ∧ BlockEquivA (linesOf d' n) (b.lines bd.acl)
        | none => slotOf d' bi.name dir = none := by
  obtain ⟨d', h, h1, h2, _⟩ := ios_F2_converges_partial a0 b sc hw hok
  refine ⟨d', h, ?_⟩
  intro bi hbi dir hdir
  cases hf : bi.binds.find? (·.dir == dir) with
  | some bd =>
    have hmem := List.mem_of_find?_eq_some hf
    have hd : bd.dir = dir := by simpa using List.find?_some hf
    obtain ⟨n, k1, k2, k3⟩ := h1 bi hbi bd hmem
    exact ⟨n, by rw [← hd]; exact k1, k2, k3⟩
  | none =>
    apply h2 bi hbi dir hdir
    intro hc
    obtain ⟨bd, hbd, hbdd⟩ := List.mem_map.mp hc
    have := List.find?_eq_none.mp hf bd hbd
    simp [hbdd] at this

/-- `ios_routes_converge` (per VRF): for a VRF in which the target specifies routes, a route line of
either side is on the device after the script iff it is a route of the target. -/
theorem ios_routes_converge (a0 b : Config) (sc : Scripts) (hw : wfB a0 b sc = true) (hok : (engine a0 b sc).ok = true) :
    ∃ d', (exec (ofConfig a0) (engine a0 b sc).script).map strip = some d' ∧
      (∀ r ∈ a0.routes ++ b.routes, r.vrf ∈ b.routes.map (·.vrf) →
        (r.text ∈ d'.routes ↔ r.text ∈ b.routes.map (·.text))) ∧
      (∀ t ∈ d'.routes, t ∈ a0.routes.map (·.text) ∨ t ∈ b.routes.map (·.text)) := by
  obtain ⟨d', h, _, _, hr, _⟩ := ios_F2_converges_partial a0 b sc hw hok
  have hwf := WF_of_wfB hw
  refine ⟨d', h, ?_, ?_⟩
  · intro r hr0 hv
    rw [hr r.text]
    constructor
    · rintro (⟨h1, h2⟩ | ⟨r', hr', h3, _⟩)
      · -- a device route that stays: it is not deleted, so it is a target route
        apply Classical.byContradiction
        intro hnb
        apply h2
        -- it is a compared device route
        obtain ⟨r0, hr0m, hr0t⟩ := List.mem_map.mp h1
        have hsame : r0.vrf = r.vrf := by
          rcases List.mem_append.mp hr0 with hra | hrb
          · -- both are device routes with the same text
            obtain ⟨k, hk, hkk⟩ := List.getElem_of_mem hr0m
            obtain ⟨k', hk', hkk'⟩ := List.getElem_of_mem hra
            have : k = k' := by
              have h1' : (a0.routes.map (·.text))[k]'(by simpa using hk) = (a0.routes.map (·.text))[k']'(by simpa using hk') := by
                simp only [List.getElem_map, hkk, hkk', hr0t]
              exact (List.getElem_inj hwf.aRoutes).mp h1'
            subst this
            rw [← hkk, ← hkk']
          · exact hwf.routeVrf r0 hr0m r hrb hr0t
        have hkeep : r0 ∈ (alignVRFs a0 b {}).2.routes := by
          unfold alignVRFs
          simp only
          split
          · exact hr0m
          · exact List.mem_filter.mpr ⟨hr0m, by rw [hsame]; simp [hv]⟩
        exact ⟨r0, hkeep, hr0t, hnb, by rw [hsame]; simpa using hv⟩
      · rw [← h3]; exact List.mem_map_of_mem hr'
    · intro hb
      by_cases hA : r.text ∈ ((alignVRFs a0 b {}).2.routes).map (·.text)
      · left
        obtain ⟨r0, hr0m, hr0t⟩ := List.mem_map.mp hA
        have hsub : r0 ∈ a0.routes := by
          have : ∀ x ∈ (alignVRFs a0 b {}).2.routes, x ∈ a0.routes := by
            intro x hx
            unfold alignVRFs at hx
            simp only at hx
            split at hx
            · exact hx
            · exact (List.mem_filter.mp hx).1
          exact this r0 hr0m
        refine ⟨by rw [← hr0t]; exact List.mem_map_of_mem hsub, ?_⟩
        rintro ⟨a, _, _, h4, _⟩
        exact h4 hb
      · right
        obtain ⟨r', hr', hr't⟩ := List.mem_map.mp hb
        exact ⟨r', hr', hr't, hA⟩
  · intro t ht
    rcases (hr t).mp ht with ⟨h1, _⟩ | ⟨r', hr', h3, _⟩
    · exact Or.inl h1
    · exact Or.inr (by rw [← h3]; exact List.mem_map_of_mem hr')

/-- `ios_routes_untouched_if_unspecified`: a device route of a VRF for which the target specifies no
route is still there after the script (and no route is added to such a VRF: every added route is a
target route, `ios_routes_converge`). -/
theorem ios_routes_untouched_if_unspecified (a0 b : Config) (sc : Scripts) (hw : wfB a0 b sc = true)
    (hok : (engine a0 b sc).ok = true) :
    ∃ d', (exec (ofConfig a0) (engine a0 b sc).script).map strip = some d' ∧
      ∀ r ∈ a0.routes, r.vrf ∉ b.routes.map (·.vrf) → r.text ∈ d'.routes := by
  obtain ⟨d', h, _, _, hr, _⟩ := ios_F2_converges_partial a0 b sc hw hok
  have hwf := WF_of_wfB hw
  refine ⟨d', h, ?_⟩
  intro r hr0 hv
  rw [hr r.text]
  left
  refine ⟨List.mem_map_of_mem hr0, ?_⟩
  rintro ⟨a, ha, hat, _, hav⟩
  -- the deleted route has the same text, hence is `r`
  have hsub : a ∈ a0.routes := by
    have : ∀ x ∈ (alignVRFs a0 b {}).2.routes, x ∈ a0.routes := by
      intro x hx
      unfold alignVRFs at hx
      simp only at hx
      split at hx
      · exact hx
      · exact (List.mem_filter.mp hx).1
    exact this a ha
  obtain ⟨k, hk, hkk⟩ := List.getElem_of_mem hsub
  obtain ⟨k', hk', hkk'⟩ := List.getElem_of_mem hr0
  have : k = k' := by
    have h1' : (a0.routes.map (·.text))[k]'(by simpa using hk) = (a0.routes.map (·.text))[k']'(by simpa using hk') := by
      simp only [List.getElem_map, hkk, hkk', hat]
    exact (List.getElem_inj hwf.aRoutes).mp h1'
  subst this
  have har : a = r := by rw [← hkk, ← hkk']
  rw [har] at hav
  exact hv (by simpa using hav)

/-- `alignVRFs_frame` + `ios_unmanaged_vrf_untouched` (C07 for F2): an interface the target does not
name — in particular every interface of a VRF the target does not mention, and an interface unknown
to Netspoc in a managed VRF — keeps its bindings; the ACLs it binds still exist with exactly their
original entries (never edited, never deleted). -/
theorem ios_unmanaged_vrf_untouched (a0 b : Config) (sc : Scripts) (hw : wfB a0 b sc = true)
    (hok : (engine a0 b sc).ok = true) :
    ∃ d', (exec (ofConfig a0) (engine a0 b sc).script).map strip = some d' ∧
      (∀ x, x ∉ b.intfs.map (·.name) → ∀ dir, isDir dir = true → slotOf d' x dir = slotOf (ofConfig a0) x dir) ∧
      (∀ i ∈ a0.intfs, i.name ∉ b.intfs.map (·.name) → ∀ bd ∈ i.binds,
          hasAcl d' bd.acl = true ∧ entriesOf d' bd.acl = entriesOf (ofConfig a0) bd.acl) := by
  obtain ⟨d', h, _, _, _, h4, h5⟩ := ios_F2_converges_partial a0 b sc hw hok
  exact ⟨d', h, h4, h5⟩

/-- `alignVRFs` itself: it only removes interfaces and routes (of VRFs the target does not mention)
from the compared device configuration, never touches the access lists, and marks the ACLs of
every removed interface `needed`. -/
theorem alignVRFs_frame (a b : Config) :
    (alignVRFs a b {}).2.acls = a.acls ∧
    (∀ i ∈ a.intfs, i ∈ (alignVRFs a b {}).2.intfs ∨ Marked a (alignVRFs a b {}).1 i) ∧
    (∃ p : Intf → Bool, (alignVRFs a b {}).2.intfs = a.intfs.filter p) ∧
    (∃ p : Route → Bool, (alignVRFs a b {}).2.routes = a.routes.filter p) := by
  obtain ⟨_, h2, h3, h4, h5⟩ := alignVRFs_spec a b {} ⟨rfl, rfl, rfl, rfl, rfl, rfl⟩
  exact ⟨h2, h3, h4, h5⟩

/-! ## 5b. Unchanged ⇔ settled; second compare -/

/-- **`ios_F2_unchanged_only_if_equivalent`**: under `wfB`, if the engine prints nothing ("device
unchanged"), then the device already is as the target says: every target binding is in place and
points to an existing ACL that is block-equivalent modulo `log` to the target's, directions the target
does not bind are unbound, and in every VRF for which the target specifies routes the device's routes
are exactly the target's. -/
theorem ios_F2_unchanged_only_if_equivalent (a0 b : Config) (sc : Scripts) (hw : wfB a0 b sc = true)
    (hok : (engine a0 b sc).ok = true) (hempty : (engine a0 b sc).script = []) :
    (∀ bi ∈ b.intfs, ∀ bd ∈ bi.binds, ∃ n, slotOf (ofConfig a0) bi.name bd.dir = some n ∧ hasAcl (ofConfig a0) n = true ∧
        BlockEquivA (linesOf (ofConfig a0) n) (b.lines bd.acl)) ∧
    (∀ bi ∈ b.intfs, ∀ dir, isDir dir = true → dir ∉ bi.binds.map (·.dir) → slotOf (ofConfig a0) bi.name dir = none) ∧
    (∀ r ∈ a0.routes ++ b.routes, r.vrf ∈ b.routes.map (·.vrf) →
        (r.text ∈ a0.routes.map (·.text) ↔ r.text ∈ b.routes.map (·.text))) := by
  obtain ⟨d', h, h1, h2, _⟩ := ios_F2_converges_partial a0 b sc hw hok
  obtain ⟨d'', h', h3, _⟩ := ios_routes_converge a0 b sc hw hok
  rw [hempty, exec_nil] at h h'
  simp only [Option.map_some, Option.some.injEq] at h h'
  subst h; subst h'
  exact ⟨h1, h2, h3⟩

/-- The ACL half of it, for one pair: a quiet line planner on a pair of the class `incrOK` means block
equivalence modulo `log` (from `planIOS_empty_blockEquiv`, F2Plan). -/
theorem ios_acl_quiet_only_if_equivalent (al bl : List ALine) (rs : List Range) (hok : incrOK al bl rs = true)
    (hq : quietLines al bl rs = true) : BlockEquivA al bl := quietLines_blockEquivA al bl rs hok hq

/-- **`ios_F2_quiet`** (the converse direction): a pair of configurations that is statically settled
(`settledB`: same directions bound on interfaces of the same name, device and target ACLs paired
one-to-one by these bindings, no compared device ACL bound by an interface without partner, the line
planner quiet on every compared pair, target routes present and no further route in a VRF with target
routes, every `-DRC-` ACL compared or bound without partner) gives the EMPTY script — "device
unchanged".  No hypothesis on remark lines. -/
theorem ios_F2_quiet (a b : Config) (sc : Scripts) (hS : settledB a b sc = true) : (engine a b sc).script = [] :=
  F2_quiet a b sc hS

/-- **`ios_F2_idempotent_partial`** (the second compare).  Under `wfB` the script is accepted and leads
to a device `d'`; let `a2` be the configuration a further compare reads from `d'` (`reconf`).  Then

* every pair of ACLs the second compare looks at (`cmpPairs`) is block-equivalent modulo `log`;
* for EVERY Myers result `sc2` of the second compare for which the line planner is quiet on these
  pairs (`quietLines`: valid script that keeps a line, empty plan — or both lists empty), `a2` is
  statically settled and the second compare prints NOTHING.

All other conjuncts of `settledB a2 b` are PROVED from the first run: `checkIOSInterfaces` succeeds
again, the same directions are bound, device and target ACLs are paired one-to-one (the name function
of the run is injective), no compared ACL is bound by an interface without partner, the routes of
the managed VRFs are the target's, every `-DRC-` ACL on the device is compared or bound by an
interface without partner (`F2Again.lean`).  The remaining hypothesis cannot be dropped in this
formulation: `plan_second_script_counterexample` — for block-equivalent ACLs the plan depends on which
valid script Myers returns, and Myers is a parameter (validated per call).  The driver evaluates
`settledB` on every second compare: 1012 of 1012 second compares after a `wfB` run are settled (quick).
The unrestricted `ios_F2_idempotent` is false: `ios_F2_converges_counterexample` (remark lines). -/
theorem ios_F2_idempotent_partial (a0 b : Config) (sc : Scripts) (hw : wfB a0 b sc = true) (hok : (engine a0 b sc).ok = true) :
    ∃ d', (exec (ofConfig a0) (engine a0 b sc).script).map strip = some d' ∧
      (∀ p ∈ cmpPairs (alignVRFs (reconf a0 (a0.routes ++ b.routes) d') b {}).2 b,
        BlockEquivA ((reconf a0 (a0.routes ++ b.routes) d').lines p.1) (b.lines p.2)) ∧
      ∀ sc2, (∀ p ∈ cmpPairs (alignVRFs (reconf a0 (a0.routes ++ b.routes) d') b {}).2 b,
          quietLines ((reconf a0 (a0.routes ++ b.routes) d').lines p.1) (b.lines p.2) (lookupD sc2.acl p) = true) →
        settledB (reconf a0 (a0.routes ++ b.routes) d') b sc2 = true ∧
        (engine (reconf a0 (a0.routes ++ b.routes) d') b sc2).script = [] := by
  have hwf := WF_of_wfB hw
  obtain ⟨d', nm, R, h, hA, hS⟩ := F2_settled_after a0 b sc hwf hok
  refine ⟨d', h, ?_, fun sc2 hq => ⟨hS sc2 hq, F2_quiet _ b sc2 (hS sc2 hq)⟩⟩
  intro p hp
  obtain ⟨_, h2, bi, hbi, bd, hbd, h3⟩ := after_M hwf hA (a0.routes ++ b.routes) p.1 p.2 hp
  rw [lines_reconf, h2, ← h3]
  exact (hA.eqv bi hbi bd hbd).blockEquivA

/-- **`ios_F2_idempotent_identity`** — no hypothesis on the planner's answer.  Under `wfB` the script is
accepted and leads to `d'`; for EVERY Myers result `sc2` of the second compare that is the identity script
on every compared pair (`identityOn`, decidable: all cells kept on both sides — what a correct differ
returns on equal lists, `IdentityDiffer`; it can only be returned when device ACL and target ACL are equal
line by line, `identityOn_equal`) the device is statically settled and the second compare prints NOTHING.
This is the class in which the first run converges exactly (no suppressed move:
`ios_plan_converges_no_suppression_partial`); for ACLs that are only block-equivalent after the first run
`ios_F2_idempotent_partial` with `plan_second_script_counterexample` stays. -/
theorem ios_F2_idempotent_identity (a0 b : Config) (sc : Scripts) (hw : wfB a0 b sc = true) (hok : (engine a0 b sc).ok = true) :
    ∃ d', (exec (ofConfig a0) (engine a0 b sc).script).map strip = some d' ∧
      ∀ sc2, (∀ p ∈ cmpPairs (alignVRFs (reconf a0 (a0.routes ++ b.routes) d') b {}).2 b,
          identityOn ((reconf a0 (a0.routes ++ b.routes) d').lines p.1) (b.lines p.2) (lookupD sc2.acl p) = true) →
        settledB (reconf a0 (a0.routes ++ b.routes) d') b sc2 = true ∧
        (engine (reconf a0 (a0.routes ++ b.routes) d') b sc2).script = [] := by
  obtain ⟨d', h, _, hS⟩ := ios_F2_idempotent_partial a0 b sc hw hok
  exact ⟨d', h, fun sc2 hid => hS sc2 (fun p hp => identityOn_quiet _ _ _ (hid p hp))⟩

/-- **`ios_F2_idempotent_exact`**.  Class: `wfB`, `checkIOSInterfaces` ok, and NO SUPPRESSED MOVE in the
plan of any pair the first run may compare (`noSupprB`, decidable, printed by the driver).  Then

* the script is accepted and leads to `d'`; every ACL pair the second compare looks at is EQUAL line by
  line (text, text without `log`, action): the first run converges exactly, not only up to block
  equivalence (lifting of `ios_plan_converges_no_suppression_partial` through the engine invariant);
* for every differ that answers the identity script on lists that are equal line by line
  (`IdentityDiffer`: decidable per answer — `identityOn`: all cells kept on both sides —, checked on the
  real library on every run, driver field `iddiffer`): the device is statically settled and the second
  compare prints NOTHING.

No hypothesis on the planner's answer.  For the block-equivalent-but-not-equal class (a move was
suppressed) `ios_F2_idempotent_partial` with `plan_second_script_counterexample` stays. -/
theorem ios_F2_idempotent_exact (a0 b : Config) (sc : Scripts) (hw : wfB a0 b sc = true) (hok : (engine a0 b sc).ok = true)
    (hns : noSupprB a0 b sc = true) :
    ∃ d', (exec (ofConfig a0) (engine a0 b sc).script).map strip = some d' ∧
      (∀ p ∈ cmpPairs (alignVRFs (reconf a0 (a0.routes ++ b.routes) d') b {}).2 b,
        linesEqB ((reconf a0 (a0.routes ++ b.routes) d').lines p.1) (b.lines p.2) = true) ∧
      ∀ sc2, (∀ p ∈ cmpPairs (alignVRFs (reconf a0 (a0.routes ++ b.routes) d') b {}).2 b,
          linesEqB ((reconf a0 (a0.routes ++ b.routes) d').lines p.1) (b.lines p.2) = true →
          identityOn ((reconf a0 (a0.routes ++ b.routes) d').lines p.1) (b.lines p.2) (lookupD sc2.acl p) = true) →
        settledB (reconf a0 (a0.routes ++ b.routes) d') b sc2 = true ∧
        (engine (reconf a0 (a0.routes ++ b.routes) d') b sc2).script = [] := by
  apply F2_idempotent_exact a0 b sc (WF_of_wfB hw) hok
  intro aN bN hcmp
  obtain ⟨ai, hai, bi, hbi, hn, ba, hba, bb, hbb, hd, h5, h6⟩ := hcmp
  have hmem : (aN, bN) ∈ cmpPairs (alignVRFs a0 b {}).2 b :=
    mem_cmpPairs.mpr ⟨ai, hai, bi, hbi, hn, ba, hba, bb, hbb, hd, h5, h6⟩
  exact List.all_eq_true.mp hns (aN, bN) hmem

/-- The identity script is quiet, and exists only for lists that are equal line by line. -/
theorem ios_identity_script_quiet (al bl : List ALine) (rs : List Range) (h : identityOn al bl rs = true) :
    quietLines al bl rs = true ∧
    al.map (encLine ((al ++ bl).map (·.text)) ((al ++ bl).map (·.nolog))) =
      bl.map (encLine ((al ++ bl).map (·.text)) ((al ++ bl).map (·.nolog))) :=
  ⟨identityOn_quiet al bl rs h, identityOn_equal al bl rs h⟩

/-- `ios_no_generated_leftover` (C02: no left-over `-DRC-` object): after the script every generated
(`-DRC-`) ACL on the device is bound — by a target interface, under the name the run gave to the
target's ACL, or by an interface the target does not name (whose ACLs are never touched). -/
theorem ios_no_generated_leftover (a0 b : Config) (sc : Scripts) (hw : wfB a0 b sc = true) (hok : (engine a0 b sc).ok = true) :
    ∃ d', (exec (ofConfig a0) (engine a0 b sc).script).map strip = some d' ∧
      ∀ n, hasAcl d' n = true → isTagged n = true →
        (∃ bi ∈ b.intfs, ∃ bd ∈ bi.binds, slotOf d' bi.name bd.dir = some n) ∨
        (∃ i ∈ a0.intfs, i.name ∉ b.intfs.map (·.name) ∧ n ∈ i.binds.map (·.acl)) := by
  have hwf := WF_of_wfB hw
  obtain ⟨d', nm, R, h, hA, _⟩ := F2_settled_after a0 b sc hwf hok
  refine ⟨d', h, ?_⟩
  intro n hn ht
  rcases hA.tagged n hn ht with ⟨bN, hbN, rfl⟩ | k
  · obtain ⟨bi, hbi, bd, hbd, rfl⟩ := hA.boundR bN hbN
    exact Or.inl ⟨bi, hbi, bd, hbd, (hA.slotB bi hbi bd hbd).2.1⟩
  · exact Or.inr k

/-! ## 5c. Resume after an interrupted approve (C10) -/

/-- **`ios_F2_resume_partial`**.  Under `wfB` the script is sent line by line (`splitScript`: the two
halves of a joined line `no N\N M TEXT` / `no ip route A\N ip route B` are two lines) and the
connection is lost after ANY number `k` of lines: inside an ACL or interface sub-mode, between
the resequence lines, between the halves of a joined line.  Then

* the `k` lines are accepted and lead to a device `dk`;
* in a new session (top-level mode, `strip`) a compare reads `dk` as the configuration
  `ak = reconf dk` (`Reads`: same interfaces, bindings, route lines, access lists and lines — the entry
  numbers left behind by the interrupted run play no role);
* for EVERY Myers result `sc2` for which the cut state is in the class again (`wfB ak b sc2`, decidable,
  evaluated by the driver on every cut): `checkIOSInterfaces` succeeds, the second script is accepted
  command by command from `dk`, and the device ends as `ios_F2_converges_partial` says: every target
  binding in place with an ACL block-equivalent modulo `log` to the target's, other directions
  unbound, routes of the VRFs with target routes exactly the target's, other routes untouched,
  interfaces the target does not name and their ACLs as they were at the cut.

`wfB` is NOT closed under prefixes (`ios_wfB_not_prefix_closed`): a target ACL with a remark line that
is transferred as a whole needs no hypothesis in the first run, but is compared line by line with
itself in the second.  So the full statement `ios_F2_resume` (no hypothesis on the cut state) is not
available from `ios_F2_converges_partial`; with remark lines it is false (F-C02r, signature
`resume_not_converged`). -/
theorem ios_F2_resume_partial (a0 b : Config) (sc : Scripts) (hw : wfB a0 b sc = true) (hok : (engine a0 b sc).ok = true)
    (k : Nat) :
    ∃ dk, exec (ofConfig a0) ((splitScript (engine a0 b sc).script).take k) = some dk ∧
      Reads (strip dk) (reconf a0 (a0.routes ++ b.routes) dk) ∧
      ∀ sc2, wfB (reconf a0 (a0.routes ++ b.routes) dk) b sc2 = true →
        (engine (reconf a0 (a0.routes ++ b.routes) dk) b sc2).ok = true ∧
        ∃ d', (exec (strip dk) (engine (reconf a0 (a0.routes ++ b.routes) dk) b sc2).script).map strip = some d' ∧
          (∀ bi ∈ b.intfs, ∀ bd ∈ bi.binds, ∃ n, slotOf d' bi.name bd.dir = some n ∧ hasAcl d' n = true ∧
              BlockEquivA (linesOf d' n) (b.lines bd.acl)) ∧
          (∀ bi ∈ b.intfs, ∀ dir, isDir dir = true → dir ∉ bi.binds.map (·.dir) → slotOf d' bi.name dir = none) ∧
          (∀ r ∈ (reconf a0 (a0.routes ++ b.routes) dk).routes ++ b.routes, r.vrf ∈ b.routes.map (·.vrf) →
              (r.text ∈ d'.routes ↔ r.text ∈ b.routes.map (·.text))) ∧
          (∀ t ∈ d'.routes, t ∈ dk.routes ∨ t ∈ b.routes.map (·.text)) ∧
          (∀ r ∈ (reconf a0 (a0.routes ++ b.routes) dk).routes, r.vrf ∉ b.routes.map (·.vrf) → r.text ∈ d'.routes) ∧
          (∀ x, x ∉ b.intfs.map (·.name) → ∀ dir, isDir dir = true → slotOf d' x dir = slotOf dk x dir) ∧
          (∀ i ∈ (reconf a0 (a0.routes ++ b.routes) dk).intfs, i.name ∉ b.intfs.map (·.name) → ∀ bd ∈ i.binds,
              hasAcl d' bd.acl = true ∧ entriesOf d' bd.acl = entriesOf dk bd.acl) := by
  obtain ⟨dk, h1, h2, h3⟩ := F2_resume a0 b sc (WF_of_wfB hw) hok k
  refine ⟨dk, h1, h2, ?_⟩
  intro sc2 hw2
  obtain ⟨hok2, d', j0, j1, j2, j3, j4, j5, j6, j7⟩ := h3 sc2 (WF_of_wfB hw2)
  refine ⟨hok2, d', j0, ?_, j2, j3, j4, j5, j6, j7⟩
  intro bi hbi bd hbd
  obtain ⟨n, k1, k2, k3⟩ := j1 bi hbi bd hbd
  exact ⟨n, k1, k2, k3.blockEquivA⟩

/-- Sending the joined lines as two lines is the same as sending them as one (`exec` on `Chg.move` /
`Chg.replRoute`): the cut-free run of `ios_F2_resume_partial` is the run of `ios_F2_converges_partial`. -/
theorem ios_split_script_same (d : Dev) (cs : List Chg) : exec d (splitScript cs) = exec d cs := exec_splitScript d cs

/-! ## 5d. Routes: every destination stays covered at every step (C14) -/

/-- **`ios_route_plan_phases`**: `NA.Route.routes_covered` (Props/C14) closed for the model of
`diffRoutes`.  For every compared device route list `al`, target route list `bl` and device route
table `R` of the class `RoutesWF` (lines pairwise different per side, compared routes on the device,
no stray copy of a target route) and every reader `keyOf` of (VRF, destination) that agrees with the
parsed attributes: the plan is `pa ++ pb`, it is accepted, and under the numeric encoding
`encRoute`/`encOp` the three hypotheses of `routes_covered` hold — `phaseA pa` (additions and
replacements of a route by a route to the SAME destination in the same VRF, one joined command),
`phaseB pb` (removals of lines that are not target routes), after `pa` every target route is on the
device — and therefore after EVERY command of the plan every destination that has a route before and
after the plan has a route. -/
theorem ios_route_plan_phases (al bl : List Route) (R : List String) (keyOf : String → String × String)
    (h : RoutesWF al bl R) (hkey : ∀ r ∈ al ++ bl, keyOf r.text = r.key) :
    ∃ R' pa pb, (routePlan al bl).1 = pa ++ pb ∧ rRun R (routePlan al bl).1 = some R' ∧
      NA.Route.phaseA (pa.map (encOp keyOf (R ++ bl.map (·.text)))) = true ∧
      NA.Route.phaseB ((bl.map (·.text)).map (encRoute keyOf (R ++ bl.map (·.text))))
        (pb.map (encOp keyOf (R ++ bl.map (·.text)))) = true ∧
      (∀ r ∈ (bl.map (·.text)).map (encRoute keyOf (R ++ bl.map (·.text))),
        r ∈ (pa.map (encOp keyOf (R ++ bl.map (·.text)))).foldl NA.Route.rexec1 (R.map (encRoute keyOf (R ++ bl.map (·.text))))) ∧
      ∀ k, ∃ Rk, rRun R ((routePlan al bl).1.take k) = some Rk ∧
        ∀ t0 ∈ R, (∃ t ∈ R', keyOf t = keyOf t0) → ∃ t ∈ Rk, keyOf t = keyOf t0 :=
  routes_covered_every_step al bl R keyOf h hkey

/-- The route commands of the printed script of the engine, in order, are exactly the route plan
(no other decision prints a route command). -/
theorem ios_route_commands_are_plan (a0 b : Config) (sc : Scripts) (hw : wfB a0 b sc = true) (hok : (engine a0 b sc).ok = true) :
    (engine a0 b sc).script.flatMap chgRouteOp =
      (routePlan (sortRoutes (alignVRFs a0 b {}).2.routes) (sortRoutes b.routes)).1 :=
  engine_routeOps a0 b sc (WF_of_wfB hw) hok

/-- **`ios_routes_covered_every_step`** (whole script, class `wfB`): the script is accepted, and after
EVERY printed command (`take k`; a replacement `no ip route A\N ip route B` is one command line)
every destination — (VRF, destination) as read by `keyOf` — that has a route on the device before the
script and after the script has a route.  With `ios_routes_converge`: in a VRF with target routes
"after" is the target's route table. -/
theorem ios_routes_covered_every_step (a0 b : Config) (sc : Scripts) (hw : wfB a0 b sc = true)
    (hok : (engine a0 b sc).ok = true) (keyOf : String → String × String)
    (hkey : ∀ r ∈ a0.routes ++ b.routes, keyOf r.text = r.key) :
    ∃ dfin, exec (ofConfig a0) (engine a0 b sc).script = some dfin ∧
      ∀ k, ∃ dk, exec (ofConfig a0) ((engine a0 b sc).script.take k) = some dk ∧
        ∀ t0 ∈ a0.routes.map (·.text), (∃ t ∈ dfin.routes, keyOf t = keyOf t0) → ∃ t ∈ dk.routes, keyOf t = keyOf t0 :=
  script_routes_covered a0 b sc (WF_of_wfB hw) hok keyOf hkey

/-- `ios_plan_all_both_quiet` / `ios_plan_quiet_only_if_equivalent` (F2Plan, on the cells of
`NA.Acl.planIOS`): identical lists with the identity script are planned as "nothing to do"; an empty
plan of a valid script that keeps a line means block equivalence. -/
theorem ios_plan_all_both_quiet (M : List NA.Acl.Cell) (h : ∀ c ∈ M, c.old = true ∧ c.new = true) :
    NA.Acl.planIOS M = [] := planIOS_all_both M h

/-! ## 6. What is false: remark lines (F-C02r at configuration level) -/

open NA.Acl (Act) in
def W.mkL (t : String) (a : Act) : ALine := ⟨t, t, t, a⟩
def W.dA := W.mkL "deny ip 10.1.0.0 0.0.255.255 any" .deny
def W.rN := W.mkL "remark n1" .remark
def W.pA := W.mkL "permit ip 10.1.0.0 0.0.255.255 any" .permit
def W.pT := W.mkL "permit tcp 10.1.0.0 0.0.255.255 any" .permit
def W.dAny := W.mkL "deny ip any any" .deny
def W.e0 (acl : String) : Intf := { name := "Ethernet0", addr := "x", binds := [⟨acl, "in"⟩] }
def W.devR : Config := { intfs := [W.e0 "e0_in"], acls := [("e0_in", [W.dA, W.rN, W.pA, W.pT, W.dAny])] }
def W.tgtR : Config := { intfs := [W.e0 "e0_in"], acls := [("e0_in", [W.pT, W.rN, W.dA, W.pA])] }
/-- the ranges `myers.Diff` returns for these lists (validated by the driver on the corpus case) -/
def W.scR : Scripts := { acl := [(("e0_in", "e0_in"), [⟨0,1,0,0⟩, ⟨1,1,0,1⟩, ⟨1,2,1,2⟩, ⟨2,2,2,3⟩, ⟨2,3,3,4⟩, ⟨3,5,4,4⟩])] }
def W.scR2 : Scripts := { acl := [(("e0_in", "e0_in"), [⟨0,1,0,0⟩, ⟨1,3,0,2⟩, ⟨3,3,2,3⟩, ⟨3,4,3,4⟩])] }
/-- without the remark line the same pair satisfies `wfB` -/
def W.devN : Config := { intfs := [W.e0 "e0_in"], acls := [("e0_in", [W.dA, W.pA, W.pT, W.dAny])] }
def W.tgtN : Config := { intfs := [W.e0 "e0_in"], acls := [("e0_in", [W.pT, W.dA, W.pA])] }
def W.scN : Scripts := { acl := [(("e0_in", "e0_in"), [⟨0,0,0,1⟩, ⟨0,2,1,3⟩, ⟨2,4,3,3⟩])] }

open W in
/-- `ios_F2_converges` is false with remark lines (F-C02r): the script is accepted, but the ACL bound to
`Ethernet0` ends as `[deny ip A, permit tcp A, remark, permit ip A]`, which is not block-equivalent
to the target; and a second compare of that device is not empty (`ios_F2_idempotent` is false too) —
only the second run reaches the target. -/
theorem ios_F2_converges_counterexample :
    showChanges (engine devR tgtR scR).script =
      ["ip access-list resequence e0_in 10000 10000", "ip access-list extended e0_in",
       "no 40000\\N 10001 permit tcp 10.1.0.0 0.0.255.255 any", "no 50000",
       "ip access-list resequence e0_in 10 10"] ∧
    wfB devR tgtR scR = false ∧
    (exec (ofConfig devR) (engine devR tgtR scR).script).map (fun d =>
      ((linesOf d "e0_in").map (·.text), blockEquivL (linesOf d "e0_in") (tgtR.lines "e0_in"),
       showChanges (engine (toConfig d) tgtR scR2).script)) =
      some (["deny ip 10.1.0.0 0.0.255.255 any", "permit tcp 10.1.0.0 0.0.255.255 any", "remark n1",
             "permit ip 10.1.0.0 0.0.255.255 any"], false,
            ["ip access-list resequence e0_in 10000 10000", "ip access-list extended e0_in",
             "no 10000\\N 30001 deny ip 10.1.0.0 0.0.255.255 any", "ip access-list resequence e0_in 10 10"]) := by
  refine ⟨by decide, by decide, by decide⟩

/-! ### What is not claimed: "equivalent ⇒ unchanged" -/

def W.q1 := W.mkL "permit tcp any any eq 80" .permit
def W.q2 := W.mkL "permit tcp any any eq 81" .permit
def W.q3 := W.mkL "deny tcp any any eq 90" .deny
def W.q4 := W.mkL "deny tcp any any eq 91" .deny
def W.devQ : Config := { intfs := [W.e0 "e0_in"], acls := [("e0_in", [W.q1, W.q2, W.q3, W.q4])] }
def W.tgtQ : Config := { intfs := [W.e0 "e0_in"], acls := [("e0_in", [W.q2, W.q1, W.q4, W.q3])] }
/-- the ranges `myers.Diff` returns for these lists (corpus case of vh-f2; validated by the driver) -/
def W.scQ : Scripts := { acl := [(("e0_in", "e0_in"), [⟨0,1,0,0⟩, ⟨1,2,0,1⟩, ⟨2,3,1,1⟩, ⟨3,3,1,2⟩, ⟨3,4,2,3⟩, ⟨4,4,3,4⟩])] }

open W in
/-- The converse of `ios_F2_unchanged_only_if_equivalent` does not hold (and is not a requirement): a
device ACL that differs from the target's only in the order inside runs of equal action is
block-equivalent, the pair is in the class `wfB`, yet with the script Myers returns the engine moves
two lines (as the real `drc` does: corpus case of vh-f2).  Cosmetic; the script converges and the next
compare is empty. -/
theorem ios_unchanged_if_equivalent_counterexample :
    blockEquivL (devQ.lines "e0_in") (tgtQ.lines "e0_in") = true ∧ wfB devQ tgtQ scQ = true ∧
    showChanges (engine devQ tgtQ scQ).script =
      ["ip access-list resequence e0_in 10000 10000", "ip access-list extended e0_in",
       "no 10000\\N 30001 permit tcp any any eq 80", "no 30000\\N 40001 deny tcp any any eq 90",
       "ip access-list resequence e0_in 10 10"] ∧
    ((exec (ofConfig devQ) (engine devQ tgtQ scQ).script).map fun d =>
      showChanges (engine (toConfig d) tgtQ { acl := [(("e0_in", "e0_in"), [⟨0,4,0,4⟩])] }).script) = some [] := by
  decide

/-! ### Non-vacuity -/

open W in
example : wfB devN tgtN scN = true ∧ (engine devN tgtN scN).ok = true := by decide

open W in
example : incrOK (devN.lines "e0_in") (tgtN.lines "e0_in") [⟨0,0,0,1⟩, ⟨0,2,1,3⟩, ⟨2,4,3,3⟩] = true := by decide

example : replaceOK [W.pA] [W.pT, W.dAny] [⟨0,1,0,0⟩, ⟨0,0,0,2⟩] = true := by decide

/-! ### Non-vacuity of the composed class: several interfaces, two VRFs, routes, an unknown interface -/

def W.e1 (acl : String) : Intf := { name := "Ethernet1", vrf := "V1", addr := "y", binds := [⟨acl, "in"⟩, ⟨"e1_out", "out"⟩] }
def W.lo7 : Intf := { name := "Loopback7", addr := "z", binds := [⟨"lo_in", "in"⟩] }
def W.r (t v d : String) (k : Nat) : Route := ⟨t, v, d, k⟩
/-- device: two managed interfaces (global table and VRF V1), an interface unknown to Netspoc with its own
ACL, a generated left-over ACL, routes in both VRFs -/
def W.devM : Config :=
  { intfs := [W.e0 "e0_in-DRC-0", W.e1 "e1_in", W.lo7],
    acls := [("e0_in-DRC-0", [W.pT, W.dAny]), ("e1_in", [W.dA, W.pA]), ("e1_out", [W.pA]), ("lo_in", [W.pA]),
             ("old-DRC-1", [W.dAny])],
    routes := [W.r "10.8.0.0 255.255.0.0 10.1.1.253" "" "10.8.0.0/16" 112,
               W.r "vrf V1 10.9.0.0 255.255.0.0 10.2.2.254" "V1" "10.9.0.0/16" 112] }
/-- target: another line in the first ACL, one line less in the second, the outbound binding of
Ethernet1 gone, another gateway for the global route, no routes for V1 -/
def W.tgtM : Config :=
  { intfs := [W.e0 "e0_in", { W.e1 "e1_in" with binds := [⟨"e1_in", "in"⟩] }],
    acls := [("e0_in", [W.pA, W.pT, W.dAny]), ("e1_in", [W.pA])],
    routes := [W.r "10.8.0.0 255.255.0.0 10.1.1.254" "" "10.8.0.0/16" 112] }
def W.scM : Scripts :=
  { acl := [(("e0_in-DRC-0", "e0_in"), [⟨0,0,0,1⟩, ⟨0,2,1,3⟩]), (("e1_in", "e1_in"), [⟨0,1,0,0⟩, ⟨1,2,0,1⟩])] }

open W in
example : wfB devM tgtM scM = true ∧ (engine devM tgtM scM).ok = true ∧
    showChanges (engine devM tgtM scM).script =
      ["ip access-list resequence e0_in-DRC-0 10000 10000", "ip access-list extended e0_in-DRC-0",
       "1 permit ip 10.1.0.0 0.0.255.255 any", "ip access-list resequence e0_in-DRC-0 10 10",
       "interface Ethernet1", "no ip access-group e1_out out",
       "ip access-list resequence e1_in 10000 10000", "ip access-list extended e1_in", "no 10000",
       "ip access-list resequence e1_in 10 10",
       "no ip route 10.8.0.0 255.255.0.0 10.1.1.253\\N ip route 10.8.0.0 255.255.0.0 10.1.1.254",
       "no ip access-list extended e1_out", "no ip access-list extended old-DRC-1"] := by decide

/-- the executed result of that example, read back, is statically settled (identity scripts): the
hypothesis of `ios_F2_idempotent_partial` / `ios_F2_quiet` is satisfiable on a reachable state -/
def W.scM2 : Scripts :=
  { acl := [(("e0_in-DRC-0", "e0_in"), [⟨0,3,0,3⟩]), (("e1_in", "e1_in"), [⟨0,1,0,1⟩])] }

open W in
example : ((exec (ofConfig devM) (engine devM tgtM scM).script).map fun d =>
    (settledB (reconf devM (devM.routes ++ tgtM.routes) d) tgtM scM2,
     showChanges (engine (reconf devM (devM.routes ++ tgtM.routes) d) tgtM scM2).script)) = some (true, []) := by
  decide

/- the hypothesis of `ios_F2_idempotent_partial` on that reachable state: the pairs of the second
compare and the line planner on them -/
open W in
example : ((exec (ofConfig devM) (engine devM tgtM scM).script).map fun d =>
    (cmpPairs (alignVRFs (reconf devM (devM.routes ++ tgtM.routes) d) tgtM {}).2 tgtM,
     (cmpPairs (alignVRFs (reconf devM (devM.routes ++ tgtM.routes) d) tgtM {}).2 tgtM).all fun p =>
       quietLines ((reconf devM (devM.routes ++ tgtM.routes) d).lines p.1) (tgtM.lines p.2) (lookupD scM2.acl p))) =
    some ([("e0_in-DRC-0", "e0_in"), ("e1_in", "e1_in")], true) := by decide

open W in
example : settledB tgtN tgtN { acl := [(("e0_in", "e0_in"), [⟨0,3,0,3⟩])] } = true ∧
    wfB tgtN tgtN { acl := [(("e0_in", "e0_in"), [⟨0,3,0,3⟩])] } = true ∧
    (engine tgtN tgtN { acl := [(("e0_in", "e0_in"), [⟨0,3,0,3⟩])] }).script = [] := by decide

open W in
example : quietLines (tgtN.lines "e0_in") (tgtN.lines "e0_in") [⟨0,3,0,3⟩] = true ∧
    incrOK (tgtN.lines "e0_in") (tgtN.lines "e0_in") [⟨0,3,0,3⟩] = true := by decide

open W in
example : ((exec (ofConfig devM) (engine devM tgtM scM).script).map fun d =>
    (cmpPairs (alignVRFs (reconf devM (devM.routes ++ tgtM.routes) d) tgtM {}).2 tgtM).all fun p =>
      identityOn ((reconf devM (devM.routes ++ tgtM.routes) d).lines p.1) (tgtM.lines p.2) (lookupD scM2.acl p)) = some true ∧
    noSupprRun (engine devM tgtM scM) = true ∧ noSupprB devM tgtM scM = true ∧ wfB devM tgtM scM = true := by decide

/-! ### Outside `wfB`: a device binding of an access list that does not exist on the device -/

def W.devG : Config :=
  { intfs := [{ name := "Ethernet0", addr := "x", binds := [⟨"e0_in", "in"⟩, ⟨"ghost", "out"⟩] }],
    acls := [("e0_in", [W.pA, W.dAny])] }
def W.tgtG1 : Config := { intfs := [W.e0 "e0_in"], acls := [("e0_in", [W.pA, W.dAny])] }
def W.tgtG2 : Config :=
  { intfs := [{ name := "Ethernet0", addr := "x", binds := [⟨"e0_in", "in"⟩, ⟨"e0_out", "out"⟩] }],
    acls := [("e0_in", [W.pA, W.dAny]), ("e0_out", [W.pT])] }
def W.scG : Scripts := { acl := [(("e0_in", "e0_in"), [⟨0,2,0,2⟩])] }

open W in
/-- A dangling device binding (`ip access-group ghost out`, no access list `ghost`) is outside `wfB`
(first failing conjunct: "device-binding-of-undefined-acl"; 51 of 2900 quick cases).  What the engine does
there — the tie compares it with the real drc on every such case —: the sub-command has no partner
(its key is the NAME, not `$REF`), it is removed, and a target binding of that direction is added after
the transfer of its ACL; the script is accepted and the device converges.  Kernel-evaluated on two
targets (binding removed / replaced); the general theorem for this class is NOT proved (the
specification of `diffUnordered` on the sub-commands, `diffBinds_canon`, assumes keys `$REF dir`). -/
theorem ios_dangling_binding_witness :
    wfB devG tgtG1 scG = false ∧ wfWhy devG tgtG1 scG = "device-binding-of-undefined-acl" ∧
    showChanges (engine devG tgtG1 scG).script = ["interface Ethernet0", "no ip access-group ghost out"] ∧
    ((exec (ofConfig devG) (engine devG tgtG1 scG).script).map fun d =>
      (slotOf d "Ethernet0" "in", slotOf d "Ethernet0" "out", d.acls.map (·.1))) = some (some "e0_in", none, ["e0_in"]) ∧
    showChanges (engine devG tgtG2 scG).script =
      ["interface Ethernet0", "no ip access-group ghost out", "ip access-list extended e0_out-DRC-0",
       "permit tcp 10.1.0.0 0.0.255.255 any", "exit", "interface Ethernet0", "ip access-group e0_out-DRC-0 out"] ∧
    ((exec (ofConfig devG) (engine devG tgtG2 scG).script).map fun d =>
      (slotOf d "Ethernet0" "in", slotOf d "Ethernet0" "out", d.acls.map (·.1), (linesOf d "e0_out-DRC-0").map (·.text))) =
      some (some "e0_in", some "e0_out-DRC-0", ["e0_in", "e0_out-DRC-0"], ["permit tcp 10.1.0.0 0.0.255.255 any"]) := by
  decide

/-! ### Resume: witnesses -/

/-! Witnesses: the composed example above, cut inside the ACL sub-mode of the second ACL (8 lines) and
between the two halves of the joined route line (11 lines). -/
def W.sc8 : Scripts :=
  { acl := [(("e0_in-DRC-0", "e0_in"), [⟨0,3,0,3⟩]), (("e1_in", "e1_in"), [⟨0,1,0,0⟩, ⟨1,2,0,1⟩])] }

open W in
example : ((exec (ofConfig devM) ((splitScript (engine devM tgtM scM).script).take 8)).map fun d =>
    (d.mode, (entriesOf d "e1_in").map (·.1), wfB (reconf devM (devM.routes ++ tgtM.routes) d) tgtM sc8,
     showChanges (engine (reconf devM (devM.routes ++ tgtM.routes) d) tgtM sc8).script)) =
    some (some (.acl "e1_in"), [10000, 20000], true,
      ["ip access-list resequence e1_in 10000 10000", "ip access-list extended e1_in", "no 10000",
       "ip access-list resequence e1_in 10 10",
       "no ip route 10.8.0.0 255.255.0.0 10.1.1.253\\N ip route 10.8.0.0 255.255.0.0 10.1.1.254",
       "no ip access-list extended old-DRC-1"]) := by decide

open W in
example : ((exec (ofConfig devM) ((splitScript (engine devM tgtM scM).script).take 11)).map fun d =>
    (d.routes, wfB (reconf devM (devM.routes ++ tgtM.routes) d) tgtM scM2,
     showChanges (engine (reconf devM (devM.routes ++ tgtM.routes) d) tgtM scM2).script)) =
    some (["vrf V1 10.9.0.0 255.255.0.0 10.2.2.254"], true,
      ["ip route 10.8.0.0 255.255.0.0 10.1.1.254", "no ip access-list extended old-DRC-1"]) := by decide

def W.r1 := W.mkL "remark r" .remark
def W.devC : Config := { intfs := [{ name := "Ethernet0", addr := "x", binds := [] }], acls := [] }
def W.tgtC : Config := { intfs := [W.e0 "e0_in"], acls := [("e0_in", [W.pA, W.r1, W.pT])] }

open W in
/-- `wfB` is not closed under prefixes: the pair is in the class (nothing is compared line by line:
the target ACL is transferred), the state after the whole script is not (the transferred ACL with its
remark line is compared with the target's). -/
theorem ios_wfB_not_prefix_closed :
    wfB devC tgtC {} = true ∧ (engine devC tgtC {}).ok = true ∧
    ((exec (ofConfig devC) (engine devC tgtC {}).script).map fun d =>
      wfB (reconf devC (devC.routes ++ tgtC.routes) d) tgtC { acl := [(("e0_in-DRC-0", "e0_in"), [⟨0,3,0,3⟩])] }) = some false := by
  decide

/-! ### Routes: witnesses -/

/-- the reader of (VRF, destination) for the composed example -/
def W.keyM (t : String) : String × String :=
  (((W.devM.routes ++ W.tgtM.routes).find? fun r => r.text == t).map Route.key).getD ("", "")

open W in
example : (∀ r ∈ devM.routes ++ tgtM.routes, keyM r.text = r.key) ∧
    (routePlan (sortRoutes (alignVRFs devM tgtM {}).2.routes) (sortRoutes tgtM.routes)).1 =
      [.replRoute "10.8.0.0 255.255.0.0 10.1.1.253" "10.8.0.0 255.255.0.0 10.1.1.254"] := by decide

open W in
/-- Why the replacement is ONE command line: if its halves arrive separately (`splitScript`) and the
connection is lost in between, destination 10.8.0.0/16 has no route although it has one before and
after. -/
theorem ios_routes_uncovered_between_halves :
    ((exec (ofConfig devM) ((splitScript (engine devM tgtM scM).script).take 11)).map fun d =>
      d.routes.any fun t => keyM t == ("", "10.8.0.0/16")) = some false ∧
    (devM.routes.map (·.text)).any (fun t => keyM t == ("", "10.8.0.0/16")) = true ∧
    ((exec (ofConfig devM) (engine devM tgtM scM).script).map fun d =>
      d.routes.any fun t => keyM t == ("", "10.8.0.0/16")) = some true := by decide

def obligations : List Lean.Name := [
  ``ios_names_fresh, ``ios_confmode_tracks, ``ios_confmode_tracks_events, ``ios_confmode_exec,
  ``ios_acl_object_converges_partial, ``ios_acl_object_replaced, ``ios_unordered_ranges,
  ``ios_F2_converges_partial, ``ios_script_accepted, ``ios_objects_before_use, ``ios_no_referenced_acl_deleted,
  ``ios_bindings_converge, ``ios_routes_converge,
  ``ios_routes_untouched_if_unspecified, ``ios_unmanaged_vrf_untouched, ``alignVRFs_frame,
  ``ios_F2_converges_counterexample, ``ios_unchanged_if_equivalent_counterexample, ``ios_F2_unchanged_only_if_equivalent, ``ios_acl_quiet_only_if_equivalent,
  ``ios_F2_quiet, ``ios_F2_idempotent_partial, ``ios_F2_idempotent_exact, ``ios_F2_idempotent_identity, ``ios_identity_script_quiet, ``ios_no_generated_leftover, ``ios_F2_resume_partial, ``ios_split_script_same,
  ``ios_wfB_not_prefix_closed, ``ios_dangling_binding_witness, ``ios_route_plan_phases, ``ios_route_commands_are_plan,
  ``ios_routes_covered_every_step, ``ios_routes_uncovered_between_halves, ``ios_plan_all_both_quiet, ``planIOS_empty_blockEquiv,
  ``plan_second_script_counterexample]

end NA.F2
