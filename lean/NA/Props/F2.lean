import NA.Proofs.F2Mode
import NA.Proofs.F2Exec
import NA.Proofs.F2Acl
import NA.Proofs.F2Unordered
import NA.Proofs.F1Names
import NA.Proofs.F2Final
import NA.Proofs.F2Equiv
/-!
# F2 — the IOS diff engine on fragment F2 (C02, C07, C08, C10, C14)

Model: `NA.F2.engine` (NA/Model/IosEngine.lean) = decisions (`List MA`) → events (`expand`) → printed
lines (`render`, the `subCmdOf` bookkeeping).  Strict device: `NA.IosDev2` (NA/Spec/IosCfgDev.lean).
All theorems are for ALL inputs (configurations, scripts) unless a decidable hypothesis is named.
-/
namespace NA.F2
open NA.IosDev2
open NA.Acl (Range BlockEqG LineEqv)
open NA.F1 (genName isTagged diffUnordered)

/-! ## 1. Generated names -/

/-- `ios_names_fresh`: the name given to a transferred ACL is not a name on the device, carries the
`-DRC-` tag, every smaller index is taken; different target names get different generated names. -/
theorem ios_names_fresh (base : Name) (dev : List Name) :
    genName base dev ∉ dev ∧ isTagged (genName base dev) = true ∧
    (∀ k, k < NA.F1.firstFree base (dev.length + 1) dev 0 → NA.F1.drcName base k ∈ dev) ∧
    (∀ base' dev', genName base dev = genName base' dev' → base = base') :=
  ⟨NA.F1.genName_fresh base dev, NA.F1.genName_tagged base dev, NA.F1.genName_least base dev,
   fun _ _ h => NA.F1.genName_injective h⟩

example : genName "e0_in" ["e0_in-DRC-0", "x", "e0_in-DRC-1"] = "e0_in-DRC-2" := by decide

/-! ## 2. Configuration mode (C08) -/

/-- `ios_confmode_tracks`: in the script of the engine (any input) every sub-command arrives while
the device — whose mode is the last mode line, reset by `exit` and by every other top-level command
— is in the mode of the parent the sub-command was emitted for, and `exit` is sent only inside a
sub-mode.  `renderP` is the printed script annotated with those parents. -/
theorem ios_confmode_tracks (a b : Config) (sc : Scripts) :
    (renderP none ((engine a b sc).acts.flatMap expand)).map (·.2) = scriptOf (engine a b sc).acts ∧
    inModes none (renderP none ((engine a b sc).acts.flatMap expand)) = true :=
  ⟨renderP_map _ _, inModes_render _ none none (fun _ h => by cases h) (acts_wf _)⟩

/-- … for every list of well-formed events and every agreeing start (`m`: `subCmdOf`, `dm`: device). -/
theorem ios_confmode_tracks_events (evs : List Ev) (m dm : Option Mode)
    (hm : ∀ p, m = some p → dm = some p) (hwf : ∀ e ∈ evs, wfEv e = true) :
    inModes dm (renderP m evs) = true := inModes_render evs m dm hm hwf

/-- `ios_confmode_exec`: executing the printed script command by command on the strict device is the
mode-free semantics of the decisions' events: no command is refused (or accepted) because of the
configuration mode. -/
theorem ios_confmode_exec (acts : List MA) (d : Dev) (hmode : d.mode = none) :
    (exec d (scriptOf acts)).map strip = (evsRun d (acts.flatMap expand)).map strip :=
  exec_script acts d hmode

example : inModes none (renderP none (expand (.bind "e0" "x" "in") ++ expand (.transfer "y" []) ++
    expand (.bind "e0" "y" "out"))) = true := by decide

/-! ## 3. One ACL object (C02) -/

/-- `ios_acl_object_converges_partial` (incremental branch `diffIOSACLs`): for a pair that satisfies the
decidable hypotheses `incrOK` (valid script keeping a line, runs < 10000, lines pairwise different
modulo `log` per side, NO REMARK LINES), on every device that holds the ACL `aN` with the lines
`al`: resequence, mode line, numbered adds / moves / deletes and the final resequence are all
accepted; the ACL ends block-equivalent modulo `log` to the target (`BlockEqG LineEqv` on the
encoded lines: swaps of neighbours with equal action, replacement by a line equal modulo `log`;
table-free: `BlockEquivA` — same sequence of actions and block by block the same lines modulo `log`
up to order, remark lines ignored);
every other ACL, the interfaces and the routes are unchanged (`putAcl`).  Reduction to
`NA.Acl.IosAclProps.ios_plan_block_equiv_partial`. -/
theorem ios_acl_object_converges_partial (aN : Name) (al bl : List ALine) (rs : List Range)
    (hok : incrOK al bl rs = true) (d : Dev) (hhas : hasAcl d aN = true) (hmode : d.mode = none)
    (hnd : (aclNames d).Nodup) (hlines : (entriesOf d aN).map (·.2) = al) :
    ∃ esF, evsRun d (expand (.edit aN al bl rs)) = some (putAcl d aN esF) ∧
      BlockEqG LineEqv ((esF.map (·.2)).map (encP al bl)) (bl.map (encP al bl)) ∧
      BlockEquivA (esF.map (·.2)) bl := by
  obtain ⟨esF, h1, h2⟩ := edit_incremental aN al bl rs hok d hhas hmode hnd hlines
  exact ⟨esF, h1, h2, (show AclEqv (esF.map (·.2)) bl from ⟨al, h2⟩).blockEquivA⟩

/-- `ios_acl_object_replaced` (branch "no parts equal" of `diffCmds`, and a device ACL without
entries): all entries are deleted top-down by text, the target's are appended; accepted whenever
the target's lines can be appended one after the other (`replaceOK`); the ACL ends with exactly the
target's lines. -/
theorem ios_acl_object_replaced (aN : Name) (al bl : List ALine) (rs : List Range)
    (hok : replaceOK al bl rs = true) (d : Dev) (hhas : hasAcl d aN = true) (hmode : d.mode = none)
    (hnd : (aclNames d).Nodup) (hlines : (entriesOf d aN).map (·.2) = al) :
    ∃ esF, evsRun d (expand (.edit aN al bl rs)) = some (putAcl d aN esF) ∧ esF.map (·.2) = bl.map typed :=
  edit_replace aN al bl rs hok d hhas hmode hnd hlines

/-! ## 4. `diffUnordered` -/

/-- `ios_unordered_ranges`: for a duplicate-free device-side key list the ranges of `diffUnordered`
are: first delete / equal ranges whose flattened indices are exactly the device keys without / with
partner (paired with the last index of the key on the target side), in device order, then insert
ranges whose flattened indices are the target keys without partner, in target order; every range
lies inside the bounds and passes exactly one of the tests `IsDelete`/`IsInsert`/`IsEqual`. -/
theorem ios_unordered_ranges (as bs : List String) (hnd : as.Nodup) :
    ∃ rsA rsB, diffUnordered as bs = rsA ++ rsB ∧
      (∀ r ∈ rsA, kindOf as.length bs.length r = some .del ∨ kindOf as.length bs.length r = some .eq) ∧
      (∀ r ∈ rsB, kindOf as.length bs.length r = some .ins) ∧
      fDel rsA = sDel bs 0 as ∧ fEq rsA = sEq bs 0 as ∧ fIns rsB = sIns as 0 bs :=
  diffUnordered_spec as bs hnd

/-! ## 5. End to end -/

/-- **`ios_F2_converges_partial`** (END TO END, all of fragment F2; the unrestricted statement
`ios_F2_converges` is false: `ios_F2_converges_counterexample`).  For every pair of configurations and
Myers scripts that passes the decidable check `wfB` (names pairwise different, at most one `in`/`out`
binding per interface and every binding refers to a defined ACL, every ACL pair passes `pairOK` —
valid script, lines pairwise different modulo `log`, NO REMARK LINES in incrementally edited pairs —,
route lines pairwise different) and that `checkIOSInterfaces` accepts:

* the whole printed script (mode lines and `exit` included) is accepted command by command by the
  strict device started on the device configuration;
* every binding of a target interface is in place and points to an ACL that exists and is
  block-equivalent modulo `log` to the target's ACL (`BlockEquivA`); a direction the target does not
  bind is unbound;
* the route set is the device's minus the deleted routes of VRFs for which the target specifies
  routes plus the target's new routes;
* an interface the target does not name keeps its bindings, and the ACLs it binds exist with
  exactly their original entries (interfaces of unmanaged VRFs and interfaces unknown to Netspoc). -/
theorem ios_F2_converges_partial (a0 b : Config) (sc : Scripts) (hw : wfB a0 b sc = true) (hok : (engine a0 b sc).ok = true) :
    ∃ d', (exec (ofConfig a0) (engine a0 b sc).script).map strip = some d' ∧
      (∀ bi ∈ b.intfs, ∀ bd ∈ bi.binds, ∃ n, slotOf d' bi.name bd.dir = some n ∧ hasAcl d' n = true ∧
          BlockEquivA (linesOf d' n) (b.lines bd.acl)) ∧
      (∀ bi ∈ b.intfs, ∀ dir, isDir dir = true → dir ∉ bi.binds.map (·.dir) → slotOf d' bi.name dir = none) ∧
      (∀ t, t ∈ d'.routes ↔ (t ∈ a0.routes.map (·.text) ∧ ¬ DelT (alignVRFs a0 b {}).2.routes b.routes t) ∨
          InsT (alignVRFs a0 b {}).2.routes b.routes t) ∧
      (∀ x, x ∉ b.intfs.map (·.name) → ∀ dir, isDir dir = true → slotOf d' x dir = slotOf (ofConfig a0) x dir) ∧
      (∀ i ∈ a0.intfs, i.name ∉ b.intfs.map (·.name) → ∀ bd ∈ i.binds,
          hasAcl d' bd.acl = true ∧ entriesOf d' bd.acl = entriesOf (ofConfig a0) bd.acl) := by
  obtain ⟨d', h, h1, h2, h3, h4, h5⟩ := F2_end_to_end a0 b sc (WF_of_wfB hw) hok
  refine ⟨d', h, ?_, h2, h3, h4, h5⟩
  intro bi hbi bd hbd
  obtain ⟨n, k1, k2, k3⟩ := h1 bi hbi bd hbd
  exact ⟨n, k1, k2, k3.blockEquivA⟩

/-- `ios_script_accepted` (C08 for F2: `ios_objects_before_use`, `ios_no_referenced_acl_deleted`): under
`wfB` the strict device — which refuses `ip access-group` of an ACL that does not exist at that
moment, `no ip access-list extended` of a missing or still bound ACL, a used sequence number, a
duplicate entry, a sub-command outside its mode — accepts every command of the script. -/
theorem ios_script_accepted (a0 b : Config) (sc : Scripts) (hw : wfB a0 b sc = true) (hok : (engine a0 b sc).ok = true) :
    (exec (ofConfig a0) (engine a0 b sc).script).isSome = true := by
  obtain ⟨d', h, _⟩ := ios_F2_converges_partial a0 b sc hw hok
  cases hx : exec (ofConfig a0) (engine a0 b sc).script with
  | none => rw [hx] at h; cases h
  | some _ => rfl

/-- The rules of the strict device that C08 is about. -/
theorem device_rules (d d' : Dev) :
    (∀ a dir, exec1 d (.bind a dir) = .ok d' → hasAcl d a = true) ∧
    (∀ n, exec1 d (.noAcl n) = .ok d' → hasAcl d n = true ∧ aclBound d n = false) := by
  constructor
  · intro a dir h
    simp only [exec1, isEntryCmd, isBindCmd] at h
    cases hm : d.mode with
    | none => rw [hm] at h; simp at h
    | some m =>
      rw [hm] at h
      cases m with
      | acl n => simp at h
      | intf i =>
        simp only [Bool.false_eq_true, ↓reduceIte] at h
        by_cases hh : hasAcl d a = true
        · exact hh
        · simp [hh] at h
  · intro n h
    simp only [exec1, isEntryCmd, isBindCmd, Bool.false_eq_true, ↓reduceIte, execTop] at h
    by_cases h1 : hasAcl d n = true
    · by_cases h2 : aclBound d n = true
      · simp [h1, h2] at h
      · exact ⟨h1, by simpa using h2⟩
    · simp [h1] at h

theorem exec_split (d d' : Dev) (cs1 : List Chg) (c : Chg) (cs2 : List Chg) (h : exec d (cs1 ++ c :: cs2) = some d') :
    ∃ d1 d2, exec d cs1 = some d1 ∧ exec1 d1 c = .ok d2 := by
  rw [exec_append] at h
  cases h1 : exec d cs1 with
  | none => rw [h1] at h; cases h
  | some d1 =>
    rw [h1, Option.bind_some, exec_cons] at h
    cases h2 : exec1 d1 c with
    | error e => rw [h2] at h; cases h
    | ok d2 => exact ⟨d1, d2, rfl, h2⟩

/-- `ios_objects_before_use` (C08): under `wfB`, at the moment an `ip access-group ACL in|out` of the
script is executed (after any prefix of the script), `ACL` exists on the device. -/
theorem ios_objects_before_use (a0 b : Config) (sc : Scripts) (hw : wfB a0 b sc = true) (hok : (engine a0 b sc).ok = true)
    (cs1 cs2 : List Chg) (acl : Name) (dir : String) (hs : (engine a0 b sc).script = cs1 ++ .bind acl dir :: cs2) :
    ∃ d1, exec (ofConfig a0) cs1 = some d1 ∧ hasAcl d1 acl = true := by
  have hacc := ios_script_accepted a0 b sc hw hok
  cases hx : exec (ofConfig a0) (engine a0 b sc).script with
  | none => rw [hx] at hacc; cases hacc
  | some d' =>
    rw [hs] at hx
    obtain ⟨d1, d2, h1, h2⟩ := exec_split _ _ _ _ _ hx
    exact ⟨d1, h1, (device_rules d1 d2).1 acl dir h2⟩

/-- `ios_no_referenced_acl_deleted` (C08): under `wfB`, at the moment a `no ip access-list extended N`
of the script is executed, `N` exists and no interface binds it (the last binding is gone). -/
theorem ios_no_referenced_acl_deleted (a0 b : Config) (sc : Scripts) (hw : wfB a0 b sc = true)
    (hok : (engine a0 b sc).ok = true)
    (cs1 cs2 : List Chg) (n : Name) (hs : (engine a0 b sc).script = cs1 ++ .noAcl n :: cs2) :
    ∃ d1, exec (ofConfig a0) cs1 = some d1 ∧ hasAcl d1 n = true ∧ aclBound d1 n = false := by
  have hacc := ios_script_accepted a0 b sc hw hok
  cases hx : exec (ofConfig a0) (engine a0 b sc).script with
  | none => rw [hx] at hacc; cases hacc
  | some d' =>
    rw [hs] at hx
    obtain ⟨d1, d2, h1, h2⟩ := exec_split _ _ _ _ _ hx
    exact ⟨d1, h1, (device_rules d1 d2).2 n h2⟩

/-- `ios_bindings_converge`: after the script every target interface has exactly the target's in/out
bindings, pointing to ACLs equivalent to the target's. -/
theorem ios_bindings_converge (a0 b : Config) (sc : Scripts) (hw : wfB a0 b sc = true) (hok : (engine a0 b sc).ok = true) :
    ∃ d', (exec (ofConfig a0) (engine a0 b sc).script).map strip = some d' ∧
      ∀ bi ∈ b.intfs, ∀ dir, isDir dir = true →
        match bi.binds.find? (·.dir == dir) with
        | some bd => ∃ n, slotOf d' bi.name dir = some n ∧ hasAcl d' n = true ∧ BlockEquivA (linesOf d' n) (b.lines bd.acl)
        | none => slotOf d' bi.name dir = none := by
  obtain ⟨d', h, h1, h2, _⟩ := ios_F2_converges_partial a0 b sc hw hok
  refine ⟨d', h, ?_⟩
  intro bi hbi dir hdir
  cases hf : bi.binds.find? (·.dir == dir) with
  | some bd =>
    have hmem := List.mem_of_find?_eq_some hf
    have hd : bd.dir = dir := by simpa using List.find?_some hf
    obtain ⟨n, k1, k2, k3⟩ := h1 bi hbi bd hmem
    exact ⟨n, by rw [← hd]; exact k1, k2, k3⟩
  | none =>
    apply h2 bi hbi dir hdir
    intro hc
    obtain ⟨bd, hbd, hbdd⟩ := List.mem_map.mp hc
    have := List.find?_eq_none.mp hf bd hbd
    simp [hbdd] at this

/-- `ios_routes_converge` (per VRF): for a VRF in which the target specifies routes, a route line of
either side is on the device after the script iff it is a route of the target. -/
theorem ios_routes_converge (a0 b : Config) (sc : Scripts) (hw : wfB a0 b sc = true) (hok : (engine a0 b sc).ok = true) :
    ∃ d', (exec (ofConfig a0) (engine a0 b sc).script).map strip = some d' ∧
      (∀ r ∈ a0.routes ++ b.routes, r.vrf ∈ b.routes.map (·.vrf) →
        (r.text ∈ d'.routes ↔ r.text ∈ b.routes.map (·.text))) ∧
      (∀ t ∈ d'.routes, t ∈ a0.routes.map (·.text) ∨ t ∈ b.routes.map (·.text)) := by
  obtain ⟨d', h, _, _, hr, _⟩ := ios_F2_converges_partial a0 b sc hw hok
  have hwf := WF_of_wfB hw
  refine ⟨d', h, ?_, ?_⟩
  · intro r hr0 hv
    rw [hr r.text]
    constructor
    · rintro (⟨h1, h2⟩ | ⟨r', hr', h3, _⟩)
      · -- a device route that stays: it is not deleted, so it is a target route
        apply Classical.byContradiction
        intro hnb
        apply h2
        -- it is a compared device route
        obtain ⟨r0, hr0m, hr0t⟩ := List.mem_map.mp h1
        have hsame : r0.vrf = r.vrf := by
          rcases List.mem_append.mp hr0 with hra | hrb
          · -- both are device routes with the same text
            obtain ⟨k, hk, hkk⟩ := List.getElem_of_mem hr0m
            obtain ⟨k', hk', hkk'⟩ := List.getElem_of_mem hra
            have : k = k' := by
              have h1' : (a0.routes.map (·.text))[k]'(by simpa using hk) = (a0.routes.map (·.text))[k']'(by simpa using hk') := by
                simp only [List.getElem_map, hkk, hkk', hr0t]
              exact (List.getElem_inj hwf.aRoutes).mp h1'
            subst this
            rw [← hkk, ← hkk']
          · exact hwf.routeVrf r0 hr0m r hrb hr0t
        have hkeep : r0 ∈ (alignVRFs a0 b {}).2.routes := by
          unfold alignVRFs
          simp only
          split
          · exact hr0m
          · exact List.mem_filter.mpr ⟨hr0m, by rw [hsame]; simp [hv]⟩
        exact ⟨r0, hkeep, hr0t, hnb, by rw [hsame]; simpa using hv⟩
      · rw [← h3]; exact List.mem_map_of_mem hr'
    · intro hb
      by_cases hA : r.text ∈ ((alignVRFs a0 b {}).2.routes).map (·.text)
      · left
        obtain ⟨r0, hr0m, hr0t⟩ := List.mem_map.mp hA
        have hsub : r0 ∈ a0.routes := by
          have : ∀ x ∈ (alignVRFs a0 b {}).2.routes, x ∈ a0.routes := by
            intro x hx
            unfold alignVRFs at hx
            simp only at hx
            split at hx
            · exact hx
            · exact (List.mem_filter.mp hx).1
          exact this r0 hr0m
        refine ⟨by rw [← hr0t]; exact List.mem_map_of_mem hsub, ?_⟩
        rintro ⟨a, _, _, h4, _⟩
        exact h4 hb
      · right
        obtain ⟨r', hr', hr't⟩ := List.mem_map.mp hb
        exact ⟨r', hr', hr't, hA⟩
  · intro t ht
    rcases (hr t).mp ht with ⟨h1, _⟩ | ⟨r', hr', h3, _⟩
    · exact Or.inl h1
    · exact Or.inr (by rw [← h3]; exact List.mem_map_of_mem hr')

/-- `ios_routes_untouched_if_unspecified`: a device route of a VRF for which the target specifies no
route is still there after the script (and no route is added to such a VRF: every added route is a
target route, `ios_routes_converge`). -/
theorem ios_routes_untouched_if_unspecified (a0 b : Config) (sc : Scripts) (hw : wfB a0 b sc = true)
    (hok : (engine a0 b sc).ok = true) :
    ∃ d', (exec (ofConfig a0) (engine a0 b sc).script).map strip = some d' ∧
      ∀ r ∈ a0.routes, r.vrf ∉ b.routes.map (·.vrf) → r.text ∈ d'.routes := by
  obtain ⟨d', h, _, _, hr, _⟩ := ios_F2_converges_partial a0 b sc hw hok
  have hwf := WF_of_wfB hw
  refine ⟨d', h, ?_⟩
  intro r hr0 hv
  rw [hr r.text]
  left
  refine ⟨List.mem_map_of_mem hr0, ?_⟩
  rintro ⟨a, ha, hat, _, hav⟩
  -- the deleted route has the same text, hence is `r`
  have hsub : a ∈ a0.routes := by
    have : ∀ x ∈ (alignVRFs a0 b {}).2.routes, x ∈ a0.routes := by
      intro x hx
      unfold alignVRFs at hx
      simp only at hx
      split at hx
      · exact hx
      · exact (List.mem_filter.mp hx).1
    exact this a ha
  obtain ⟨k, hk, hkk⟩ := List.getElem_of_mem hsub
  obtain ⟨k', hk', hkk'⟩ := List.getElem_of_mem hr0
  have : k = k' := by
    have h1' : (a0.routes.map (·.text))[k]'(by simpa using hk) = (a0.routes.map (·.text))[k']'(by simpa using hk') := by
      simp only [List.getElem_map, hkk, hkk', hat]
    exact (List.getElem_inj hwf.aRoutes).mp h1'
  subst this
  have har : a = r := by rw [← hkk, ← hkk']
  rw [har] at hav
  exact hv (by simpa using hav)

/-- `alignVRFs_frame` + `ios_unmanaged_vrf_untouched` (C07 for F2): an interface the target does not
name — in particular every interface of a VRF the target does not mention, and an interface unknown
to Netspoc in a managed VRF — keeps its bindings; the ACLs it binds still exist with exactly their
original entries (never edited, never deleted). -/
theorem ios_unmanaged_vrf_untouched (a0 b : Config) (sc : Scripts) (hw : wfB a0 b sc = true)
    (hok : (engine a0 b sc).ok = true) :
    ∃ d', (exec (ofConfig a0) (engine a0 b sc).script).map strip = some d' ∧
      (∀ x, x ∉ b.intfs.map (·.name) → ∀ dir, isDir dir = true → slotOf d' x dir = slotOf (ofConfig a0) x dir) ∧
      (∀ i ∈ a0.intfs, i.name ∉ b.intfs.map (·.name) → ∀ bd ∈ i.binds,
          hasAcl d' bd.acl = true ∧ entriesOf d' bd.acl = entriesOf (ofConfig a0) bd.acl) := by
  obtain ⟨d', h, _, _, _, h4, h5⟩ := ios_F2_converges_partial a0 b sc hw hok
  exact ⟨d', h, h4, h5⟩

/-- `alignVRFs` itself: it only removes interfaces and routes (of VRFs the target does not mention)
from the compared device configuration, never touches the access lists, and marks the ACLs of
every removed interface `needed`. -/
theorem alignVRFs_frame (a b : Config) :
    (alignVRFs a b {}).2.acls = a.acls ∧
    (∀ i ∈ a.intfs, i ∈ (alignVRFs a b {}).2.intfs ∨ Marked a (alignVRFs a b {}).1 i) ∧
    (∃ p : Intf → Bool, (alignVRFs a b {}).2.intfs = a.intfs.filter p) ∧
    (∃ p : Route → Bool, (alignVRFs a b {}).2.routes = a.routes.filter p) := by
  obtain ⟨_, h2, h3, h4, h5⟩ := alignVRFs_spec a b {} ⟨rfl, rfl, rfl, rfl, rfl, rfl⟩
  exact ⟨h2, h3, h4, h5⟩

/-! ## 6. What is false: remark lines (F-C02r at configuration level) -/

open NA.Acl (Act) in
def W.mkL (t : String) (a : Act) : ALine := ⟨t, t, t, a⟩
def W.dA := W.mkL "deny ip 10.1.0.0 0.0.255.255 any" .deny
def W.rN := W.mkL "remark n1" .remark
def W.pA := W.mkL "permit ip 10.1.0.0 0.0.255.255 any" .permit
def W.pT := W.mkL "permit tcp 10.1.0.0 0.0.255.255 any" .permit
def W.dAny := W.mkL "deny ip any any" .deny
def W.e0 (acl : String) : Intf := { name := "Ethernet0", addr := "x", binds := [⟨acl, "in"⟩] }
def W.devR : Config := { intfs := [W.e0 "e0_in"], acls := [("e0_in", [W.dA, W.rN, W.pA, W.pT, W.dAny])] }
def W.tgtR : Config := { intfs := [W.e0 "e0_in"], acls := [("e0_in", [W.pT, W.rN, W.dA, W.pA])] }
/-- the ranges `myers.Diff` returns for these lists (validated by the driver on the corpus case) -/
def W.scR : Scripts := { acl := [(("e0_in", "e0_in"), [⟨0,1,0,0⟩, ⟨1,1,0,1⟩, ⟨1,2,1,2⟩, ⟨2,2,2,3⟩, ⟨2,3,3,4⟩, ⟨3,5,4,4⟩])] }
def W.scR2 : Scripts := { acl := [(("e0_in", "e0_in"), [⟨0,1,0,0⟩, ⟨1,3,0,2⟩, ⟨3,3,2,3⟩, ⟨3,4,3,4⟩])] }
/-- without the remark line the same pair satisfies `wfB` -/
def W.devN : Config := { intfs := [W.e0 "e0_in"], acls := [("e0_in", [W.dA, W.pA, W.pT, W.dAny])] }
def W.tgtN : Config := { intfs := [W.e0 "e0_in"], acls := [("e0_in", [W.pT, W.dA, W.pA])] }
def W.scN : Scripts := { acl := [(("e0_in", "e0_in"), [⟨0,0,0,1⟩, ⟨0,2,1,3⟩, ⟨2,4,3,3⟩])] }

open W in
/-- `ios_F2_converges` is false with remark lines (F-C02r): the script is accepted, but the ACL bound to
`Ethernet0` ends as `[deny ip A, permit tcp A, remark, permit ip A]`, which is not block-equivalent
to the target; and a second compare of that device is not empty (`ios_F2_idempotent` is false too) —
only the second run reaches the target. -/
theorem ios_F2_converges_counterexample :
    showChanges (engine devR tgtR scR).script =
      ["ip access-list resequence e0_in 10000 10000", "ip access-list extended e0_in",
       "no 40000\\N 10001 permit tcp 10.1.0.0 0.0.255.255 any", "no 50000",
       "ip access-list resequence e0_in 10 10"] ∧
    wfB devR tgtR scR = false ∧
    (exec (ofConfig devR) (engine devR tgtR scR).script).map (fun d =>
      ((linesOf d "e0_in").map (·.text), blockEquivL (linesOf d "e0_in") (tgtR.lines "e0_in"),
       showChanges (engine (toConfig d) tgtR scR2).script)) =
      some (["deny ip 10.1.0.0 0.0.255.255 any", "permit tcp 10.1.0.0 0.0.255.255 any", "remark n1",
             "permit ip 10.1.0.0 0.0.255.255 any"], false,
            ["ip access-list resequence e0_in 10000 10000", "ip access-list extended e0_in",
             "no 10000\\N 30001 deny ip 10.1.0.0 0.0.255.255 any", "ip access-list resequence e0_in 10 10"]) := by
  refine ⟨by decide, by decide, by decide⟩

/-! ### Non-vacuity -/

open W in
example : wfB devN tgtN scN = true ∧ (engine devN tgtN scN).ok = true := by decide

open W in
example : incrOK (devN.lines "e0_in") (tgtN.lines "e0_in") [⟨0,0,0,1⟩, ⟨0,2,1,3⟩, ⟨2,4,3,3⟩] = true := by decide

example : replaceOK [W.pA] [W.pT, W.dAny] [⟨0,1,0,0⟩, ⟨0,0,0,2⟩] = true := by decide

def obligations : List Lean.Name := [
  ``ios_names_fresh, ``ios_confmode_tracks, ``ios_confmode_tracks_events, ``ios_confmode_exec,
  ``ios_acl_object_converges_partial, ``ios_acl_object_replaced, ``ios_unordered_ranges,
  ``ios_F2_converges_partial, ``ios_script_accepted, ``ios_objects_before_use, ``ios_no_referenced_acl_deleted,
  ``ios_bindings_converge, ``ios_routes_converge,
  ``ios_routes_untouched_if_unspecified, ``ios_unmanaged_vrf_untouched, ``alignVRFs_frame,
  ``ios_F2_converges_counterexample]

end NA.F2
