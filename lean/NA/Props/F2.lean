import NA.Proofs.F2Mode
import NA.Proofs.F2Exec
import NA.Proofs.F2Acl
import NA.Proofs.F2Unordered
import NA.Proofs.F1Names
/-!
# F2 — the IOS diff engine on fragment F2 (C02, C07, C08, C10, C14)

Model: `NA.F2.engine` (NA/Model/IosEngine.lean) = decisions (`List MA`) → events (`expand`) → printed
lines (`render`, the `subCmdOf` bookkeeping).  Strict device: `NA.IosDev2` (NA/Spec/IosCfgDev.lean).
All theorems are for ALL inputs (configurations, scripts) unless a decidable hypothesis is named.
-/
namespace NA.F2
open NA.IosDev2
open NA.Acl (Range BlockEqG LineEqv)
open NA.F1 (genName isTagged diffUnordered)

/-! ## 1. Generated names -/

/-- `ios_names_fresh`: the name given to a transferred ACL is not a name on the device, carries the
`-DRC-` tag, every smaller index is taken; different target names get different generated names. -/
theorem ios_names_fresh (base : Name) (dev : List Name) :
    genName base dev ∉ dev ∧ isTagged (genName base dev) = true ∧
    (∀ k, k < NA.F1.firstFree base (dev.length + 1) dev 0 → NA.F1.drcName base k ∈ dev) ∧
    (∀ base' dev', genName base dev = genName base' dev' → base = base') :=
  ⟨NA.F1.genName_fresh base dev, NA.F1.genName_tagged base dev, NA.F1.genName_least base dev,
   fun _ _ h => NA.F1.genName_injective h⟩

example : genName "e0_in" ["e0_in-DRC-0", "x", "e0_in-DRC-1"] = "e0_in-DRC-2" := by decide

/-! ## 2. Configuration mode (C08) -/

/-- `ios_confmode_tracks`: in the script of the engine (any input) every sub-command arrives while
the device — whose mode is the last mode line, reset by `exit` and by every other top-level command
— is in the mode of the parent the sub-command was emitted for, and `exit` is sent only inside a
sub-mode.  `renderP` is the printed script annotated with those parents. -/
theorem ios_confmode_tracks (a b : Config) (sc : Scripts) :
    (renderP none ((engine a b sc).acts.flatMap expand)).map (·.2) = scriptOf (engine a b sc).acts ∧
    inModes none (renderP none ((engine a b sc).acts.flatMap expand)) = true :=
  ⟨renderP_map _ _, inModes_render _ none none (fun _ h => by cases h) (acts_wf _)⟩

/-- … for every list of well-formed events and every agreeing start (`m`: `subCmdOf`, `dm`: device). -/
theorem ios_confmode_tracks_events (evs : List Ev) (m dm : Option Mode)
    (hm : ∀ p, m = some p → dm = some p) (hwf : ∀ e ∈ evs, wfEv e = true) :
    inModes dm (renderP m evs) = true := inModes_render evs m dm hm hwf

/-- `ios_confmode_exec`: executing the printed script command by command on the strict device is the
mode-free semantics of the decisions' events: no command is refused (or accepted) because of the
configuration mode. -/
theorem ios_confmode_exec (acts : List MA) (d : Dev) (hmode : d.mode = none) :
    (exec d (scriptOf acts)).map strip = (evsRun d (acts.flatMap expand)).map strip :=
  exec_script acts d hmode

example : inModes none (renderP none (expand (.bind "e0" "x" "in") ++ expand (.transfer "y" []) ++
    expand (.bind "e0" "y" "out"))) = true := by decide

/-! ## 3. One ACL object (C02) -/

/-- `ios_acl_object_converges` (incremental branch `diffIOSACLs`): for a pair that satisfies the
decidable hypotheses `incrOK` (valid script keeping a line, runs < 10000, lines pairwise different
modulo `log` per side, NO REMARK LINES), on every device that holds the ACL `aN` with the lines
`al`: resequence, mode line, numbered adds / moves / deletes and the final resequence are all
accepted; the ACL ends block-equivalent modulo `log` to the target (`BlockEqG LineEqv` on the
encoded lines: swaps of neighbours with equal action, replacement by a line equal modulo `log`);
every other ACL, the interfaces and the routes are unchanged (`putAcl`).  Reduction to
`NA.Acl.IosAclProps.ios_plan_block_equiv_partial`. -/
theorem ios_acl_object_converges (aN : Name) (al bl : List ALine) (rs : List Range)
    (hok : incrOK al bl rs = true) (d : Dev) (hhas : hasAcl d aN = true) (hmode : d.mode = none)
    (hnd : (aclNames d).Nodup) (hlines : (entriesOf d aN).map (·.2) = al) :
    ∃ esF, evsRun d (expand (.edit aN al bl rs)) = some (putAcl d aN esF) ∧
      BlockEqG LineEqv ((esF.map (·.2)).map (encP al bl)) (bl.map (encP al bl)) :=
  edit_incremental aN al bl rs hok d hhas hmode hnd hlines

/-- `ios_acl_object_replaced` (branch "no parts equal" of `diffCmds`, and a device ACL without
entries): all entries are deleted top-down by text, the target's are appended; accepted whenever
the target's lines can be appended one after the other (`replaceOK`); the ACL ends with exactly the
target's lines. -/
theorem ios_acl_object_replaced (aN : Name) (al bl : List ALine) (rs : List Range)
    (hok : replaceOK al bl rs = true) (d : Dev) (hhas : hasAcl d aN = true) (hmode : d.mode = none)
    (hnd : (aclNames d).Nodup) (hlines : (entriesOf d aN).map (·.2) = al) :
    ∃ esF, evsRun d (expand (.edit aN al bl rs)) = some (putAcl d aN esF) ∧ esF.map (·.2) = bl.map typed :=
  edit_replace aN al bl rs hok d hhas hmode hnd hlines

/-! ## 4. `diffUnordered` -/

/-- `ios_unordered_ranges`: for a duplicate-free device-side key list the ranges of `diffUnordered`
are: first delete / equal ranges whose flattened indices are exactly the device keys without / with
partner (paired with the last index of the key on the target side), in device order, then insert
ranges whose flattened indices are the target keys without partner, in target order; every range
lies inside the bounds and passes exactly one of the tests `IsDelete`/`IsInsert`/`IsEqual`. -/
theorem ios_unordered_ranges (as bs : List String) (hnd : as.Nodup) :
    ∃ rsA rsB, diffUnordered as bs = rsA ++ rsB ∧
      (∀ r ∈ rsA, kindOf as.length bs.length r = some .del ∨ kindOf as.length bs.length r = some .eq) ∧
      (∀ r ∈ rsB, kindOf as.length bs.length r = some .ins) ∧
      fDel rsA = sDel bs 0 as ∧ fEq rsA = sEq bs 0 as ∧ fIns rsB = sIns as 0 bs :=
  diffUnordered_spec as bs hnd

def obligations : List Lean.Name := [
  ``ios_names_fresh, ``ios_confmode_tracks, ``ios_confmode_tracks_events, ``ios_confmode_exec,
  ``ios_acl_object_converges, ``ios_acl_object_replaced, ``ios_unordered_ranges]

end NA.F2
