import NA.Proofs.C15Wide
import NA.Props.C15Deep
/-!
# C15: banners on the echo of ANY command the session sends while the reload is scheduled

`wideDevice na fb` (`NA/Spec/IosDev.lean`): in addition to the banners on the change lines (`gs`), a
banner of any of the four forms may ride on the second `configure terminal`, on the deferred `end`
and on `reload cancel` (`fb : line ↦ behaviour`).  Placements and what is proved / refuted:

| line | forms | status |
|---|---|---|
| change lines | all four, every offset | `banner_invariant_partial/run`, `rejected_run` (except F-C15b) |
| second `configure terminal` | inside echo, after output (one prompt) | `banner_invariant_run_wide`, `rejected_run_wide` |
| second `configure terminal` | before echo / after output WITH fresh prompt (two prompts) | **false**: `fixed_two_prompt_counterexample` (F-C15e) |
| deferred `end` | all four | `banner_invariant_run_wide`, `rejected_run_wide` |
| `reload cancel` | all four | `banner_invariant_run_wide`, `rejected_run_wide` |
| confirmation of `reload in 2` / `do reload in 2` | two prompts | **false**: `confirm_two_prompt_counterexample` (F-C15e) |
| confirmation, one prompt; `do reload in 2`, `n` lines | — | dialogues only (tie with the real code), no theorem |
| any fixed line, message `0:01:00` | — | run unchanged but NOT re-armed: `one_minute_on_fixed_line_counterexample` |
| preparation commands, `reload in 2`, `write memory`, the empty command after the cancel | — | no reload is scheduled at that moment: the device cannot print a reload banner |
-/
namespace NA.Ios

/-- **banner_invariant_run_wide / rejected_run_wide in one statement.** For every script `gs` (banners
of any form on its change lines, outside F-C15b), both dialogue variants, and banners `fb` of any
form on `end` and `reload cancel` and of the one-prompt forms on the second `configure terminal`:
the run against the widened device has the SAME result, transcript and warnings as the run
against the device without banners on the fixed lines; `write memory` is sent iff every output is
accepted; no reload is pending afterwards; the guard discipline holds. -/
theorem banner_invariant_run_wide (na : Bool) (fb : Str → Option Behav) (gs : List Chg) (q : List Behav)
    (st0 : St SimSt) (hfb : FbOK fb)
    (hp : st0.pend = []) (ht : st0.trace = []) (hparts : st0.dev.parts = []) (hocc : st0.dev.occ = [])
    (hq : st0.dev.queue = gs.flatMap Chg.behavs ++ q) (hc : ∀ g ∈ gs, g.Clean ∧ g.NoProbeFirst) :
    let o := applyCommands (wideDevice na fb) true (gs.map Chg.cmd) st0
    let o' := applyCommands (simDevice [] na) true (gs.map Chg.cmd) st0
    (o.1 = .ok () ↔ o'.1 = .ok ()) ∧
    (∀ ci R, o.1 = .abort (.unexpectedOutput ci R) → ∃ R', o'.1 = .abort (.unexpectedOutput ci R') ∧ neLines R = neLines R') ∧
    (o.1 = .ok () ∨ ∃ ci R, o.1 = .abort (.unexpectedOutput ci R)) ∧
    o.2.trace = o'.2.trace ∧ o.2.warns = o'.2.warns ∧
    (writeCmd ∈ linesOf o.2.trace ↔ specOk gs = true) ∧
    pendingAfter (linesOf o.2.trace) = false ∧ guardOK (linesOf o.2.trace) = true := by
  intro o o'
  have hw := apply_wide na fb gs q st0 hfb hp ht hparts hocc hq hc
  have hcs := cleanCs_of_clean gs (fun g hg => (hc g hg).1)
  have hguard := guard_brackets_changes (wideDevice na fb) true _ hcs st0 ht
  cases hs : specOk gs with
  | true =>
    have h' := apply_sim_ok na gs q st0 hp ht hparts hq hc hs
    obtain ⟨hok, htr⟩ := hw.1 hs
    refine ⟨⟨fun _ => h'.1, fun _ => hok⟩, ?_, .inl hok, by rw [htr, h'.2.1], by rw [hw.2.2.1, h'.2.2.1], ?_, ?_, hguard⟩
    · intro ci R h; rw [hok] at h; cases h
    · constructor
      · intro _; rfl
      · intro _; rw [htr]
        have : writeCmd ∈ linesOf [writeCmd] := by decide
        simp only [fullTrace, linesOf_append]
        exact List.mem_append_right _ this
    · exact no_reload_pending_after_success (wideDevice na fb) true _ hcs st0 ht hok
  | false =>
    have h' := apply_sim_rejected na gs q st0 hp ht hparts hq hc hs
    obtain ⟨⟨ci, R, out, hab, hfbad, hne⟩, htr⟩ := hw.2.1 hs
    obtain ⟨ci', R', out', hab', hfbad', hne'⟩ := h'.1
    have hcio : ci' = ci ∧ out' = out := by rw [hfbad] at hfbad'; cases hfbad'; exact ⟨rfl, rfl⟩
    refine ⟨?_, ?_, .inr ⟨ci, R, hab⟩, by rw [htr, h'.2.1], by rw [hw.2.2.1, h'.2.2.1], ?_, ?_, hguard⟩
    · constructor
      · intro h; rw [hab] at h; cases h
      · intro h; rw [hab'] at h; cases h
    · intro c2 R2 h
      rw [hab] at h; cases h
      exact ⟨R', by rw [hab', hcio.1], by rw [hne, hne', hcio.2]⟩
    · constructor
      · intro hm
        exfalso
        have := (rejected_run na gs q st0 hp ht hparts hq hc hs).2.2.2.1
        rw [htr] at hm
        exact this (by rw [h'.2.1]; exact hm)
      · intro h; cases h
    · -- scheduleReload returned: the deferred cancel was sent after the last (re-)arming
      have hsched : (scheduleReload (wideDevice na fb) (afterPrep (wideDevice na fb) st0)).1 = .ok () := by
        unfold afterPrep
        rw [prepare_wide na fb st0 hp hparts hocc]
        simp only
        rw [schedule_wide na fb { st0 with pend := [], trace := st0.trace ++ prepCmds } rfl hparts]
      exact cancel_on_failure_partial (wideDevice na fb) true _ hcs st0 ht hsched

/-- non-vacuity: banners of three different forms on the three fixed lines, a 1:00 banner on a change -/
example :
    let fb : Str → Option Behav := fun l =>
      if l == confCmd then some { form := .inside 4, msg := lit " --- SHUTDOWN in 0:02:00 ---" }
      else if l == endCmd then some { form := .before 2, msg := lit " --- SHUTDOWN in 0:01:00 ---" }
      else if l == cancelCmd then some { form := .afterPrompt 1, msg := lit " --- SHUTDOWN ABORTED ---" }
      else none
    let gs := [Chg.one (lit "ip route 10.1.0.0 255.255.0.0 10.9.1.1") { form := .after, msg := lit " --- SHUTDOWN in 0:01:00 ---" }]
    (singlePrompt (Form.inside 4) = true) ∧ gs.all Chg.cleanB = true ∧
    (applyCommands (wideDevice false fb) true (gs.map Chg.cmd) { dev := { queue := gs.flatMap Chg.behavs } }).1 = .ok () := by
  decide +kernel

/-- **fixed_two_prompt_counterexample** (F-C15e). A banner with a fresh prompt before the echo — or
after the output — of the second `configure terminal` (sent with plain `SendCmd`, which reads up to
the FIRST prompt and never looks at the output): a stale prompt stays in the buffer, the first
change command reads it as its own answer and the run aborts with `unexpected echo`; without the
banner the run succeeds.  The guard theorems still hold (end, cancel are sent, nothing is written). -/
theorem fixed_two_prompt_counterexample :
    ∃ (fb : Str → Option Behav) (fb' : Str → Option Behav) (gs : List Chg),
      gs.all Chg.cleanB = true ∧ specOk gs = true ∧
      (applyCommands (simDevice [] false) true (gs.map Chg.cmd) { dev := { queue := gs.flatMap Chg.behavs } }).1 = .ok () ∧
      (∃ s, (applyCommands (wideDevice false fb) true (gs.map Chg.cmd) { dev := { queue := gs.flatMap Chg.behavs } }).1 =
        .abort (.unexpectedEcho (lit "ip route 10.1.0.0 255.255.0.0 10.9.1.1") s)) ∧
      (∃ s, (applyCommands (wideDevice false fb') true (gs.map Chg.cmd) { dev := { queue := gs.flatMap Chg.behavs } }).1 =
        .abort (.unexpectedEcho (lit "ip route 10.1.0.0 255.255.0.0 10.9.1.1") s)) ∧
      writeCmd ∉ linesOf (applyCommands (wideDevice false fb) true (gs.map Chg.cmd) { dev := { queue := gs.flatMap Chg.behavs } }).2.trace ∧
      pendingAfter (linesOf (applyCommands (wideDevice false fb) true (gs.map Chg.cmd) { dev := { queue := gs.flatMap Chg.behavs } }).2.trace) = false :=
  ⟨fun l => if l == confCmd then some { form := .before 2, msg := lit " --- SHUTDOWN in 0:02:00 ---" } else none,
   fun l => if l == confCmd then some { form := .afterPrompt 2, msg := lit " --- SHUTDOWN in 0:02:00 ---" } else none,
   [.one (lit "ip route 10.1.0.0 255.255.0.0 10.9.1.1") {}],
   by decide +kernel, by decide +kernel, by decide +kernel,
   ⟨lit "configure terminal\nEnter configuration commands, one per line.  End with CNTL/Z.\n", by decide +kernel⟩,
   ⟨['\n'], by decide +kernel⟩, by decide +kernel, by decide +kernel⟩

/-- **confirm_two_prompt_counterexample** (F-C15e, same mechanism): the banner with a fresh prompt
rides on the confirmation of `reload in 2` (the empty command, `SendCmd("")`). -/
theorem confirm_two_prompt_counterexample :
    ∃ (sp : List (Str × List (List Str))) (gs : List Chg), gs.all Chg.cleanB = true ∧ specOk gs = true ∧
      (applyCommands (simDevice [] false) true (gs.map Chg.cmd) { dev := { queue := gs.flatMap Chg.behavs } }).1 = .ok () ∧
      (∃ s, (applyCommands (simDevice sp false) true (gs.map Chg.cmd) { dev := { queue := gs.flatMap Chg.behavs } }).1 =
        .abort (.unexpectedEcho (lit "ip route 10.1.0.0 255.255.0.0 10.9.1.1") s)) :=
  ⟨[(reloadCmd, [[lit "reload in 2\n\nSystem configuration has been modified. Save? [yes/no]: ",
       lit "Reload reason: Reload Command\nProceed with reload? [confirm]" ++ bannerText (lit " --- SHUTDOWN in 0:02:00 ---") ++ ['\n'] ++ prompt,
       prompt]])],
   [.one (lit "ip route 10.1.0.0 255.255.0.0 10.9.1.1") {}],
   by decide +kernel, by decide +kernel, by decide +kernel,
   ⟨lit "configure terminal\nEnter configuration commands, one per line.  End with CNTL/Z.\n", by decide +kernel⟩⟩

/-- **one_minute_on_fixed_line_counterexample.** `rearm_on_one_minute` is about the commands sent
through `cmd`.  A `SHUTDOWN in 0:01:00` banner riding on the second `configure terminal` (inside the
echo; plain `SendCmd` never inspects the output) does not change the run, but it is NOT re-armed:
no `do reload in 2` is sent. -/
theorem one_minute_on_fixed_line_counterexample :
    ∃ (fb : Str → Option Behav) (gs : List Chg), FbOK fb ∧ gs.all Chg.cleanB = true ∧
      (∃ b, fb confCmd = some b ∧ oneMinute b.msg = true) ∧
      (applyCommands (wideDevice false fb) true (gs.map Chg.cmd) { dev := { queue := gs.flatMap Chg.behavs } }).1 = .ok () ∧
      rearms (linesOf (applyCommands (wideDevice false fb) true (gs.map Chg.cmd) { dev := { queue := gs.flatMap Chg.behavs } }).2.trace) = 0 :=
  ⟨fun l => if l == confCmd then some { form := .inside 4, msg := lit " --- SHUTDOWN in 0:01:00 ---" } else none,
   [.one (lit "ip route 10.1.0.0 255.255.0.0 10.9.1.1") {}],
   ⟨by intro b hb; simp at hb; subst hb; exact ⟨rfl, fun _ => cleanMsg_of_B _ (by decide +kernel)⟩,
    by intro b hb; simp [show (endCmd == confCmd) = false by decide] at hb⟩,
   by decide +kernel,
   ⟨{ form := .inside 4, msg := lit " --- SHUTDOWN in 0:01:00 ---" }, by simp, by decide +kernel⟩,
   by decide +kernel, by decide +kernel⟩

end NA.Ios

namespace NA.C15Wide
def obligations : List Lean.Name :=
  [``NA.Ios.banner_invariant_run_wide, ``NA.Ios.fixed_two_prompt_counterexample,
   ``NA.Ios.confirm_two_prompt_counterexample, ``NA.Ios.one_minute_on_fixed_line_counterexample]
end NA.C15Wide
