import NA.Proofs.C09Skel
/-!
# C09 — any device-side failure stops the run and is reported truthfully (first stage: T-gen)
-/
namespace NA.C09

def obligations : List Lean.Name := [
  ``skel_asa_ApplyCommands, ``skel_ios_ApplyCommands, ``skel_linux_ApplyCommands,
  ``skel_panos_ApplyCommands, ``skel_nsx_ApplyCommands ]

end NA.C09
