import NA.Proofs.C09Term
import NA.Proofs.C09Saved
import NA.Proofs.C09Compose
import NA.Proofs.C09Exact
import NA.Proofs.C09Skel
import NA.Spec.SessDevice
/-!
# C09 — any device-side failure stops the run and is reported truthfully

Property theorems only.  `runProg b env` is the whole run of `drc` / of the
`device.ApproveOrCompare` call inside `do-approve` for backend `b` against the device
`env.dev : List Ev → Reply` — an **arbitrary function of the whole history** (adversarial: error
text, unexpected output, silence, close, HTTP status, malformed body, failed job, at any position,
any number of times) — with an arbitrary change script `env.plan` of any length.

`badFull` is a device-side failure as the property states it; `badChecked` is the part of it the
code inspects (everything except: error text / unexpected output / garbled echo in the reply to a
command whose output the code does not look at, and a connection close that net/http hides by
replaying the request).

* The statements with `badFull` are **false** of the unchanged code: three counterexamples below
  (findings F-C09a, F-C09b, F-C09c; replayed on the real code by the harness).
* With `badChecked` they are proved for all devices, scripts, positions and kinds
  (`…_partial`); `badChecked → badFull` (`badChecked_imp_badFull`), and the findings are exactly
  the replies with `badFull ∧ ¬badChecked`.
-/
namespace NA.C09
open NA.Sess NA.Apply NA.Spec.C09

/-- **no_change_after_fault** (for every backend, device, script length, fault position and kind):
nothing after a bad reply is a change command, a save step or a start-up file copy — only
session clean-up.

Full statement (false, see the counterexamples): the same with `badFull b`. -/
theorem no_change_after_fault_partial (b : Backend) (env : Env) :
    NoChangeAfterFault (badChecked b) (runProg b env).tr :=
  (safe_iff_noChangeAfterFault _ _).mp (run_inv b env).safe

/-- **no_save_after_fault**: in particular no `write memory`, commit, job poll or scp. -/
theorem no_save_after_fault_partial (b : Backend) (env : Env) (pre post : List Ev) (ρ : Role) (r : Reply)
    (hsplit : (runProg b env).tr = pre ++ Ev.got ρ r :: post) (hbad : badChecked b ρ r = true) :
    (∀ ls, Ev.sent .save ls ∉ post) ∧ (∀ w, Ev.scp w ∉ post) ∧ (∀ ls, Ev.sent .change ls ∉ post) := by
  have h := no_change_after_fault_partial b env pre post ρ r hsplit hbad
  refine ⟨fun ls hm => ?_, fun w hm => ?_, fun ls hm => ?_⟩ <;> simpa [isChangeOrSave] using h _ hm

/-- **exit_nonzero**: after a bad reply the run ends by abort (exit status 1) — or, for the
PAN-OS job poll only, does not end at all (see `panos_commit_poll_total`). -/
theorem exit_nonzero_partial (b : Backend) (env : Env)
    (hf : faulted (badChecked b) (runProg b env).tr = true) (hd : (runProg b env).mode ≠ .diverge) :
    exitCode (runProg b env) = 1 := by
  rcases exit_of_faulted b env hf with h | h
  · simp [exitCode, h]
  · exact absurd h hd

/-- **status_failed_or_diff**: `do-approve` then records FAILED (approve) or DIFF (compare),
whatever the status file said before. -/
theorem status_failed_or_diff_partial (b : Backend) (env : Env) (prev : Status) (policy : String) (now : Nat)
    (hf : faulted (badChecked b) (runProg b env).tr = true) (hd : (runProg b env).mode ≠ .diverge) :
    (doApprove false prev policy now (runProg b env).tr (exitCode (runProg b env))).status.approve.result = "FAILED"
    ∧ (doApprove true prev policy now (runProg b env).tr (exitCode (runProg b env))).status.compare.result = "DIFF" := by
  rw [exit_nonzero_partial b env hf hd]
  exact ⟨doApprove_failed_approve _ _ _ _, doApprove_failed_compare _ _ _ _⟩

/-- **history_end_failed** and the exit status of `do-approve` itself. -/
theorem history_end_failed_partial (b : Backend) (env : Env) (isCompare : Bool) (prev : Status) (policy : String)
    (now : Nat) (hf : faulted (badChecked b) (runProg b env).tr = true) (hd : (runProg b env).mode ≠ .diverge) :
    (doApprove isCompare prev policy now (runProg b env).tr (exitCode (runProg b env))).endMsg = "FAILED"
    ∧ (doApprove isCompare prev policy now (runProg b env).tr (exitCode (runProg b env))).exit = 1 := by
  rw [exit_nonzero_partial b env hf hd]
  exact ⟨(doApprove_failed_exit _ _ _ _ _).2, (doApprove_failed_exit _ _ _ _ _).1⟩

/-- **ok_only_if_all_accepted**: a run that ends, and after which `do-approve` exits 0 / records OK,
has seen only good replies wherever the code inspects them: every change command accepted
(echo right, no output besides notices), every exit status 0, every save step confirmed, every
HTTP reply 200 and well-formed. -/
theorem ok_only_if_all_accepted_partial (b : Backend) (env : Env) (isCompare : Bool) (prev : Status)
    (policy : String) (now : Nat) (hd : (runProg b env).mode ≠ .diverge)
    (hok : (doApprove isCompare prev policy now (runProg b env).tr (exitCode (runProg b env))).exit = 0) :
    faulted (badChecked b) (runProg b env).tr = false := by
  have h0 : exitCode (runProg b env) = 0 := (doApprove_ok_iff _ _ _ _ _ _).mp hok
  cases hf : faulted (badChecked b) (runProg b env).tr with
  | false => rfl
  | true => rw [exit_nonzero_partial b env hf hd] at h0; cases h0

/-! ## termination -/

/-- ASA, Linux, NSX: the programs contain no loop whose end depends on the device. -/
theorem run_terminates_loopfree (b : Backend) (hb : b = .asa ∨ b = .linux ∨ b = .nsx) (env : Env) :
    (runProg b env).mode ≠ .diverge := by
  unfold runProg
  rcases hb with rfl | rfl | rfl <;> exact noLoop_mode _ (by decide) env _ (by simp)

/-- IOS: `retries := 2; for { write memory … }` needs at most three rounds. -/
theorem run_terminates_ios' (env : Env) : (runProg .ios env).mode ≠ .diverge := run_terminates_ios env

/-- Every backend but PAN-OS: the run always ends, so a bad reply always gives exit status 1. -/
theorem exit_nonzero_partial_nonpanos (b : Backend) (hb : b ≠ .panos) (env : Env)
    (hf : faulted (badChecked b) (runProg b env).tr = true) : exitCode (runProg b env) = 1 := by
  refine exit_nonzero_partial b env hf ?_
  cases b with
  | asa => exact run_terminates_loopfree .asa (by simp) env
  | ios => exact run_terminates_ios env
  | linux => exact run_terminates_loopfree .linux (by simp) env
  | panos => exact absurd rfl hb
  | nsx => exact run_terminates_loopfree .nsx (by simp) env

/-- the poll loop says `continue` only when the device answered PEND -/
theorem panos_poll_continue_only_on_pend (env : Env) (s : St) (hs : s.mode = .run)
    (hc : (exec panosPollRound env s).mode = .cont) : Flag.pend ∈ (exec panosPollRound env s).last.flags := by
  unfold panosPollRound at *
  rw [exec_seq] at hc ⊢
  have hnc : (exec (panosDoCmd .save (.lit "show jobs")) env s).mode ≠ .cont :=
    noCont_mode _ (by decide) env s (by rw [hs]; decide)
  generalize exec (panosDoCmd .save (.lit "show jobs")) env s = s1 at hc hnc ⊢
  by_cases hm1 : s1.mode = .run
  · by_cases he : s1.errv = true
    · simp [xmlUnmarshal, exec, hm1, evalCond, he] at hc
    · have he' : s1.errv = false := by simpa using he
      by_cases hw : Flag.wellFormed ∈ s1.last.flags
      · by_cases hp : Flag.pend ∈ s1.last.flags
        · simp [xmlUnmarshal, exec, hm1, evalCond, he', hw, hp]
        · by_cases hok : Flag.jobOk ∈ s1.last.flags
          · simp [xmlUnmarshal, exec, hm1, evalCond, he', hw, hp, hok] at hc
          · simp [xmlUnmarshal, exec, hm1, evalCond, he', hw, hp, hok] at hc
      · simp [xmlUnmarshal, exec, hm1, evalCond, he', hw] at hc
  · rw [exec_nonrun _ _ _ hm1] at hc ⊢
    -- a request never ends in mode `cont`
    exact absurd hc hnc

/-- **The PAN-OS commit poll loop is total only under an explicit hypothesis**: if within the
fuel some round is answered by something other than PEND (`hstop`: that round does not say
`continue`), the loop ends.  A device that answers PEND for ever makes the real program loop for
ever (no overall timeout in `commit`); this is outside the listed fault kinds. -/
theorem panos_commit_poll_total (env : Env) (s : St) (hs : s.mode = .run) (k : Nat) (hk : k < env.fuel)
    (hstop : (exec panosPollRound env (rounds (exec panosPollRound env) k s)).mode ≠ .cont) :
    (exec (.loopFuel panosPollRound) env s).mode ≠ .diverge := by
  simp only [exec]
  refine iter_total _ (fun st hst => ⟨leaves_mode _ (by decide) env st hst, noLoop_mode _ (by decide) env st ?_⟩) _ s hs k hk hstop
  rw [hst]; decide

/-- the loop of the model is the loop of the program -/
theorem panosPollRound_is_commit_loop : panosCommitBody =
    (panosCommitHead ;; xmlUnmarshal ;; .ite .err "err != nil" (.ret .keep ["err"]) .skip ;; .loopFuel panosPollRound) :=
  panosCommitBody_eq

/-! ## ok_only_if_all_accepted_and_saved, the remaining halves (per function)

"Accepted" is `ok_only_if_all_accepted_partial` above.  "Everything was sent" and "the save was
confirmed" are proved for the functions that do it, for every device and every script; composing
them with the whole run (`ApplyCommands` returned nil ⇒ `do-approve` OK) is checked by the oracle on
every fault-free run of the harness, not proved. -/

/-- If the loop over the change script ends in normal mode, every packet of the script is on the
wire, in order, exactly once (ASA / IOS / Linux `cmd`, NSX `sendRequest`). -/
theorem ok_only_if_all_sent (env : Env) (s : St) (hm : s.mode = .run) :
    ((exec (.forEach (asaCmd .change .cur ["_"])) env s).mode = .run →
      changeSends (exec (.forEach (asaCmd .change .cur ["_"])) env s).tr = changeSends s.tr ++ s.plan)
    ∧ ((exec (.forEach (iosCmd .change .cur ["_"])) env s).mode = .run →
      changeSends (exec (.forEach (iosCmd .change .cur ["_"])) env s).tr = changeSends s.tr ++ s.plan)
    ∧ ((exec (.forEach (linuxCmd .change .cur ["_"])) env s).mode = .run →
      changeSends (exec (.forEach (linuxCmd .change .cur ["_"])) env s).tr = changeSends s.tr ++ s.plan)
    ∧ ((exec (.forEach (nsxSendRequest .change .cur ;; .ite .err "err != nil" (.ret .keep ["err"]) .skip)) env s).mode = .run →
      changeSends (exec (.forEach (nsxSendRequest .change .cur ;; .ite .err "err != nil" (.ret .keep ["err"]) .skip)) env s).tr
        = changeSends s.tr ++ s.plan) :=
  ⟨foreach_sends_all_asa env s hm, foreach_sends_all_ios env s hm, foreach_sends_all_linux env s hm,
   foreach_sends_all_nsx env s hm⟩

/-- PAN-OS: the same, except that net/http may put a command on the wire twice (F-C09c). -/
theorem ok_only_if_all_sent_panos (env : Env) (s : St) (hm : s.mode = .run)
    (hend : (exec (.forEach (panosDoCmd .change .cur ;; .ite .err "err != nil" (.ret .err ["_"]) .skip)) env s).mode = .run) :
    ∃ new, changeSends (exec (.forEach (panosDoCmd .change .cur ;; .ite .err "err != nil" (.ret .err ["_"]) .skip)) env s).tr
        = changeSends s.tr ++ new ∧ List.Sublist s.plan new :=
  foreach_sends_all_panos env s hm hend

/-- ASA `write memory` / IOS `writeMem` come back without abort, and PAN-OS `commit` returns nil,
only after the device confirmed: `[OK]`, resp. "no changes to commit" or job result OK. -/
theorem ok_only_if_saved (env : Env) (s : St) (hm : s.mode = .run) :
    ((exec iosWriteMem env s).mode = .run → saveConfirmed (exec iosWriteMem env s).tr = true)
    ∧ ((exec panosCommit env s).mode = .run → (exec panosCommit env s).errv = false →
        saveConfirmed (exec panosCommit env s).tr = true) :=
  ⟨ios_saved_if_completes env s hm, panos_saved_if_commit_returns_nil env s hm⟩

/-! ## the two directions, each as one theorem over the whole run -/

/-- **ok_only_if_all_sent_accepted_and_saved** — one theorem for all five backends, every device
behaviour and fault schedule (`env.dev` arbitrary), every change script.  If an approve run ends and
`do-approve` exits 0 / records OK, then

* no reply the code inspects was bad,
* every command of the script the planner produced is on the wire, in order
  (`s.plan` is a sublist of the change commands sent; equality up to net/http replays, see
  `ok_only_if_all_sent`),
* ASA / IOS / PAN-OS: if there was anything to change, the device confirmed the save
  (`[OK]`, "no changes to commit", job result OK),
* Linux (not simulated): the start-up files were copied successfully — routing if routes changed,
  packet-filter if iptables changed. -/
theorem ok_only_if_all_sent_accepted_and_saved (b : Backend) (env : Env) (prev : Status) (policy : String) (now : Nat)
    (hc : env.compare = false) (hsim : b = .linux → env.simulated = false)
    (hd : (runProg b env).mode ≠ .diverge)
    (hok : (doApprove false prev policy now (runProg b env).tr (exitCode (runProg b env))).exit = 0) :
    faulted (badChecked b) (runProg b env).tr = false
    ∧ (runProg b env).plan.Sublist (changeSends (runProg b env).tr)
    ∧ ((b = .asa ∨ b = .ios ∨ b = .panos) → (!(runProg b env).plan.isEmpty || (runProg b env).ipt) = true →
        saveConfirmed (runProg b env).tr = true)
    ∧ (b = .linux → ((runProg b env).plan.isEmpty = false → scpConfirmed "routing" (runProg b env).tr)
        ∧ ((runProg b env).ipt = true → scpConfirmed "iptables" (runProg b env).tr)) := by
  have h0 : exitCode (runProg b env) = 0 := (doApprove_ok_iff _ _ _ _ _ _).mp hok
  have hret : (runProg b env).mode = .ret := by
    rcases run_mode_cases b env with h | h | h
    · exact h
    · simp [exitCode, h] at h0
    · exact absurd h hd
  obtain ⟨hf, hh⟩ := run_ok_facts b env hc hsim hret
  refine ⟨hf, ?_, ?_, ?_⟩
  · exact hh.hS (by cases b <;> rfl)
  · intro hb
    exact hh.hV (by rcases hb with rfl | rfl | rfl <;> rfl)
  · intro hb
    subst hb
    exact ⟨hh.hR rfl, hh.hT rfl⟩

/-- **fault_stops_and_reports** — the converse as one theorem over an arbitrary fault position: for
every backend, device and script, if the reply at ANY position of the trace (`pre.length`) is a
failure the code inspects, then nothing after it is a change command, a save step or a start-up
file copy, the run exits 1 (if it ends: always, except for the PAN-OS poll loop), `do-approve`
records FAILED for approve resp. DIFF for compare, writes `END: FAILED` and exits 1. -/
theorem fault_stops_and_reports (b : Backend) (env : Env) (prev : Status) (policy : String) (now : Nat)
    (pre post : List Ev) (ρ : Role) (r : Reply)
    (hsplit : (runProg b env).tr = pre ++ Ev.got ρ r :: post) (hbad : badChecked b ρ r = true)
    (hd : (runProg b env).mode ≠ .diverge) :
    (∀ e ∈ post, isChangeOrSave e = false)
    ∧ exitCode (runProg b env) = 1
    ∧ (doApprove false prev policy now (runProg b env).tr (exitCode (runProg b env))).status.approve.result = "FAILED"
    ∧ (doApprove true prev policy now (runProg b env).tr (exitCode (runProg b env))).status.compare.result = "DIFF"
    ∧ (∀ isCompare, (doApprove isCompare prev policy now (runProg b env).tr (exitCode (runProg b env))).endMsg = "FAILED"
        ∧ (doApprove isCompare prev policy now (runProg b env).tr (exitCode (runProg b env))).exit = 1) := by
  have hf : faulted (badChecked b) (runProg b env).tr = true := by
    rw [hsplit]
    simp [faulted, isBadGot, hbad]
  have hst := status_failed_or_diff_partial b env prev policy now hf hd
  exact ⟨no_change_after_fault_partial b env pre post ρ r hsplit hbad, exit_nonzero_partial b env hf hd,
    hst.1, hst.2, fun ic => history_end_failed_partial b env ic prev policy now hf hd⟩

/-- **compare_diff_recorded_iff** — the compare counterpart, one theorem for all five backends and
every device behaviour.  For a compare run that ends:

* `do-approve` records UPTODATE **iff** the run ended by `return` with neither an `ERROR>>>` line nor
  `comp: *** device changed ***` in the log;
* UPTODATE is recorded only if every reply the code inspects was good (login, every read step) and
  **no difference was computed** (the script is empty);
* any bad reply ⇒ DIFF is recorded (whatever the status file said before), `END: FAILED`, exit 1. -/
theorem compare_diff_recorded_iff (b : Backend) (env : Env) (prev : Status) (policy : String) (now : Nat)
    (hc : env.compare = true) (hd : (runProg b env).mode ≠ .diverge) :
    ((doApprove true prev policy now (runProg b env).tr (exitCode (runProg b env))).status.compare.result = "UPTODATE"
      ↔ ((runProg b env).mode = .ret ∧ (runProg b env).tr.contains .logChanged = false
          ∧ (runProg b env).tr.contains .logErr = false))
    ∧ ((doApprove true prev policy now (runProg b env).tr (exitCode (runProg b env))).status.compare.result = "UPTODATE"
        → faulted (badChecked b) (runProg b env).tr = false
          ∧ (!(runProg b env).plan.isEmpty || (runProg b env).ipt) = false)
    ∧ (faulted (badChecked b) (runProg b env).tr = true
        → (doApprove true prev policy now (runProg b env).tr (exitCode (runProg b env))).status.compare.result = "DIFF"
          ∧ (doApprove true prev policy now (runProg b env).tr (exitCode (runProg b env))).endMsg = "FAILED"
          ∧ (doApprove true prev policy now (runProg b env).tr (exitCode (runProg b env))).exit = 1) := by
  have hiff : (doApprove true prev policy now (runProg b env).tr (exitCode (runProg b env))).status.compare.result = "UPTODATE"
      ↔ ((runProg b env).mode = .ret ∧ (runProg b env).tr.contains .logChanged = false
          ∧ (runProg b env).tr.contains .logErr = false) := by
    rcases run_mode_cases b env with hm | hm | hm
    · -- ended by return: exit status 0
      have h0 : exitCode (runProg b env) = 0 := by simp [exitCode, hm]
      rw [h0]
      simp only [doApprove, setCompare, hm]
      cases hchg : (runProg b env).tr.contains Ev.logChanged <;> cases herr : (runProg b env).tr.contains Ev.logErr <;>
        simp <;> (try (split <;> simp_all))
    · have h1 : exitCode (runProg b env) = 1 := by simp [exitCode, hm]
      rw [h1]
      simp only [doApprove, setCompare, hm]
      simp
      split <;> simp_all
    · exact absurd hm hd
  refine ⟨hiff, fun hup => ?_, fun hf => ?_⟩
  · obtain ⟨hret, hchg, _⟩ := hiff.mp hup
    obtain ⟨hgood, hlog⟩ := compare_ok_facts b env hc hret
    refine ⟨hgood, ?_⟩
    cases hh : (!(runProg b env).plan.isEmpty || (runProg b env).ipt) with
    | false => rfl
    | true => have := hlog hh; rw [hchg] at this; cases this
  · have h1 := exit_nonzero_partial b env hf hd
    rw [h1]
    exact ⟨doApprove_failed_compare _ _ _ _, (doApprove_failed_exit _ _ _ _ _).2, (doApprove_failed_exit _ _ _ _ _).1⟩

/-! ## exactly which change commands are on the wire ("in order", strengthened) -/

/-- **Every run** (OK or not, approve or compare, whatever the device does): the change commands on
the wire are a prefix of the planner's script (ASA, IOS, NSX); for Linux a prefix of the script
followed — only after the whole script, only if iptables changed — by a prefix of the three fixed
activation commands; for PAN-OS a prefix of the script in which a command may stand twice in a row
(replayed by net/http).  Never a foreign change command, never out of order. -/
theorem change_commands_always_prefix (env : Env) :
    (∀ b, (b = .asa ∨ b = .ios ∨ b = .nsx) → ∃ k, changeSends (runProg b env).tr = (runProg b env).plan.take k)
    ∧ (∃ k j, changeSends (runProg .linux env).tr = (runProg .linux env).plan.take k ++ linuxExtras.take j
        ∧ (j ≠ 0 → (runProg .linux env).plan.take k = (runProg .linux env).plan ∧ (runProg .linux env).ipt = true))
    ∧ (∃ k, Rep ((runProg .panos env).plan.take k) (changeSends (runProg .panos env).tr)) :=
  ⟨fun b hb => change_commands_prefix_of_script b hb env, change_commands_shape_linux env,
   change_commands_rep_prefix_panos env⟩

/-- **Normal form for a run that ends OK** (approve).  ASA / IOS / NSX: the change commands on the wire
are exactly the script.  Linux (real scp; the script does not itself contain the three activation
commands — decidable hypothesis `hdis`): the script followed, iff iptables changed, by
`chmod a+x …new`, `…new`, `mv -f …new …`.  PAN-OS: the script with exact replays (`Rep`-prefix that
contains the script as a sublist); equality is false, see `panos_equality_counterexample`. -/
theorem change_commands_normal_form (b : Backend) (env : Env) (hc : env.compare = false)
    (hsim : b = .linux → env.simulated = false) (hok : (runProg b env).mode = .ret)
    (hdis : b = .linux → ∀ x ∈ linuxExtras, x ∉ (runProg b env).plan) :
    ((b = .asa ∨ b = .ios ∨ b = .nsx) → changeSends (runProg b env).tr = (runProg b env).plan)
    ∧ (b = .linux → changeSends (runProg b env).tr
        = (runProg b env).plan ++ (if (runProg b env).ipt = true then linuxExtras else []))
    ∧ (b = .panos → (∃ k, Rep ((runProg b env).plan.take k) (changeSends (runProg b env).tr))
        ∧ (runProg b env).plan.Sublist (changeSends (runProg b env).tr)) := by
  refine ⟨fun hb => change_commands_exact b hb env hc hok, fun hb => ?_, fun hb => ?_⟩
  · subst hb
    exact change_commands_exact_linux env hc (hsim rfl) hok (hdis rfl)
  · subst hb
    exact ⟨change_commands_rep_prefix_panos env, (run_ok_facts .panos env hc (fun h => by cases h) hok).2.hS rfl⟩

/-- PAN-OS: equality with the script is false even for a run that ends OK — the device closes the
connection instead of answering the first `set` request (request 4), net/http sends it again. -/
def envPanosSetReplayed : Env :=
  { dev := mkDev .panos {} (some 4) "close", plan := fun _ => [["set a"], ["set b"]], fuel := 5 }

set_option maxRecDepth 100000 in
theorem panos_equality_counterexample :
    (runProg .panos envPanosSetReplayed).mode = .ret
    ∧ changeSends (runProg .panos envPanosSetReplayed).tr = [["set a"], ["set a"], ["set b"]]
    ∧ (runProg .panos envPanosSetReplayed).plan = [["set a"], ["set b"]] := by decide

/-! ## the property as stated is false of the unchanged code: three classes of counterexamples -/

/-- F-C09a.  IOS, one change command.  The device answers `configure terminal` (sent by
`ApplyCommands` with `SendCmd`, reply number 18) with error text.  The code does not look at it:
the change command is sent, the configuration is saved, the run exits 0. -/
def envIosConfTRejected : Env :=
  { dev := mkDev .ios {} (some 18) "errtext", plan := fun _ => [["ip route 10.20.0.0 255.255.0.0 10.1.2.3"]] }

set_option maxRecDepth 100000 in
theorem no_change_after_fault_counterexample_ios :
    safe (badFull .ios) (runProg .ios envIosConfTRejected).tr = false
    ∧ exitCode (runProg .ios envIosConfTRejected) = 0
    ∧ saveConfirmed (runProg .ios envIosConfTRejected).tr = true
    ∧ faulted (badChecked .ios) (runProg .ios envIosConfTRejected).tr = false := by decide

/-- F-C09b.  ASA.  The device answers `write term` (reply number 12) with error text; the text is
parsed as a configuration without any known command, i.e. as an empty device, and the complete
target configuration (`plan false`) is pushed and saved; exit 0. -/
def envAsaRetrievalRejected : Env :=
  { dev := mkDev .asa {} (some 12) "errtext",
    plan := fun genuine => if genuine then [["no route inside 10.1.0.0 255.255.0.0 10.1.2.3"], ["route inside 10.3.0.0 255.255.0.0 10.1.2.3"]]
                           else [["route inside 10.2.0.0 255.255.0.0 10.1.2.3"], ["route inside 10.3.0.0 255.255.0.0 10.1.2.3"]] }

set_option maxRecDepth 100000 in
theorem config_retrieval_counterexample_asa :
    safe (badFull .asa) (runProg .asa envAsaRetrievalRejected).tr = false
    ∧ exitCode (runProg .asa envAsaRetrievalRejected) = 0
    ∧ changeSends (runProg .asa envAsaRetrievalRejected).tr
        = [["route inside 10.2.0.0 255.255.0.0 10.1.2.3"], ["route inside 10.3.0.0 255.255.0.0 10.1.2.3"]]
    ∧ faulted (badChecked .asa) (runProg .asa envAsaRetrievalRejected).tr = false := by decide

/-- F-C09d.  NSX.  The device answers the request for its services (request number 3) with
status 200 and a well-formed JSON object that has no `results`; the program reads it as an empty
list, plans against an empty device (`plan false`: everything is created again, nothing deleted),
sends these requests and exits 0. -/
def envNsxListWithoutResults : Env :=
  { dev := mkDev .nsx {} (some 3) "no_results",
    plan := fun genuine => if genuine then [["PUT s2"], ["DELETE gone"]] else [["PUT s1"], ["PUT s2"]] }

set_option maxRecDepth 100000 in
theorem list_without_results_counterexample_nsx :
    safe (badFull .nsx) (runProg .nsx envNsxListWithoutResults).tr = false
    ∧ exitCode (runProg .nsx envNsxListWithoutResults) = 0
    ∧ changeSends (runProg .nsx envNsxListWithoutResults).tr = [["PUT s1"], ["PUT s2"]]
    ∧ faulted (badChecked .nsx) (runProg .nsx envNsxListWithoutResults).tr = false := by decide

/-- F-C09c.  PAN-OS, two set commands.  The device closes the (reused) connection instead of
answering the commit request (request number 6).  net/http replays the GET: `commit` is sent a
second time, the run ends OK. -/
def envPanosCommitClosed : Env :=
  { dev := mkDev .panos {} (some 6) "close", plan := fun _ => [["set a"], ["set b"]], fuel := 5 }

set_option maxRecDepth 100000 in
theorem closed_connection_counterexample_panos :
    safe (badFull .panos) (runProg .panos envPanosCommitClosed).tr = false
    ∧ exitCode (runProg .panos envPanosCommitClosed) = 0
    ∧ ((runProg .panos envPanosCommitClosed).tr.filter (· == Ev.sent .save ["commit"])).length = 2
    ∧ faulted (badChecked .panos) (runProg .panos envPanosCommitClosed).tr = false := by decide

/-! ## the hypotheses are satisfiable: failures the code inspects do occur and are caught -/

/-- error text in the reply to the second half of a joined two-command line (ASA, reply 15) -/
def envAsaSecondHalfRejected : Env :=
  { dev := mkDev .asa {} (some 15) "errtext",
    plan := fun _ => [["no route inside 10.1.0.0 255.255.0.0 10.1.2.3", "route inside 10.1.0.0 255.255.0.0 10.1.2.4"],
                      ["route inside 10.3.0.0 255.255.0.0 10.1.2.3"]] }

set_option maxRecDepth 100000 in
example : faulted (badChecked .asa) (runProg .asa envAsaSecondHalfRejected).tr = true
    ∧ exitCode (runProg .asa envAsaSecondHalfRejected) = 1
    ∧ changeSends (runProg .asa envAsaSecondHalfRejected).tr
        = [["no route inside 10.1.0.0 255.255.0.0 10.1.2.3", "route inside 10.1.0.0 255.255.0.0 10.1.2.4"]]
    ∧ saveConfirmed (runProg .asa envAsaSecondHalfRejected).tr = false := by decide

/-- IOS: silence in the middle of the script; only the deferred clean-up is sent afterwards -/
def envIosSilence : Env :=
  { dev := mkDev .ios {} (some 19) "silence", plan := fun _ => [["ip route a"], ["ip route b"]] }

set_option maxRecDepth 100000 in
example : faulted (badChecked .ios) (runProg .ios envIosSilence).tr = true
    ∧ exitCode (runProg .ios envIosSilence) = 1
    ∧ changeSends (runProg .ios envIosSilence).tr = [["ip route a"]]
    ∧ (doApprove false {} "p1" 0 (runProg .ios envIosSilence).tr (exitCode (runProg .ios envIosSilence))).status.approve.result = "FAILED" := by
  decide

/-- PAN-OS: the commit job fails (third poll) -/
def envPanosJobFails : Env :=
  { dev := mkDev .panos { pend := 2 } (some 9) "jobfail", plan := fun _ => [["set a"], ["set b"]], fuel := 10 }

set_option maxRecDepth 100000 in
example : faulted (badChecked .panos) (runProg .panos envPanosJobFails).tr = true
    ∧ exitCode (runProg .panos envPanosJobFails) = 1 ∧ (runProg .panos envPanosJobFails).mode ≠ .diverge := by decide

/-- without a fault the run is OK, everything is sent and the save is confirmed -/
def envAsaOk : Env := { dev := mkDev .asa {} none "-", plan := fun _ => [["route inside 10.3.0.0 255.255.0.0 10.1.2.3"]] }

set_option maxRecDepth 100000 in
example : exitCode (runProg .asa envAsaOk) = 0 ∧ saveConfirmed (runProg .asa envAsaOk).tr = true
    ∧ changeSends (runProg .asa envAsaOk).tr = [["route inside 10.3.0.0 255.255.0.0 10.1.2.3"]] := by decide

-- a device that answers PEND for ever: the model of the poll loop runs out of any fuel
set_option maxRecDepth 100000 in
example : (runProg .panos { dev := mkDev .panos { pend := 1000 } none "-", plan := fun _ => [["set a"]], fuel := 7 }).mode
    = .diverge := by decide

/-- Linux with a real (not simulated) scp: routes and iptables change, everything is confirmed -/
def envLinuxOk : Env :=
  { dev := mkDev .linux {} none "-", plan := fun _ => [["ip route add 10.3.0.0/16 via 10.1.2.3"]],
    planIpt := fun _ => true, simulated := false }

set_option maxRecDepth 100000 in
example : (runProg .linux envLinuxOk).mode = .ret ∧ exitCode (runProg .linux envLinuxOk) = 0
    ∧ (runProg .linux envLinuxOk).plan = [["ip route add 10.3.0.0/16 via 10.1.2.3"]]
    ∧ (runProg .linux envLinuxOk).tr.contains (Ev.sent .save ["scp routing"]) = true := by decide

set_option maxRecDepth 100000 in
example : (∀ x ∈ linuxExtras, x ∉ (runProg .linux envLinuxOk).plan)
    ∧ changeSends (runProg .linux envLinuxOk).tr = [["ip route add 10.3.0.0/16 via 10.1.2.3"]] ++ linuxExtras := by decide

/-- Linux: the copy of the packet-filter file fails (reply 13 is the scp): nothing is activated -/
def envLinuxScpFails : Env :=
  { dev := mkDev .linux {} none "scpfail_iptables", plan := fun _ => [["ip route add 10.3.0.0/16 via 10.1.2.3"]],
    planIpt := fun _ => true, simulated := false }

set_option maxRecDepth 100000 in
example : faulted (badChecked .linux) (runProg .linux envLinuxScpFails).tr = true
    ∧ exitCode (runProg .linux envLinuxScpFails) = 1
    ∧ (runProg .linux envLinuxScpFails).tr.contains (Ev.sent .change ["chmod a+x /etc/network/packet-filter.new"]) = false := by
  decide

/-- compare: device equal to the target: UPTODATE; a difference: DIFF with exit 0; a fault: DIFF with exit 1 -/
def envAsaCompareSame : Env := { dev := mkDev .asa {} none "-", plan := fun _ => [], compare := true }
def envAsaCompareDiff : Env := { dev := mkDev .asa {} none "-", plan := fun _ => [["route inside 10.3.0.0 255.255.0.0 10.1.2.3"]], compare := true }
def envAsaCompareFault : Env := { dev := mkDev .asa {} (some 11) "silence", plan := fun _ => [], compare := true }

set_option maxRecDepth 100000 in
example : (doApprove true {} "p1" 0 (runProg .asa envAsaCompareSame).tr (exitCode (runProg .asa envAsaCompareSame))).status.compare.result = "UPTODATE"
    ∧ (doApprove true {} "p1" 0 (runProg .asa envAsaCompareDiff).tr (exitCode (runProg .asa envAsaCompareDiff))).status.compare.result = "DIFF"
    ∧ (doApprove true {} "p1" 0 (runProg .asa envAsaCompareDiff).tr (exitCode (runProg .asa envAsaCompareDiff))).exit = 0
    ∧ faulted (badChecked .asa) (runProg .asa envAsaCompareFault).tr = true
    ∧ (doApprove true {} "p1" 0 (runProg .asa envAsaCompareFault).tr (exitCode (runProg .asa envAsaCompareFault))).exit = 1 := by
  decide

def obligations : List Lean.Name := [
  ``ok_only_if_all_sent_accepted_and_saved, ``fault_stops_and_reports, ``compare_diff_recorded_iff,
  ``change_commands_always_prefix, ``change_commands_normal_form, ``panos_equality_counterexample,
  ``no_change_after_fault_partial, ``no_save_after_fault_partial, ``exit_nonzero_partial,
  ``status_failed_or_diff_partial, ``history_end_failed_partial, ``ok_only_if_all_accepted_partial,
  ``ok_only_if_all_sent, ``ok_only_if_all_sent_panos, ``ok_only_if_saved, ``asa_saved_if_completes,
  ``run_terminates_loopfree, ``run_terminates_ios', ``exit_nonzero_partial_nonpanos, ``panos_poll_continue_only_on_pend, ``panos_commit_poll_total,
  ``no_change_after_fault_counterexample_ios, ``config_retrieval_counterexample_asa,
  ``closed_connection_counterexample_panos, ``list_without_results_counterexample_nsx,
  ``NA.Spec.C09.badChecked_imp_badFull,
  ``skel_console_Send, ``skel_console_SendCmd, ``skel_console_IssueCmd, ``skel_console_GetCmdOutput,
  ``skel_console_GetOutput, ``skel_console_waitPrompt, ``skel_console_WaitShort, ``skel_console_WaitLogin,
  ``skel_console_expectLog, ``skel_console_StripEcho, ``skel_console_StripStdPrompt, ``skel_console_Close,
  ``skel_errlog_HandleAbort, ``skel_errlog_Abort,
  ``skel_asa_ApplyCommands, ``skel_asa_cmd, ``skel_asa_CloseConnection,
  ``skel_ios_ApplyCommands, ``skel_ios_cmd, ``skel_ios_writeMem, ``skel_ios_prepareDevice,
  ``skel_ios_sendReloadCmd, ``skel_ios_cancelReload,
  ``skel_ios_CloseConnection,
  ``skel_linux_ApplyCommands, ``skel_linux_cmd, ``skel_linux_writeStartupRouting,
  ``skel_linux_writeStartupIPTables, ``skel_linux_findIPTablesRestoreCmd, ``skel_linux_writeStartup,
  ``skel_linux_putScp, ``skel_linux_CloseConnection,
  ``skel_panos_ApplyCommands, ``skel_panos_doCmd, ``skel_panos_commit, ``skel_panos_httpPrefixGetLog,
  ``skel_panos_httpGet, ``skel_panos_CloseConnection,
  ``skel_nsx_ApplyCommands, ``skel_nsx_sendRequest, ``skel_nsx_CloseConnection,
  ``skel_device_ApproveOrCompare, ``skel_device_approve, ``skel_device_compare, ``skel_device_compareDevice,
  ``skel_device_applyCommands, ``skel_device_showCompareInfo, ``skel_doapprove_Main,
  ``skel_status_SetApprove, ``skel_status_SetCompare,
  ``skel_cisco_LoginEnable, ``skel_cisco_LoginEnable_waitPrompt, ``skel_httpdevice_TryReachableHTTPLogin,
  ``skel_asa_LoadDevice, ``skel_asa_setTerminal, ``skel_asa_logVersion, ``skel_asa_checkDeviceName,
  ``skel_ios_LoadDevice, ``skel_ios_setTerminal, ``skel_ios_logVersion, ``skel_ios_checkDeviceName,
  ``skel_linux_LoadDevice, ``skel_linux_loginEnable, ``skel_linux_logVersion, ``skel_linux_checkDeviceName,
  ``skel_linux_checkBanner, ``skel_linux_getDeviceRoutes, ``skel_linux_getDeviceIPTables,
  ``skel_panos_LoadDevice, ``skel_panos_getAPIKey, ``skel_panos_checkHA, ``skel_nsx_LoadDevice, ``skel_nsx_getRawJSON,
  ``skel_all_covered ]

end NA.C09
