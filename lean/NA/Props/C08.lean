import NA.Props.AsaAcl
/-!
# C08 — every emitted command is executable at the moment it is sent (Cisco line planners)

For the ASA line planner the property is the statement that the STRICT device accepts the whole
script: `asaExec` returns `some _` only if every `line N` deletion hits the very line, every
insertion position exists and no duplicate entry is added (`NA.Spec.AclDev.asaExec1`).
`asa_plan_converges` therefore contains "accepted"; `asa_pos_refines` is the position statement;
`asaExec_nodup` says the device never holds a duplicate entry at any step.
PAN-OS and NSX: the pan_* / nsx_* theorems of `NA.Props.C03` / `NA.Props.C04`; both modules are listed in props/C08.json, so their obligations are audited by this check as well.
-/
namespace NA.C08
open NA.Acl

/-- Every prefix of the emitted script is accepted by the strict device. -/
theorem asa_every_prefix_accepted (M : List Cell) (hold : ((olds M).map (·.mkey)).Nodup)
    (hnew : ((news M).map (·.mkey)).Nodup) (k : Nat) :
    (asaExec (olds M) ((planASA M).take k)).isSome = true := by
  obtain ⟨μ, _, h⟩ := asa_prefix_states_masked M hold hnew k
  simp [h]

def obligations : List Lean.Name := [
  ``asa_every_prefix_accepted, ``NA.Acl.asa_plan_converges, ``NA.Acl.asa_pos_refines, ``NA.Acl.asaExec_nodup]
end NA.C08
