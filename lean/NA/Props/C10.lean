import NA.Props.AsaAcl
/-!
# C10 — an interrupted approve can be resumed and still converges (Cisco line planners)

`asa_resume_converges`: cut the script after any number k of commands; from the state reached,
ANY merged list between that state and the same target (i.e. whatever the second Myers run finds)
is planned and executed to the target.  A joined move is one command for the device; the cut
between its halves is covered by the configuration-level oracle.
PAN-OS and NSX: see `NA.Props.C03` / `NA.Props.C04`.
-/
namespace NA.C10
def obligations : List Lean.Name := [
  ``NA.Acl.asa_resume_converges, ``NA.Acl.asa_resume_converges_trace, ``NA.Acl.asa_prefix_states_masked,
  ``NA.Acl.asaExec_nodup]
end NA.C10
