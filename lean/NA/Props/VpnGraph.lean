import NA.Proofs.VpnGraphFinal
import NA.Proofs.VpnGraphRefs
import NA.Proofs.VpnGraphFuel
import NA.Proofs.VpnGraphStable
import NA.Proofs.VpnCert
/-!
# Named object graphs of the ASA backend (fragment G): usernames, address-named tunnel-groups, group-policies,
access-lists kept or replaced as a whole, ip local pools, aaa-servers

Model: `NA.Vpn.G.engine` (NA/Model/VpnGraph.lean), strict device `NA.Vpn.G.execAll` (NA/Model/VpnGraphDev.lean); both are
compared with the real code / with harness/asavpn/dev.go on every run (driver op `G`).
The theorems hold for ALL object graphs (any number of objects, any sharing, any names); hypotheses are decidable
(`closedB`, `anchorsB`, `kindByKeyB`) and are evaluated by the driver on every generated case.
-/
namespace NA.Vpn.G

/-! ## C08: the clean-up deletes nothing that is still referenced -/

/-- **`deleteUnused` is accepted by the strict device and removes what it set out to remove.**
`objs`: the pending deletions — pairwise different objects that exist on the device in the shape their command names (`hs`),
referenced on the device by nothing but pending deletions (`hr`), without reference cycles among them (`hrk`: references go
to strictly lower `rank`; in fragment G the rank `rk` of the kind).  With at least as many rounds as pending objects (`hf`;
`deleteUnused` runs `objs.length + 1`, the Go loop runs until the list is empty)
  * every `clear configure …` / `no ip local pool …` finds its object unreferenced (referenced-last rounds): the whole list is accepted,
  * objects that are not pending keep their definition,
  * **every pending object is gone afterwards**.
(The statement is not trivial for `f = 0`: then `objs` is empty.  Without `hrk` two pending objects that reference each other
would never be deleted: every round would be empty.) -/
theorem graph_cleanup_accepted (rank : Ref → Nat) (f : Nat) (objs : List DelObj) (d : Dev)
    (hn : objs.Pairwise (fun p q => p.id ≠ q.id)) (hs : ∀ p ∈ objs, Shape d p)
    (hr : ∀ p ∈ objs, ∀ x ∈ d.objs, x.refs.contains p.id = true → ∃ q ∈ objs, q.id = x.id ∧ q.refs = x.refs)
    (hrk : ∀ p ∈ objs, ∀ q ∈ objs, p.refs.contains q.id = true → rank q.id < rank p.id)
    (hf : objs.length ≤ f) :
    ∃ d', execAll d (delRounds f objs) = some d' ∧ (∀ r, (∀ p ∈ objs, p.id ≠ r) → d'.obj r = d.obj r) ∧
      ∀ p ∈ objs, d'.obj p.id = none :=
  delRounds_removes rank f objs d hn hs hr hrk hf

/-- the number of rounds `deleteUnused` runs is enough -/
theorem deleteUnused_rounds (st : St) :
    (deleteUnused st).out = (if !(pendingDel st).isEmpty && st.mode.isSome then st.out ++ [.exit] else st.out) ++
      delRounds ((pendingDel st).length + 1) (pendingDel st) := by
  unfold deleteUnused
  dsimp only
  split <;> rfl

/-- **The recursion bound of the model is no restriction.**  `addAny`, `diffAny`, `markDel`, `stillReferenced` and the
content view recurse along references; the Go code does so without a bound, the model with `fuel` = 4.  For configurations
whose references go to kinds of strictly lower rank (`Ranked`: what the command templates enforce — username /
tunnel-group → group-policy / aaa-server → access-list / pool; part of `WF`, checked by `wfB` on every generated case) a chain
of references has at most three objects and EVERY bound from 3 on gives the same state, change list and views. -/
theorem graph_fuel_suffices (a b : List Obj) (hra : Ranked a) (hrb : Ranked b) (f : Nat) (hf : 3 ≤ f) :
    runF f a b = run a b ∧ engineF f a b = engine a b ∧ viewF f a = view a ∧ viewF f b = view b := by
  have h := runF_eq a b hra hrb f fuel hf (by decide)
  refine ⟨h, ?_, viewF_eq a hra f fuel hf (by decide), viewF_eq b hrb f fuel hf (by decide)⟩
  unfold engineF
  rw [h]
  rfl

/-- **Create-before-reference**: for well-formed graphs (decidable: `wfB`, `kindByKeyB`) every added sub-command of the
part before `deleteUnused` that carries a reference names an object that exists at that point (on the device from the start
or created by an earlier command), and that part deletes no object: `refsOK` scans the list with the set of existing objects. -/
theorem graph_refs_created_first (a b : List Obj) (hw : WF (a.map (·.id)) a b)
    (hkk : ∀ x ∈ a, ∀ y ∈ b, ∀ sx ∈ x.secs, ∀ sy ∈ y.secs, KindByKey sx.subs sy.subs) (st : St)
    (he : ((diffAnchors (initSt a b) .tg).bind fun st => diffAnchors st .user) = some st) :
    refsOK (a.map (·.id)) st.out = true ∧ ∀ c ∈ st.out, isDel c = false :=
  body_refs_exist a b hw hkk st he

/-! ## C07: what lies outside Netspoc's scope is untouched -/

/-- **An accepted change list changes only its targets** (`targets`: per command the object it defines, edits or
removes; for a sub-command the object whose mode the preceding top-level command opened). -/
theorem graph_exec_frame (l : List Chg) (d d' : Dev) (h : execAll d l = some d') :
    d'.mode = modeAfter d.mode l ∧ ∀ r, r ∉ targets d.mode l → d'.obj r = d.obj r :=
  execAll_frame l d d' h

/-- **Targets of the comparison**: every command emitted before `deleteUnused` targets an object of `R` (any
reference-closed set of device objects containing the device's anchors) or an object under a name the target's
objects are created under; `toDelete` marks stay inside `R`; the engine's idea of the open mode is the real one. -/
theorem graph_body_targets {R : Ref → Prop} (a b : List Obj) (hc : Closed R a) (hanch : ∀ o ∈ a, o.anchor = true → R o.id)
    (hkk : ∀ x ∈ a, ∀ y ∈ b, ∀ sx ∈ x.secs, ∀ sy ∈ y.secs, KindByKey sx.subs sy.subs) (st : St)
    (he : ((diffAnchors (initSt a b) .tg).bind fun st => diffAnchors st .user) = some st) :
    (∀ r ∈ targets none st.out, Allowed R (initSt a b).gen r) ∧ (∀ r ∈ st.toDel, R r) ∧
      modeAfter none st.out = st.mode ∧ st.a = a :=
  body_targets a b hc hanch hkk st he

/-- **Objects outside Netspoc's scope keep their definition** on every strict device that accepts the script:
`r` outside `R`, not a name the run creates objects under, not a pending deletion. -/
theorem graph_unmanaged_untouched {R : Ref → Prop} (a b : List Obj) (hc : Closed R a) (hanch : ∀ o ∈ a, o.anchor = true → R o.id)
    (hkk : ∀ x ∈ a, ∀ y ∈ b, ∀ sx ∈ x.secs, ∀ sy ∈ y.secs, KindByKey sx.subs sy.subs)
    (body : St) (hbody : ((diffAnchors (initSt a b) .tg).bind fun st => diffAnchors st .user) = some body)
    (d' : Dev) (hex : execAll { objs := a } (deleteUnused body).out = some d')
    (r : Ref) (hR : ¬ R r) (hnew : ∀ rb : Ref, r ≠ (rb.1, genOf (initSt a b).gen rb))
    (hpend : ∀ p ∈ pendingDel body, p.id ≠ r) :
    d'.obj r = ({ objs := a } : Dev).obj r :=
  unmanaged_untouched a b hc hanch hkk body hbody d' hex r hR hnew hpend

/-- the last hypothesis holds for every UNTAGGED object outside `R` … -/
theorem graph_untagged_not_pending {R : Ref → Prop} (a b : List Obj) (hc : Closed R a) (hanch : ∀ o ∈ a, o.anchor = true → R o.id)
    (hkk : ∀ x ∈ a, ∀ y ∈ b, ∀ sx ∈ x.secs, ∀ sy ∈ y.secs, KindByKey sx.subs sy.subs)
    (body : St) (hbody : ((diffAnchors (initSt a b) .tg).bind fun st => diffAnchors st .user) = some body)
    (r : Ref) (hR : ¬ R r) (hdrc : ∀ o ∈ a, o.id = r → o.drc = false) :
    ∀ p ∈ pendingDel body, p.id ≠ r :=
  untagged_not_pending a b hc hanch hkk body hbody r hR hdrc

/-- … and for every object (tagged or not) that an unneeded object which stays references over at most `fuel` = 4 hops
through unneeded objects (`stillReferenced`): the manually created tunnel-group → generated group-policy → generated
access-list / pool of the generator. -/
theorem graph_chain_protected (st : St) (k : Obj) (hk : k ∈ st.a) (hkeep : (!st.isNeeded k.id && !eligible st k) = true)
    (n : Nat) (r : Ref) (hch : Chain st (n + 1) k.id r) (hn : n + 1 ≤ fuel) :
    ∀ p ∈ pendingDel st, p.id ≠ r :=
  protected_not_pending st r (chain_protected st k hk hkeep n r hch hn)

/-! ## C01: "unchanged" only for an equivalent device; convergence reduced to the second compare -/

/-- **"Unchanged" is reported only for an equivalent device.**  For ALL well-formed pairs of configurations of fragment G
(`wfB`: references resolve and go to kinds of lower rank, new objects are not empty; `wf2B`: keys fix the kind and the presence
of a reference, no duplicate top-level command / sub-command key inside one object, a pool has one content line, anchors are
usernames / tunnel-groups and are anchors on both sides — all decidable, evaluated by the driver on every generated case):
if the model emits NO command, then
  * every anchor of the device is an anchor of the target and vice versa, and
  * every anchor has the same content on both sides (`eqv`: the same top-level commands, the same sub-commands, and whatever
    they reference has — recursively — the same content; names of referenced objects do not count).
The empty change list cannot hide a difference. -/
theorem graph_unchanged_only_if_equivalent (a b : List Obj) (hw : wfB a b = true) (h2 : wf2B a b = true)
    (h : engine a b = some []) :
    (∀ o ∈ a, o.anchor = true → ∃ o' ∈ b, o'.anchor = true ∧ o'.id = o.id) ∧
    (∀ o' ∈ b, o'.anchor = true → ∃ o ∈ a, o.anchor = true ∧ o.id = o'.id) ∧
    (∀ o ∈ a, o.anchor = true → eqv fuel a b o.id o.id = true) :=
  unchanged_equiv a b (wf_of_wfB a b hw) (wf2_of_wf2B a b h2) h

/-- **Convergence, for the (decidable) class of runs whose second compare is empty**: if the strict device accepts the
script, the resulting configuration is well-formed with the target and a second compare of it emits nothing (`stable` —
checked by the driver on every case of the tie, and against the real second `drc` run), then the resulting device has
exactly the target's anchors, each with the target's content.  (Not proved: that the second compare IS empty for every
well-formed pair — `graph_idempotent`; see docs/VPN.md.) -/
theorem graph_converges_partial (a b : List Obj) (d' : Dev) (_hex : (engine a b).bind (execAll { objs := a }) = some d')
    (hw : wfB d'.objs b = true) (h2 : wf2B d'.objs b = true) (hstable : engine d'.objs b = some []) :
    (∀ o ∈ d'.objs, o.anchor = true → ∃ o' ∈ b, o'.anchor = true ∧ o'.id = o.id) ∧
    (∀ o' ∈ b, o'.anchor = true → ∃ o ∈ d'.objs, o.anchor = true ∧ o.id = o'.id) ∧
    (∀ o ∈ d'.objs, o.anchor = true → eqv fuel d'.objs b o.id o.id = true) :=
  graph_unchanged_only_if_equivalent d'.objs b hw h2 hstable

/-! ## non-vacuity: a device with a managed user and a manually created tunnel-group chain -/

def sRef (key : String) (k : Kind) (n : String) : Sub :=
  { key := key ++ " $REF", body := [key ++ " ", ""], ref := some (k, n), orig := key ++ " " ++ n }
def sPlain (t : String) : Sub := { key := t, body := [t], orig := t }

def exA : List Obj := [
  { kind := .acl, name := "f-DRC-0", drc := true, lines := ["extended permit ip host 10.3.4.1 any4"] },
  { kind := .gp, name := "G-DRC-0", drc := true, secs := [{ head := "internal" },
      { head := "attributes", mode := true, subs := [sRef "vpn-filter value" .acl "f-DRC-0", sPlain "vpn-idle-timeout 60"] }] },
  { kind := .user, name := "u1", anchor := true, secs := [{ head := "nopassword" },
      { head := "attributes", mode := true, subs := [sRef "vpn-group-policy" .gp "G-DRC-0"] }] },
  { kind := .acl, name := "vpnf-DRC-7", drc := true, lines := ["extended permit ip any4 host 10.7.7.7"] },
  { kind := .gp, name := "MGP-DRC-7", drc := true, secs := [{ head := "internal" },
      { head := "attributes", mode := true, subs := [sRef "vpn-filter value" .acl "vpnf-DRC-7"] }] },
  { kind := .tg, name := "MANUALTG", secs := [{ head := "type remote-access" },
      { head := "general-attributes", mode := true, subs := [sRef "default-group-policy" .gp "MGP-DRC-7"] }] }]

def exB : List Obj := [
  { kind := .acl, name := "f", lines := ["extended permit ip host 10.3.4.2 any4"] },
  { kind := .gp, name := "G", secs := [{ head := "internal" },
      { head := "attributes", mode := true, subs := [sRef "vpn-filter value" .acl "f", sPlain "vpn-idle-timeout 30"] }] },
  { kind := .user, name := "u1", anchor := true, secs := [{ head := "nopassword" },
      { head := "attributes", mode := true, subs := [sRef "vpn-group-policy" .gp "G", sPlain "service-type remote-access"] }] }]

example : script exA exB = some [
    "group-policy G-DRC-0 attributes", "no vpn-idle-timeout 60",
    "access-list f-DRC-1 extended permit ip host 10.3.4.2 any4",
    "group-policy G-DRC-0 attributes", "vpn-filter value f-DRC-1", "vpn-idle-timeout 30", "exit",
    "username u1 attributes", "service-type remote-access", "exit",
    "clear configure access-list f-DRC-0"] := by decide

/-- the hypotheses of the C07 theorems hold for the example with `R` = what the anchors reach -/
example : closedB (managedSet exA) exA = true ∧ anchorsB (managedSet exA) exA = true ∧ kindByKeyB exA exB = true := by decide

/-- the example is well-formed, and the order matters: the same sub-command before its access-list exists is refused by `refsOK` -/
example : wfB exA exB = true := by decide
example : refsOK [] [.line "f" "permit", .sec false .gp "g" "attributes" true, .sub false "vpn-filter value f" (some (.acl, "f")) "k" []] = true ∧
    refsOK [] [.sec false .gp "g" "attributes" true, .sub false "vpn-filter value f" (some (.acl, "f")) "k" [], .line "f" "permit"] = false := by
  decide

set_option maxRecDepth 8000 in
/-- the script is accepted, converges, and the manual chain (two of its three objects carry the generated-name tag) is untouched -/
example : ((engine exA exB).bind (execAll { objs := exA })).map (fun d => (view d.objs == view exB, frame exA d.objs == frame exA exA)) =
    some (true, true) := by decide

example : (unmanagedSet exA).length = 3 := by decide

set_option maxRecDepth 8000 in
/-- the second run of the example is empty -/
example : (((engine exA exB).bind (execAll { objs := exA })).bind fun d => engine d.objs exB) = some [] := by decide

/-- the clean-up of a user with its own group-policy and access-list: referenced-last -/
example : delRounds 4 [
    { id := (.acl, "a"), lines := [.clear .acl "a"], refs := [] },
    { id := (.gp, "g"), lines := [.clear .gp "g"], refs := [(.acl, "a")] },
    { id := (.user, "u"), lines := [.clear .user "u"], refs := [(.gp, "g")] }] =
  [.clear .user "u", .clear .gp "g", .clear .acl "a"] := by decide

/-- the same three objects on a device: the clean-up is accepted and they are gone (instance of `graph_cleanup_accepted`) -/
example : (execAll { objs := [
      { kind := .acl, name := "a", lines := ["permit"] },
      { kind := .gp, name := "g", secs := [{ head := "internal" }, { head := "attributes", mode := true, subs := [sRef "vpn-filter value" .acl "a"] }] },
      { kind := .user, name := "u", anchor := true, secs := [{ head := "nopassword" }, { head := "attributes", mode := true, subs := [sRef "vpn-group-policy" .gp "g"] }] }] }
    (delRounds 3 [
      { id := (.acl, "a"), lines := [.clear .acl "a"], refs := [] },
      { id := (.gp, "g"), lines := [.clear .gp "g"], refs := [(.acl, "a")] },
      { id := (.user, "u"), lines := [.clear .user "u"], refs := [(.gp, "g")] }])).map (·.objs.length) = some 0 := by decide

/-- two pending objects that reference each other are never deleted: `hrk` of `graph_cleanup_accepted` is needed -/
example : delRounds 5 [
    { id := (.gp, "g"), lines := [.clear .gp "g"], refs := [(.gp, "h")] },
    { id := (.gp, "h"), lines := [.clear .gp "h"], refs := [(.gp, "g")] }] = [] := by decide

/-- the examples are ranked … -/
example : Ranked exA ∧ Ranked exB := ranked_of_WF (wf_of_wfB exA exB (by decide))

/-- … and for a configuration that is NOT ranked (group-policies nested five deep: no ASA configuration) the bound matters -/
def gpChain : List Obj :=
  ({ kind := .user, name := "u", anchor := true, secs := [{ head := "nopassword" },
      { head := "attributes", mode := true, subs := [sRef "vpn-group-policy" .gp "g1"] }] } : Obj) ::
  (([1, 2, 3, 4] : List Nat).map fun i =>
    ({ kind := .gp, name := "g" ++ toString i, secs := [{ head := "internal" },
      { head := "attributes", mode := true, subs := [sRef "nested" .gp ("g" ++ toString (i + 1))] }] } : Obj)) ++
  [{ kind := .gp, name := "g5", secs := [{ head := "internal" }] }]

example : ((engineF 4 [] gpChain).map (·.length), (engineF 9 [] gpChain).map (·.length)) = (some 12, some 16) := by decide

/-- a device that is equivalent to `exB` under other names and in another order: nothing is emitted, the hypotheses of
`graph_unchanged_only_if_equivalent` hold and so does its conclusion -/
def exC : List Obj := [
  { kind := .acl, name := "f-DRC-0", drc := true, lines := ["extended permit ip host 10.3.4.2 any4"] },
  { kind := .gp, name := "G-DRC-0", drc := true, secs := [{ head := "internal" },
      { head := "attributes", mode := true, subs := [sPlain "vpn-idle-timeout 30", sRef "vpn-filter value" .acl "f-DRC-0"] }] },
  { kind := .user, name := "u1", anchor := true, secs := [
      { head := "attributes", mode := true, subs := [sPlain "service-type remote-access", sRef "vpn-group-policy" .gp "G-DRC-0"] },
      { head := "nopassword" }] }]

set_option maxRecDepth 8000 in
example : engine exC exB = some [] ∧ wfB exC exB = true ∧ wf2B exC exB = true ∧
    eqv fuel exC exB (.user, "u1") (.user, "u1") = true ∧ view exC = view exB := by decide

set_option maxRecDepth 8000 in
/-- the hypotheses of `graph_converges_partial` hold for the run on `exA` / `exB` -/
example : ((engine exA exB).bind (execAll { objs := exA })).map
    (fun d => (wfB d.objs exB, wf2B d.objs exB, engine d.objs exB == some [])) = some (true, true, true) := by decide

/-- `wf2B` is needed: a target with two sub-commands of the same key (no ASA configuration: `vpn-filter` holds one value) is
compared through the last of them only — nothing is emitted although the device lacks the other one -/
def dupB : List Obj := [
  { kind := .acl, name := "f", lines := ["extended permit ip host 10.3.4.2 any4"] },
  { kind := .acl, name := "g", lines := ["extended deny ip any4 any4"] },
  { kind := .user, name := "u1", anchor := true, secs := [{ head := "nopassword" },
      { head := "attributes", mode := true, subs := [sRef "vpn-filter value" .acl "g", sRef "vpn-filter value" .acl "f"] }] }]
def dupA : List Obj := [
  { kind := .acl, name := "f-DRC-0", drc := true, lines := ["extended permit ip host 10.3.4.2 any4"] },
  { kind := .user, name := "u1", anchor := true, secs := [{ head := "nopassword" },
      { head := "attributes", mode := true, subs := [sRef "vpn-filter value" .acl "f-DRC-0"] }] }]

set_option maxRecDepth 8000 in
example : engine dupA dupB = some [] ∧ wfB dupA dupB = true ∧ wf2B dupA dupB = false ∧
    eqv fuel dupA dupB (.user, "u1") (.user, "u1") = false := by decide

/-- The converse of `graph_unchanged_only_if_equivalent` does NOT hold for equivalence of content: a device on which two users
share ONE group-policy has the same view as a target with two identical group-policies, yet the second user gets a
group-policy of its own (the device object is `needed` by the first comparison already); the result converges and the next
compare is empty.  So a theorem "second compare empty" needs the finer relation "isomorphic up to names" — not proved. -/
def shA : List Obj := [
  { kind := .gp, name := "G-DRC-0", drc := true, secs := [{ head := "internal" }, { head := "attributes", mode := true, subs := [sPlain "vpn-idle-timeout 30"] }] },
  { kind := .user, name := "u1", anchor := true, secs := [{ head := "nopassword" }, { head := "attributes", mode := true, subs := [sRef "vpn-group-policy" .gp "G-DRC-0"] }] },
  { kind := .user, name := "u2", anchor := true, secs := [{ head := "nopassword" }, { head := "attributes", mode := true, subs := [sRef "vpn-group-policy" .gp "G-DRC-0"] }] }]
def shB : List Obj := [
  { kind := .gp, name := "G1", secs := [{ head := "internal" }, { head := "attributes", mode := true, subs := [sPlain "vpn-idle-timeout 30"] }] },
  { kind := .gp, name := "G2", secs := [{ head := "internal" }, { head := "attributes", mode := true, subs := [sPlain "vpn-idle-timeout 30"] }] },
  { kind := .user, name := "u1", anchor := true, secs := [{ head := "nopassword" }, { head := "attributes", mode := true, subs := [sRef "vpn-group-policy" .gp "G1"] }] },
  { kind := .user, name := "u2", anchor := true, secs := [{ head := "nopassword" }, { head := "attributes", mode := true, subs := [sRef "vpn-group-policy" .gp "G2"] }] }]

set_option maxRecDepth 8000 in
example : view shA = view shB ∧ script shA shB = some ["group-policy G2-DRC-0 internal", "group-policy G2-DRC-0 attributes",
      "vpn-idle-timeout 30", "exit", "username u2 attributes", "vpn-group-policy G2-DRC-0"] ∧
    ((engine shA shB).bind (execAll { objs := shA })).map (fun d => (view d.objs == view shB, script d.objs shB)) = some (true, some []) := by
  decide

/-! ## Fragment H: certificate maps, `tunnel-group-map`, toplevel `webvpn` / `certificate-group-map`

Model `NA.Vpn.G.runH` (NA/Model/VpnGraphCert.lean: `diffTunnelGroupMap` / `diffWebVPN` = `diffCmds` with the key `byCertMapKey`),
strict device `execAllH` (NA/Model/VpnGraphCertDev.lean); compared with the real code and harness/asavpn/dev.go by driver op `H`. -/

/-- **Create-before-reference for the whole change list of fragment H** (C08).  For well-formed pairs (`wfhB`, decidable:
`wfB` and `kindByKeyB` for the objects, every rule references a certificate map and a tunnel-group that exist, rules with the
same key have the same shape) every added sub-command that carries a reference, every `tunnel-group-map` rule and every
`certificate-group-map` rule of the part before the clean-up names objects that exist at that point (on the device from the start
or created by an earlier command), and that part deletes no object.  `refsOKH` scans the list with the set of existing objects. -/
theorem cert_refs_created_first (a b : Cfg) (hw : wfhB a b = true) (hb : HSt) (he : bodyH a b = some hb) :
    refsOKH (a.objs.map (·.id)) hb.all = true ∧ ∀ c ∈ hb.all, isDelH c = false :=
  body_refs_existH a b (wfh_of_wfhB a b hw) hb he

/-- **`exit` before toplevel `webvpn`** (C08; the mechanism of the former finding F-VPN-webvpn, fixed in /repo 22978d1).
(1) `setCmdConfMode("webvpn")` appends nothing if that mode is open, else `exit` (if any mode is open) and `webvpn`.
(2) A new toplevel `webvpn` (device has none): after the transfer of what its rules reference the engine appends `exit` — exactly
if the mode it has open is a group-policy's or a username's — then `webvpn`, then the rules.
(3) The strict device takes toplevel `webvpn` exactly when no group-policy / username mode is open, and (4) after `exit` no
mode of fragment G is open.  (That the engine's idea of the open mode is the device's: `graph_body_targets` for fragment G.) -/
theorem cert_webvpn_exit_first :
    (∀ (h : HSt), h.out = [] →
      h.setWeb.all = h.all ++ (if h.mode == some webMode then [] else
        (if h.mode.isSome then [Cmd2.g .exit] else []) ++ [Cmd2.h .webvpn]) ∧ h.setWeb.mode = some webMode) ∧
    (∀ (h h' : HSt) (bl : List Rule), diffWeb h none (some bl) = some h' →
      ∃ h1 t, bl.foldl (fun (acc : Option HSt) r => acc.bind fun h => followRule h r) (some h) = some h1 ∧ (h1.out = [] →
        h'.all = h1.all ++ (if inGpUser h1.mode then [Cmd2.g .exit] else []) ++ [Cmd2.h .webvpn] ++ t)) ∧
    (∀ x : HDev, (execH1 x (.h .webvpn)).isSome = !inGpUser x.d.mode) ∧
    (∀ x x' : HDev, execH1 x (.g .exit) = some x' → x.wmode = false → x'.d.mode = none) :=
  ⟨setWeb_all, diffWeb_new_all, exec_webvpn, exec_exit_mode⟩

/-- the scenario of the former finding F-VPN-repoint: the `certificate-group-map` rule of the device is matched by subject-name
with the target's rule whose certificate map has just been transferred under a new name for the `tunnel-group-map` rule -/
def rpA : Cfg := {
  objs := [
    { kind := .certmap, name := "ca-map-1-DRC-0", drc := true, secs := [{ head := "10", mode := true, subs := [sPlain "subject-name attr ea co @sub1.example.com"] }] },
    { kind := .tg, name := "VPN-tunnel-1-DRC-0", drc := true, secs := [{ head := "type remote-access" }] }],
  web := some [{ cm := some "ca-map-1-DRC-0", seq := "10", tg := "VPN-tunnel-1-DRC-0" }] }
def rpB : Cfg := {
  objs := [
    { kind := .certmap, name := "ca-map-1", secs := [{ head := "10", mode := true, subs := [sPlain "subject-name attr ea co @sub1.example.com"] }] },
    { kind := .tg, name := "VPN-tunnel-1", secs := [{ head := "type remote-access" }] }],
  tgmap := [{ cm := some "ca-map-1", seq := "10", tg := "VPN-tunnel-1" }],
  web := some [{ cm := some "ca-map-1", seq := "10", tg := "VPN-tunnel-1" }] }

set_option maxRecDepth 8000 in
/-- with the fix (/repo 7dca37c, mirrored by `equalRule` / `cmChanged`): the old rule is removed first; accepted, converged, stable -/
example : scriptH rpA rpB = some [
    "crypto ca certificate map ca-map-1-DRC-1 10", "subject-name attr ea co @sub1.example.com",
    "tunnel-group VPN-tunnel-1-DRC-1 type remote-access", "tunnel-group-map ca-map-1-DRC-1 10 VPN-tunnel-1-DRC-1",
    "webvpn", "no certificate-group-map ca-map-1-DRC-0 10 VPN-tunnel-1-DRC-0",
    "certificate-group-map ca-map-1-DRC-1 10 VPN-tunnel-1-DRC-1", "exit",
    "clear configure crypto ca certificate map ca-map-1-DRC-0", "clear configure tunnel-group VPN-tunnel-1-DRC-0"] ∧
    wfhB rpA rpB = true ∧
    ((engineH rpA rpB).bind (execAllH (HDev.ofCfg rpA))).map (fun x => (viewH x.cfg == viewH rpB, scriptH x.cfg rpB)) =
      some (true, some []) := by decide

set_option maxRecDepth 8000 in
/-- **F-VPN-repoint inside the model**: the same change list WITHOUT the `no certificate-group-map …` line (what the code emitted
before the fix) is refused by the strict device — the old rule still names the certificate map when it is cleared. -/
theorem cert_repoint_counterexample :
    ((engineH rpA rpB).map fun l => l.filter fun c => c != Cmd2.h (.cgm true { cm := some "ca-map-1-DRC-0", seq := "10", tg := "VPN-tunnel-1-DRC-0" })).bind
      (execAllH (HDev.ofCfg rpA)) = none ∧
    ((engineH rpA rpB).bind (execAllH (HDev.ofCfg rpA))).isSome = true := by decide

def obligations : List Lean.Name := [
  ``cert_refs_created_first, ``cert_webvpn_exit_first, ``cert_repoint_counterexample,
  ``graph_unchanged_only_if_equivalent, ``graph_converges_partial, ``graph_fuel_suffices, ``graph_cleanup_accepted, ``graph_refs_created_first, ``graph_exec_frame, ``graph_body_targets, ``graph_unmanaged_untouched,
  ``graph_untagged_not_pending, ``graph_chain_protected]

end NA.Vpn.G
