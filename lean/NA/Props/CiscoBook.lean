import NA.Gen.CiscoFacts
/-!
Bookkeeping facts of the Cisco diff engine, REGENERATED from the current source on every run
(translate/ciscofacts) and decided by kernel evaluation.  Used by C01 and C02.
-/
namespace NA.CiscoBook
open NA.Gen.CiscoFacts

/-- `makeEqual` marks the device command as needed and carries the device's NAME and SEQUENCE NUMBER
over to the matched target command before anything is printed for it (the four assignments stand before
the first call of the loop body; their order and the names of the two loop variables do not matter) (crypto map entries are matched
by peer, so the target's own sequence number may belong to another entry on the device). -/
theorem makeEqual_carries_name_and_seq :
    ∀ x ∈ ["$dev.needed = true", "$tgt.name = $dev.name", "$tgt.seq = $dev.seq", "$tgt.ready = true"],
      x ∈ makeEqualEarlyAssigns := by decide

def obligations : List Lean.Name := [``makeEqual_carries_name_and_seq]
end NA.CiscoBook
