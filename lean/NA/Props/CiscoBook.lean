import NA.Gen.CiscoFacts
/-!
Bookkeeping facts of the Cisco diff engine, REGENERATED from the current source on every run
(translate/ciscofacts) and decided by kernel evaluation.  Used by C01 and C02.
-/
namespace NA.CiscoBook
open NA.Gen.CiscoFacts

/-- `makeEqual` marks the device command as needed and carries the device's NAME and SEQUENCE NUMBER
over to the matched target command before anything is printed for it (crypto map entries are matched
by peer, so the target's own sequence number may belong to another entry on the device). -/
theorem makeEqual_carries_name_and_seq :
    makeEqualAssigns.take 4 = ["a.needed = true", "b.name = a.name", "b.seq = a.seq", "b.ready = true"] := by decide

def obligations : List Lean.Name := [``makeEqual_carries_name_and_seq]
end NA.CiscoBook
