import NA.Proofs.C18Other
/-!
# C18 — linux, panos, nsx: ports of the real merge code (`NA/Model/MergeOther.lean`)

The models work on the structures the real parsers produce (hooks `linux/panos/nsx.VerifC18Dump`) and are
compared with the real `ParseConfig` + `MergeSpoc` on every run (driver ops `linux3`, `panos3`, `nsx3`).
Theorems for ALL inputs.  Unmergeable kinds enumerated from the code:
* linux: unknown / unsupported line, rule or chain outside a table, rule of a chain without policy line,
  table or chain written twice (repaired parser), user chain that Netspoc also defines;
* panos: rule name `r<NUM>` in raw, other device name, object of the same name with another definition
  (repaired code), vsys written twice in one file (NOT reported: known F-C18k);
* nsx: rule name `r<NUM>`, group name without prefix `Netspoc` or of the form `Netspoc-g<NUM>`, service name
  without prefix `Netspoc-raw`.
-/
namespace NA.C18

/-! ## NSX -/
namespace N

/-- **Every rule exactly once.**  The rules stored under a policy id after the merge are a permutation
of the rules both parts have under that id — for all configurations, also with repeated policy ids. -/
theorem n_rules_exactly_once (n1 n2 : Conf) (id : String) :
    (rulesOf (mergeSpoc n1 n2).policies id).Perm (rulesOf n1.policies id ++ rulesOf n2.policies id) :=
  rulesOf_foldl_perm n2.policies n1.policies id

/-- **Order.**  If the policy ids of the configuration merged so far are pairwise different: first its
rules in their order, then the rules of the merged part (all its policies with that id) in their order.
For NSX this is all `raw first` can mean: no APPEND mark exists, every rule of the merged part is listed
behind the Netspoc rules, the position on the device is given by `sequence_number`. -/
theorem n_rules_order (n1 n2 : Conf) (id : String) (h : (n1.policies.map (·.id)).Nodup) :
    rulesOf (mergeSpoc n1 n2).policies id = rulesOf n1.policies id ++ rulesOf n2.policies id :=
  rulesOf_foldl n2.policies n1.policies id h

/-- No policy id is lost (policies without rules included). -/
theorem n_policy_ids_kept (n1 n2 : Conf) (i : String) (h : i ∈ n1.policies.map (·.id) ∨ i ∈ n2.policies.map (·.id)) :
    i ∈ (mergeSpoc n1 n2).policies.map (·.id) :=
  ids_foldl_subset n2.policies n1.policies i h

/-- **Unmergeable ⇒ error** (the kinds `checkRaw` knows). -/
theorem n_unmergeable_is_error (c : Conf)
    (h : (∃ p ∈ c.policies, ∃ r ∈ p.rules, P.reserved r = true) ∨
         (∃ g ∈ c.groups, hasPrefix g "Netspoc" = false ∨ reservedGroup g = true) ∨
         (∃ s ∈ c.services, hasPrefix s "Netspoc-raw" = false)) :
    (checkRaw c).isSome = true := by
  unfold checkRaw
  rcases h with ⟨p, hp, r, hr, hres⟩ | ⟨g, hg, hbad⟩ | ⟨s, hs, hbad⟩
  · have : ((c.policies.flatMap (·.rules)).findSome? (fun r => if P.reserved r then some (Err.reservedRule r) else none)).isSome = true :=
      P.findSome_isSome _ _ r (List.mem_flatMap.mpr ⟨p, hp, hr⟩) (by simp [hres])
    cases hf : (c.policies.flatMap (·.rules)).findSome? (fun r => if P.reserved r then some (Err.reservedRule r) else none) with
    | none => rw [hf] at this; cases this
    | some e => rfl
  · cases (c.policies.flatMap (·.rules)).findSome? (fun r => if P.reserved r then some (Err.reservedRule r) else none) with
    | some e => rfl
    | none =>
      have : (c.groups.findSome? (fun g => if !hasPrefix g "Netspoc" then some (Err.groupPrefix g)
          else if reservedGroup g then some (Err.reservedGroup g) else none)).isSome = true := by
        refine P.findSome_isSome _ _ g hg ?_
        rcases hbad with hb | hb
        · simp [hb]
        · by_cases h1 : hasPrefix g "Netspoc" = true <;> simp [h1, hb]
      simp only [Option.orElse]
      cases hf : c.groups.findSome? (fun g => if !hasPrefix g "Netspoc" then some (Err.groupPrefix g)
          else if reservedGroup g then some (Err.reservedGroup g) else none) with
      | none => rw [hf] at this; cases this
      | some e => rfl
  · cases (c.policies.flatMap (·.rules)).findSome? (fun r => if P.reserved r then some (Err.reservedRule r) else none) with
    | some e => rfl
    | none =>
      simp only [Option.orElse]
      cases c.groups.findSome? (fun g => if !hasPrefix g "Netspoc" then some (Err.groupPrefix g)
          else if reservedGroup g then some (Err.reservedGroup g) else none) with
      | some e => rfl
      | none =>
        simp only
        exact P.findSome_isSome _ _ s hs (by simp [hbad])

/-- **Outcome-type theorem for NSX**: a raw part is rejected with an error, or every rule, group and service
of it is in the merged configuration. -/
theorem n_raw_entry_merged_or_error (a raw : Conf) :
    (checkRaw raw).isSome = true ∨
    ((∀ p ∈ raw.policies, ∀ r ∈ p.rules, r ∈ rulesOf (mergeSpoc a raw).policies p.id) ∧
     (∀ g ∈ raw.groups, g ∈ (mergeSpoc a raw).groups) ∧ (∀ s ∈ raw.services, s ∈ (mergeSpoc a raw).services)) := by
  right
  refine ⟨fun p hp r hr => ?_, fun g hg => List.mem_append_right _ hg, fun s hs => List.mem_append_right _ hs⟩
  rw [(n_rules_exactly_once a raw p.id).mem_iff]
  refine List.mem_append_right _ ?_
  unfold rulesOf
  exact List.mem_flatMap.mpr ⟨p, List.mem_filter.mpr ⟨hp, by simp⟩, hr⟩

end N

/-! ## PAN-OS -/
namespace P

/-- **Other device name ⇒ error** (repaired code). -/
theorem p_device_name_mismatch_is_error (p1 p2 : Conf) (h1 : p1.hasEntry = true) (h2 : p2.hasEntry = true)
    (hn1 : p1.devName ≠ "") (hn2 : p2.devName ≠ "") (hne : p1.devName ≠ p2.devName) :
    mergeSpoc .new p1 p2 = .error (.devName p1.devName p2.devName) := by
  unfold mergeSpoc
  simp [h1, h2, hn1, hn2, hne]

/-- Code as found, F-C18j: the raw part with another device name is ignored, no error. -/
theorem p_old_device_name_counterexample :
    ∃ p1 p2 : Conf, (p2.vsys.flatMap (·.rules)) ≠ [] ∧ (mergeSpoc .old p1 p2).toOption = some p1 :=
  ⟨{ hasEntry := true, devName := "dev1", vsys := [{ name := "vsys1", rules := [{ name := "x1" }] }] },
   { hasEntry := true, devName := "other", vsys := [{ name := "vsys1", rules := [{ name := "raw1" }] }] }, by decide⟩

/-- **Name clash ⇒ error** (repaired code): two objects of one class with the same name and different
definitions in the two vsys that are merged. -/
theorem p_object_clash_is_error (v1 v2 : Vsys) (o1 o2 : Obj) (hn : o1.name = o2.name) (hv : o1.val ≠ o2.val)
    (h : (o1 ∈ v1.addresses ∧ o2 ∈ v2.addresses) ∨ (o1 ∈ v1.addressGroups ∧ o2 ∈ v2.addressGroups) ∨
         (o1 ∈ v1.services ∧ o2 ∈ v2.services) ∨ (o1 ∈ v1.serviceGroups ∧ o2 ∈ v2.serviceGroups)) :
    ∃ e, mergeVsys .new v1 v2 = .error e := by
  have hc : (checkNameClash v1 v2).isSome = true := by
    unfold checkNameClash
    rcases h with ⟨h1, h2⟩ | ⟨h1, h2⟩ | ⟨h1, h2⟩ | ⟨h1, h2⟩
    · have := clashIn_isSome "address" v2.name _ _ o1 o2 h1 h2 hn hv
      cases hx : clashIn "address" v2.name v1.addresses v2.addresses with
      | none => rw [hx] at this; cases this
      | some e => rfl
    · cases clashIn "address" v2.name v1.addresses v2.addresses with
      | some e => rfl
      | none =>
        have := clashIn_isSome "address-group" v2.name _ _ o1 o2 h1 h2 hn hv
        simp only [Option.orElse]
        cases hx : clashIn "address-group" v2.name v1.addressGroups v2.addressGroups with
        | none => rw [hx] at this; cases this
        | some e => rfl
    · cases clashIn "address" v2.name v1.addresses v2.addresses with
      | some e => rfl
      | none =>
        simp only [Option.orElse]
        cases clashIn "address-group" v2.name v1.addressGroups v2.addressGroups with
        | some e => rfl
        | none =>
          have := clashIn_isSome "service" v2.name _ _ o1 o2 h1 h2 hn hv
          simp only
          cases hx : clashIn "service" v2.name v1.services v2.services with
          | none => rw [hx] at this; cases this
          | some e => rfl
    · cases clashIn "address" v2.name v1.addresses v2.addresses with
      | some e => rfl
      | none =>
        simp only [Option.orElse]
        cases clashIn "address-group" v2.name v1.addressGroups v2.addressGroups with
        | some e => rfl
        | none =>
          simp only
          cases clashIn "service" v2.name v1.services v2.services with
          | some e => rfl
          | none =>
            simp only
            exact clashIn_isSome "service-group" v2.name _ _ o1 o2 h1 h2 hn hv
  unfold mergeVsys
  simp only [beq_self_eq_true, if_true]
  cases hx : checkNameClash v1 v2 with
  | none => rw [hx] at hc; cases hc
  | some e => exact ⟨e, rfl⟩

/-- Code as found, F-C18l: the raw address `a1` with another value is appended without a message. -/
theorem p_old_object_clash_counterexample :
    ∃ v1 v2 v : Vsys, mergeVsys .old v1 v2 = .ok v ∧ v.addresses = [⟨"a1", "10.1.1.1/32"⟩, ⟨"a1", "10.9.9.9/32"⟩] :=
  ⟨{ name := "vsys1", addresses := [⟨"a1", "10.1.1.1/32"⟩] }, { name := "vsys1", addresses := [⟨"a1", "10.9.9.9/32"⟩] },
   _, rfl, rfl⟩

/-- **Reserved rule name ⇒ error.** -/
theorem p_reserved_rule_name_is_error (c : Conf) (v : Vsys) (r : Rule) (hv : v ∈ c.vsys) (hr : r ∈ v.rules)
    (hres : reserved r.name = true) : (checkRaw c).isSome = true := by
  unfold checkRaw
  exact findSome_isSome _ _ r (List.mem_flatMap.mpr ⟨v, hv, hr⟩) (by simp [hres])

/-- **Nothing of the configuration merged so far is lost**: every vsys keeps its name, its rules and its
objects (all configurations; the rules keep their order, see `mergeVsys_ok`). -/
theorem p_netspoc_kept (g : Gen2) (p1 p2 c : Conf) (h1 : p1.hasEntry = true) (h : mergeSpoc g p1 p2 = .ok c)
    (v1 : Vsys) (hv1 : v1 ∈ p1.vsys) :
    ∃ v ∈ c.vsys, v.name = v1.name ∧ v1.rules.Sublist v.rules ∧ (∀ o ∈ v1.addresses, o ∈ v.addresses) ∧
      (∀ o ∈ v1.addressGroups, o ∈ v.addressGroups) ∧ (∀ o ∈ v1.services, o ∈ v.services) ∧
      (∀ o ∈ v1.serviceGroups, o ∈ v.serviceGroups) := by
  unfold mergeSpoc at h
  simp only [h1, if_true] at h
  generalize (if p2.hasEntry = true then p2.devName else "") = n2 at h
  generalize (if p2.hasEntry = true then p2.vsys else []) = vs2 at h
  split at h
  · cases g <;> simp only at h
    · cases h
      exact ⟨v1, hv1, rfl, List.Sublist.refl _, fun _ h => h, fun _ h => h, fun _ h => h, fun _ h => h⟩
    · cases h
  · split at h
    · cases h
    · rename_i merged hm
      split at h
      · cases h
      · rename_i added ha
        cases h
        obtain ⟨v, hv, hf⟩ := mapE_ok_mem _ _ _ hm v1 hv1
        refine ⟨v, List.mem_append_left _ hv, ?_⟩
        split at hf
        · rename_i v2 _
          obtain ⟨e1, e2, e3, e4, e5, e6⟩ := mergeVsys_ok g v1 v2 v hf
          refine ⟨e1, ?_, ?_, ?_, ?_, ?_⟩
          · rw [e2]; exact (List.sublist_append_right _ _).trans (List.sublist_append_left _ _)
          · intro o ho; rw [e3]; exact List.mem_append_left _ ho
          · intro o ho; rw [e4]; exact List.mem_append_left _ ho
          · intro o ho; rw [e5]; exact List.mem_append_left _ ho
          · intro o ho; rw [e6]; exact List.mem_append_left _ ho
        · cases hf
          exact ⟨rfl, List.Sublist.refl _, fun _ h => h, fun _ h => h, fun _ h => h, fun _ h => h⟩

/-- **Nothing of the merged part is lost**, if its vsys names are pairwise different (the hypothesis
whose failure is the known finding F-C18k): every vsys of the merged part is in the result under its name
with all its rules (non-APPEND rules in front of, APPEND rules behind the rules already there) and objects. -/
theorem p_nothing_dropped_partial (g : Gen2) (p1 p2 c : Conf) (h1 : p1.hasEntry = true) (h2 : p2.hasEntry = true)
    (hnd : (p2.vsys.map (·.name)).Nodup) (h : mergeSpoc g p1 p2 = .ok c)
    (hnames : ¬ (p1.devName ≠ "" ∧ p2.devName ≠ "" ∧ p1.devName ≠ p2.devName))
    (v2 : Vsys) (hv2 : v2 ∈ p2.vsys) :
    ∃ v ∈ c.vsys, v.name = v2.name ∧ (∀ r ∈ v2.rules, r.name ∈ v.rules.map (·.name)) ∧
      (∀ o ∈ v2.addresses, o ∈ v.addresses) ∧ (∀ o ∈ v2.addressGroups, o ∈ v.addressGroups) ∧
      (∀ o ∈ v2.services, o ∈ v.services) ∧ (∀ o ∈ v2.serviceGroups, o ∈ v.serviceGroups) := by
  have rules_in : ∀ (v1 v : Vsys), mergeVsys g v1 v2 = .ok v →
      (∀ r ∈ v2.rules, r.name ∈ v.rules.map (·.name)) ∧ (∀ o ∈ v2.addresses, o ∈ v.addresses) ∧
      (∀ o ∈ v2.addressGroups, o ∈ v.addressGroups) ∧ (∀ o ∈ v2.services, o ∈ v.services) ∧
      (∀ o ∈ v2.serviceGroups, o ∈ v.serviceGroups) := by
    intro v1 v hf
    obtain ⟨_, e2, e3, e4, e5, e6⟩ := mergeVsys_ok g v1 v2 v hf
    refine ⟨fun r hr => ?_, fun o ho => by rw [e3]; exact List.mem_append_right _ ho,
      fun o ho => by rw [e4]; exact List.mem_append_right _ ho, fun o ho => by rw [e5]; exact List.mem_append_right _ ho,
      fun o ho => by rw [e6]; exact List.mem_append_right _ ho⟩
    rw [e2]
    by_cases ha : r.app = true
    · refine List.mem_map.mpr ⟨clearApp r, ?_, rfl⟩
      exact List.mem_append_right _ (List.mem_map.mpr ⟨r, List.mem_filter.mpr ⟨hr, ha⟩, rfl⟩)
    · refine List.mem_map.mpr ⟨r, ?_, rfl⟩
      exact List.mem_append_left _ (List.mem_append_left _ (List.mem_filter.mpr ⟨hr, by simpa using ha⟩))
  unfold mergeSpoc at h
  simp only [h1, h2, if_true] at h
  split at h
  · rename_i hc
    exfalso; apply hnames
    have : (¬p1.devName = "" ∧ ¬p2.devName = "") ∧ ¬p1.devName = p2.devName := by simpa using hc
    exact ⟨this.1.1, this.1.2, this.2⟩
  · split at h
    · cases h
    · rename_i merged hm
      split at h
      · cases h
      · rename_i added ha
        cases h
        by_cases hin : p1.vsys.any (fun v1 => v1.name == v2.name) = true
        · obtain ⟨v1, hv1, hv1n⟩ := List.any_eq_true.mp hin
          have hn : v1.name = v2.name := by simpa using hv1n
          obtain ⟨v, hv, hf⟩ := mapE_ok_mem _ _ _ hm v1 hv1
          rw [hn, lookupLast_of_nodup p2.vsys v2 hv2 hnd] at hf
          simp only at hf
          obtain ⟨e1, _⟩ := mergeVsys_ok g v1 v2 v hf
          exact ⟨v, List.mem_append_left _ hv, e1.trans hn, rules_in v1 v hf⟩
        · have hmem : v2 ∈ p2.vsys.filter (fun v2 => !p1.vsys.any (fun v1 => v1.name == v2.name)) :=
            List.mem_filter.mpr ⟨hv2, by simpa using hin⟩
          obtain ⟨v, hv, hf⟩ := mapE_ok_mem _ _ _ ha v2 hmem
          obtain ⟨e1, _⟩ := mergeVsys_ok g _ v2 v hf
          exact ⟨v, List.mem_append_right _ hv, e1, rules_in _ v hf⟩

/-- Without that hypothesis, F-C18k (known): of two vsys entries with one name only the last is merged. -/
theorem p_duplicate_vsys_counterexample :
    ∃ (p1 p2 c : Conf) (r : Rule), (mergeSpoc .new p1 p2).toOption = some c ∧ r ∈ p2.vsys.flatMap (·.rules) ∧
      r.name ∉ (c.vsys.flatMap (·.rules)).map (·.name) :=
  ⟨{ hasEntry := true, devName := "dev1", vsys := [{ name := "vsys1", rules := [{ name := "x1" }] }] },
   { hasEntry := true, devName := "dev1", vsys := [{ name := "vsys1", rules := [{ name := "raw1" }] }, { name := "vsys1", rules := [{ name := "raw2" }] }] },
   { hasEntry := true, devName := "dev1", vsys := [{ name := "vsys1", rules := [{ name := "raw2" }, { name := "x1" }] }] },
   { name := "raw1" }, by decide⟩

end P

/-! ## Linux -/
namespace L

/-- **Unknown / unsupported line ⇒ error.** -/
theorem l_unknown_line_is_error (g : Gen2) (lines : List Line) (h : Line.other ∈ lines) :
    ∃ e, parseLines g lines = .error e :=
  foldX_error_of_mem _ _ (fun _ => ⟨.unknownCmd, rfl⟩) _ _ h

/-- **A table written twice ⇒ error** (repaired parser). -/
theorem l_duplicate_table_is_error (l1 l2 l3 : List Line) (n : String) :
    ∃ e, parseLines .new (l1 ++ .table n :: (l2 ++ .table n :: l3)) = .error e :=
  dup_table_error l1 l2 l3 n {}

/-- **A chain written twice inside one table ⇒ error** (repaired parser). -/
theorem l_duplicate_chain_is_error (l1 l2 l3 : List Line) (n p p' : String) (hl2 : ∀ x ∈ l2, x.isTable = false) :
    ∃ e, parseLines .new (l1 ++ .chain n p :: (l2 ++ .chain n p' :: l3)) = .error e :=
  dup_chain_error l1 l2 l3 n p p' {} hl2

/-- Code as found, F-C18m: the rule in front of the second `*filter` is gone, no error. -/
theorem l_old_duplicate_table_counterexample :
    ∃ lines st, parseLines .old lines = .ok st ∧ Line.rule "INPUT" "-A INPUT -s 10.1.0.1 -j ACCEPT" "ACCEPT" ∈ lines ∧
      ∀ c ∈ st.chains, ∀ r ∈ c.rules, r.text ≠ "-A INPUT -s 10.1.0.1 -j ACCEPT" :=
  ⟨[.table "filter", .chain "INPUT" "DROP", .rule "INPUT" "-A INPUT -s 10.1.0.1 -j ACCEPT" "ACCEPT",
    .table "filter", .chain "INPUT" "DROP", .rule "INPUT" "-A INPUT -s 10.1.0.2 -j ACCEPT" "ACCEPT"],
   _, rfl, by decide, by decide⟩

/-- **Scope of `[APPEND]`**: after any accepted prefix of a file the mark is set iff an `[APPEND]` line
stands behind the last `*TABLE` line — COMMIT lines play no role. -/
theorem l_append_mark_scope (g : Gen2) (pre : List Line) (st : PSt) (h : parseLines g pre = .ok st) :
    st.app = true ↔ ∃ u w, pre = u ++ .append :: w ∧ ∀ x ∈ w, x.isTable = false := by
  have := app_flag_spec g pre {} st h
  simpa using this

/-- **Placement in a builtin chain** (the four laws): non-APPEND raw rules, Netspoc's rules up to the last
non-DROP rule, APPEND raw rules, Netspoc's trailing DROP rules. -/
theorem l_rules_placed (a b : List Rule) :
    G.PlacedL ruleKind isDropK (b.filter (fun r => !r.app)) a (b.filter (fun r => r.app)) (mergeRules a b) :=
  mergeRules_placed a b

/-- **User chain that Netspoc also defines ⇒ error.** -/
theorem l_redefine_user_chain_is_error (a0 : List String) (acc : Conf) (cb ca : Chain) (ht : a0.contains cb.table = true)
    (hf : acc.chains.find? (sameChain cb.table cb.name) = some ca) (hp : ca.policy = "-" ∨ ca.policy = "") :
    chainStep a0 acc cb = .error (.redefChain cb.table cb.name) := by
  unfold chainStep
  have hm : cb.table ∈ a0 := by simpa using ht
  rcases hp with hp | hp <;> simp [hm, hf, hp]

/-- **Outcome-type theorem for the linux merge**: `MergeSpoc` ends in an error, or every rule of every
chain of both parts is stored in the chain of that table and name. -/
theorem l_merge_nothing_dropped (a b : Conf) :
    (∃ e, mergeConf a b = .error e) ∨
    ∃ c, mergeConf a b = .ok c ∧
      (∀ ca ∈ a.chains, ∀ r ∈ ca.rules, Has c.chains ca.table ca.name r) ∧
      (∀ cb ∈ b.chains, ∀ r ∈ cb.rules, Has c.chains cb.table cb.name r) := by
  cases h : mergeConf a b with
  | error e => exact Or.inl ⟨e, rfl⟩
  | ok c =>
    right
    refine ⟨c, rfl, ?_, ?_⟩
    · unfold mergeConf at h
      obtain ⟨k1, _⟩ := fold_keeps a.tables _ _ _ h
      exact fun ca hca r hr => k1 _ _ r ⟨ca, hca, rfl, rfl, hr⟩
    · unfold mergeConf at h
      obtain ⟨_, k2⟩ := fold_keeps a.tables _ _ _ h
      exact fun cb hcb r hr => k2 cb ((mem_sortChains cb b.chains).mpr hcb) r hr

end L

/-! Non-vacuity -/
example : N.rulesOf (N.mergeSpoc { policies := [⟨"v1", ["r1"]⟩] } { policies := [⟨"v2", ["x"]⟩, ⟨"v1", ["raw1"]⟩, ⟨"v2", ["y"]⟩] }).policies "v2"
    = ["x", "y"] := by decide
example : (N.checkRaw { groups := ["my-group"] }).isSome = true := by decide
example : N.checkRaw { policies := [⟨"Netspoc-v1", ["raw1"]⟩], groups := ["Netspoc-raw-g"], services := ["Netspoc-raw-s"] } = none := by decide
example : (P.mergeSpoc .new { hasEntry := true, devName := "d", vsys := [{ name := "vsys1", rules := [⟨"x1", false⟩] }] }
    { hasEntry := true, devName := "", vsys := [{ name := "vsys1", rules := [⟨"a", true⟩, ⟨"b", false⟩] }] }).toOption.map
      (fun c => c.vsys.map (fun v => v.rules.map (·.name))) = some [["b", "x1", "a"]] := by decide
example : (L.parseLines .new [.table "filter", .chain "INPUT" "DROP", .append, .rule "INPUT" "x" "DROP", .table "mangle",
    .chain "INPUT" "DROP", .rule "INPUT" "y" "DROP"]).toOption.map (fun st => st.chains.map (fun c => c.rules.map (·.app)))
    = some [[true], [false]] := by decide
example : (L.mergeConf { tables := ["filter"], chains := [⟨"filter", "INPUT", "DROP", [⟨"n1", "ACCEPT", false⟩, ⟨"n2", "DROP", false⟩]⟩] }
    { tables := ["filter"], chains := [⟨"filter", "INPUT", "DROP", [⟨"p", "DROP", false⟩, ⟨"a", "DROP", true⟩]⟩] }).toOption.map
      (fun c => c.chains.map (fun ch => ch.rules.map (·.text))) = some [["p", "n1", "a", "n2"]] := by decide

end NA.C18

namespace NA.C18.Other

def obligations : List Lean.Name := [
  ``NA.C18.N.n_rules_exactly_once, ``NA.C18.N.n_rules_order, ``NA.C18.N.n_policy_ids_kept, ``NA.C18.N.n_unmergeable_is_error, ``NA.C18.N.n_raw_entry_merged_or_error,
  ``NA.C18.P.p_device_name_mismatch_is_error, ``NA.C18.P.p_old_device_name_counterexample, ``NA.C18.P.p_object_clash_is_error,
  ``NA.C18.P.p_old_object_clash_counterexample, ``NA.C18.P.p_reserved_rule_name_is_error, ``NA.C18.P.p_netspoc_kept, ``NA.C18.P.p_nothing_dropped_partial,
  ``NA.C18.P.p_duplicate_vsys_counterexample,
  ``NA.C18.L.l_unknown_line_is_error, ``NA.C18.L.l_duplicate_table_is_error, ``NA.C18.L.l_duplicate_chain_is_error, ``NA.C18.L.l_old_duplicate_table_counterexample,
  ``NA.C18.L.l_append_mark_scope, ``NA.C18.L.l_rules_placed, ``NA.C18.L.l_redefine_user_chain_is_error, ``NA.C18.L.l_merge_nothing_dropped]

end NA.C18.Other
