import NA.Proofs.C05Final
import NA.Proofs.C05Restore
import NA.Proofs.C05Parse
/-!
# C05 — Linux approve converges for static routes and iptables

Property theorems only.  Model of the code: `NA/Model/Linux.lean` (`diffRoutes`, `parsePairs`,
`normalize`, `diffIPTables`, `getIPTablesConfig`); device semantics and `iptables-save` spelling:
`NA/Spec/Linux.lean`.  All statements are over arbitrary route lists, rule sets and grammar rules.

False of the unchanged code, with witness and complement:
* `linux_routes_converge` — was false when the target names one route twice (F-C05d, witness kept as
  `linux_routes_converge_unrepaired_counterexample` about the loop without the repair); repaired in /repo,
  now proved for every target.
* `iptables_replace_converges` — false when the device has a table the target lacks
  (`iptables_replace_converges_counterexample`, F-C05t); proved otherwise: `…_partial`.
* `kernel_roundtrip` — false when an option key repeats (`kernel_roundtrip_counterexample`, F-C05m);
  proved for the grammar under `RuleOK`: `kernel_roundtrip_partial`.  (It was also false for an
  un-negated `--syn`, F-C05s — repaired in /repo, now covered: `kernel_roundtrip_syn`.)
* `iptables_diff_iff` — false for a table with the empty name (`iptables_diff_iff_counterexample`);
  proved when no name is empty: `iptables_diff_iff_partial`.
* `kernel_roundtrip` is also false for a MARK with a non-default mask (`kernel_roundtrip_mask_counterexample`,
  F-C05k); such options are outside `AOpt.wf`.
* `normalize_idempotent` — false in general (`normalize_idempotent_counterexample`); proved on
  stable maps: `normalize_idempotent_partial`.
* `normalize_sound` — false for a repeated option key (`normalize_sound_counterexample`); what equal
  normal forms do imply: `normalize_sound_partial`.
-/
namespace NA.C05
open NA.Linux NA.Linux.Spec

/-! ## routes -/

/-- The script of `diffRoutes`, executed line by line (a joined `del \N add` is one step) on the
strict kernel table that holds the device's routes (a set: no duplicates), succeeds and ends in
exactly the target's routes — for every target, also one that names a route several times (since
the repair of F-C05d). -/
theorem linux_routes_converge (a b : List Route) (ha : (keys a).Nodup) :
    ∃ t, execScript (keys a) ((diffRoutes a b).map cmdsOf) = some t ∧ t.Nodup ∧ ∀ k, k ∈ t ↔ k ∈ keys b := by
  obtain ⟨hn, hs, hk⟩ := target_spec b
  obtain ⟨tr, h1, h2, h3, _⟩ := core_ok a b _ ha hn hs hk
  exact ⟨_, execScript_of_trace _ _ _ h1, h2, h3⟩

/-- The loop without the repair (`diffRoutesCore` on the sorted target, as the unchanged code
did) fails when the target names a route twice: it adds a route that exists. -/
theorem linux_routes_converge_unrepaired_counterexample :
    ∃ a b : List Route, (keys a).Nodup ∧
      execScript (keys a) ((diffRoutesCore a (sortRoutes b)).map cmdsOf) = none :=
  ⟨[⟨s "10.1.1.0", 24, s "10.9.1.1", s "ip route add 10.1.1.0/24 via 10.9.1.1"⟩],
   [⟨s "10.1.1.0", 24, s "10.9.1.1", s "ip route add 10.1.1.0/24 via 10.9.1.1"⟩,
    ⟨s "10.1.1.0", 24, s "10.9.1.1", s "ip route add 10.1.1.0/24 via 10.9.1.1"⟩], by decide⟩

/-- If device and target have at most one next hop per destination, so has every state between
two script lines. -/
theorem linux_routes_one_hop_per_dst (a b : List Route) (ha : (keys a).Nodup)
    (h1 : OneHop a) (h2 : OneHop b) :
    ∃ tr, execTrace (keys a) ((diffRoutes a b).map cmdsOf) = some tr ∧ ∀ t ∈ tr, oneHopPerDst t := by
  obtain ⟨hn, hs, hk⟩ := target_spec b
  obtain ⟨tr, h, _, _, hst⟩ := core_ok a b _ ha hn hs hk
  refine ⟨tr, h, ?_⟩
  intro t ht
  obtain ⟨am, P, st⟩ := hst t ht
  exact st.oneHop h1 h2

/-- Every destination that has a route before and after has one after every script line (joined
lines are atomic).  Used by C14. -/
theorem routes_covered_linux (a b : List Route) (ha : (keys a).Nodup) :
    ∃ tr, execTrace (keys a) ((diffRoutes a b).map cmdsOf) = some tr ∧
      ∀ t ∈ tr, ∀ d, covered (keys a) d = true → covered (keys b) d = true → covered t d = true := by
  obtain ⟨hn, hs, hk⟩ := target_spec b
  obtain ⟨tr, h, _, _, hst⟩ := core_ok a b _ ha hn hs hk
  refine ⟨tr, h, ?_⟩
  intro t ht d hda hdb
  obtain ⟨am, P, st⟩ := hst t ht
  exact st.covers d hda hdb

/-- With one next hop per destination on both sides the script also runs on the kernel that refuses
a second route to a destination (`RTNETLINK answers: File exists`), and converges. -/
theorem linux_routes_kernel_strict (a b : List Route) (ha : (keys a).Nodup)
    (h1 : OneHop a) (h2 : OneHop b) :
    ∃ t, execScriptK (keys a) ((diffRoutes a b).map cmdsOf) = some t ∧ ∀ k, k ∈ t ↔ k ∈ keys b := by
  obtain ⟨hn, hs, hk⟩ := target_spec b
  obtain ⟨tr, h, _, h3, hst⟩ := core_ok a b _ ha hn hs hk
  refine ⟨_, scriptK_of_trace _ _ tr h ?_, h3⟩
  intro t ht
  obtain ⟨am, P, st⟩ := hst t ht
  exact st.oneHop h1 h2

/-! ## iptables: compare -/

/-- `diffIPTables` reports nothing iff both rule sets have the same tables, in each the same
chains, for each chain the same policy and, rule by rule in order, the same option map — for rule
sets in which no table, chain or option is named by the empty string. -/
theorem iptables_diff_iff_partial (a b : Tables) (ha : NETables a) (hb : NETables b) :
    diffIPTables a b = .same ↔ TablesEq a b :=
  diffIPTables_same a b ha hb

/-- Without that hypothesis it is false: the code tests the comma-joined extra names for emptiness,
so a table with the empty name (a line `*`) that only one side has goes unnoticed. -/
theorem iptables_diff_iff_counterexample :
    ∃ a b : Tables, diffIPTables a b = .same ∧ ¬ TablesEq a b :=
  ⟨[([], [])], [], by decide, fun h => by have := h []; simp [getA] at this⟩

/-! ## iptables: loading the printed file -/

/-- Whatever the device holds, loading the file of `getIPTablesConfig` gives every table of the
target exactly the target's chains (sorted by name), policies and rule lines in order, and leaves
every other table as it was. -/
theorem iptables_replace_converges_partial (tb : Tables) (st : KState)
    (hc : ∀ t cm, getA t tb = some cm → (keysA cm).Nodup) :
    ∃ st', restore st ((getIPTablesConfig tb).map toRLn) = some st' ∧
      (∀ t cm, getA t tb = some cm → st'.get t = some (expTable t cm)) ∧
      (∀ t, getA t tb = none → st'.get t = st.get t) :=
  restore_target tb st hc

/-- The hypothesis holds for every target the parser accepts (Go maps have distinct keys): for any
file text, if `parseIPTables` accepts it, loading the printed file replaces the target's tables exactly. -/
theorem iptables_replace_converges_parsed (lines : List Str) (tb : Tables) (st : KState)
    (hp : parseIPTables lines = .ok tb) :
    ∃ st', restore st ((getIPTablesConfig tb).map toRLn) = some st' ∧
      (∀ t cm, getA t tb = some cm → st'.get t = some (expTable t cm)) ∧
      (∀ t, getA t tb = none → st'.get t = st.get t) :=
  restore_target tb st (parseIPTables_wft lines tb hp).2

/-- Hence "the device then holds exactly the target" is false as soon as the device has a table
that the target does not name: it survives. -/
theorem iptables_replace_converges_counterexample :
    ∃ (tb : Tables) (st st' : KState), restore st ((getIPTablesConfig tb).map toRLn) = some st' ∧
      getA (s "mangle") tb = none ∧ (st'.get (s "mangle")).isSome = true :=
  ⟨[(s "filter", [(s "INPUT", { policy := s "DROP" })])],
   [⟨s "mangle", [⟨s "PREROUTING", s "ACCEPT", []⟩]⟩], _, rfl, by decide, by decide⟩

/-! ## iptables: normalisation -/

/-- On a stable map (every value a fixed point of the per-key rewriting, no convertible
`--set-xmark`, surviving `-m` differs from the protocol) normalisation changes nothing; in
particular `normalize (normalize p) ≈ normalize p` whenever `normalize p` is stable. -/
theorem normalize_idempotent_partial (p : Pairs) (h : Stable (normalize p)) :
    PairsEq (normalize (normalize p)) (normalize p) := normalize_of_stable _ h

/-- In general normalisation is not idempotent: `-p VRRP -m 112` keeps `-m` in the first pass
(`112` ≠ `VRRP`) and drops it in the second (`-p` is `112` by then). -/
theorem normalize_idempotent_counterexample :
    ∃ p : Pairs, normalize (normalize p) ≠ normalize p ∧ ¬ PairsEq (normalize (normalize p)) (normalize p) := by
  refine ⟨[(s "-p", s "VRRP"), (s "-m", s "112")], by decide, ?_⟩
  intro h
  exact absurd (h (s "-m")) (by decide)

/-- What equal normal forms imply for two option maps: on every key other than `-m`, `--set-mark`
and `--set-xmark`, the values agree up to the per-key rewriting. -/
theorem normalize_sound_partial (p q : Pairs) (h : PairsEq (normalize p) (normalize q)) (k : Str)
    (hk : k ≠ kM ∧ k ≠ kMark ∧ k ≠ kXmark) :
    (getA k p).map (normVal k) = (getA k q).map (normVal k) := by
  have := h k
  rw [getA_normalize, getA_normalize] at this
  obtain ⟨h1, h2, h3⟩ := hk
  cases hp : xConv p <;> cases hq : xConv q <;> simpa [hp, hq, h1, h2, h3] using this

/-- Equal option maps do not mean equal rules: the map keeps only the last value of a repeated key. -/
theorem normalize_sound_counterexample :
    ∃ w1 w2 : List Str, w1.length ≠ w2.length ∧ parsePairs w1 = parsePairs w2 :=
  ⟨[s "-m", s "state", s "-m", s "tcp"], [s "-m", s "tcp"], by decide, by decide⟩

/-! ## iptables: the round trip target → device → iptables-save → compare -/

theorem kernelOpts_ok (cfg : KCfg) (r : ARule) (hwf : ∀ a ∈ r, a.wf = true) : ∀ o ∈ kernelOpts cfg r, OptOK o := by
  intro o ho
  rcases (mem_kernelOpts cfg r o).mp ho with ⟨a, ha, _, e⟩ | ⟨p, hp, _, e⟩
  · rw [e]; exact kernel_ok cfg a (hwf a ha)
  · obtain ⟨P, u, num, hP, hk⟩ := protoOf_mem cfg r p hp
    rw [e]
    exact optOK_mk _ _ _ (by decide) (hk ▸ (proto_isArg cfg .no P u num (hwf _ hP)).2)

/-- For every rule of the grammar whose option keys are distinct in both spellings (`RuleOK`), what
`iptables-save` prints for the rule and what the target says parse and normalise to the same option
map — for both ways the device may print protocols 112 and 58. -/
theorem kernel_roundtrip_partial (cfg : KCfg) (r : ARule) (H : RuleOK cfg r) :
    ∃ pk pu, parsePairs (kernelWords cfg r) = some pk ∧ parsePairs (userWords r) = some pu ∧
      PairsEq (normalize pk) (normalize pu) := by
  refine ⟨_, _, parsePairs_words _ (kernelOpts_ok cfg r H.wf), parsePairs_words _ ?_, rule_roundtrip cfg r H⟩
  intro o ho
  obtain ⟨a, ha, e⟩ := List.mem_map.mp ho
  rw [← e]; exact user_ok a (H.wf a ha)

/-- … so the second compare finds no difference in that rule. -/
theorem kernel_roundtrip_no_diff (cfg : KCfg) (r : ARule) (H : RuleOK cfg r) (t c : Str) (i : Nat) :
    ∃ pk pu, parsePairs (kernelWords cfg r) = some pk ∧ parsePairs (userWords r) = some pu ∧
      diffRule t c i (normalize pk) (normalize pu) = .same := by
  have hku := kernelOpts_ok cfg r H.wf
  have huu : ∀ o ∈ userOpts r, OptOK o := by
    intro o ho
    obtain ⟨a, ha, e⟩ := List.mem_map.mp ho
    rw [← e]; exact user_ok a (H.wf a ha)
  exact ⟨_, _, parsePairs_words _ hku, parsePairs_words _ huu,
    (diffRule_same t c i _ _ (normalize_pairsOf_NE _ hku) (normalize_pairsOf_NE _ huu)).mpr (rule_roundtrip cfg r H)⟩

def exStateFirst : ARule :=
  [.mExplicit (s "state"), .state [.new], .proto .no .tcp false false, .dport (.one (s "22")) 0 false, .jump (s "ACCEPT")]

/-- Without distinct keys the round trip fails: `-m state --state NEW -p tcp --dport 22 -j ACCEPT` is
printed as `-p tcp -m state --state NEW -m tcp --dport 22 -j ACCEPT`; the map of the device keeps the
last `-m` (`tcp`, dropped as protocol match), the target's map keeps `-m state`. -/
theorem kernel_roundtrip_counterexample :
    ∃ (cfg : KCfg) (r : ARule) (pk pu : Pairs), (∀ a ∈ r, a.wf = true) ∧
      parsePairs (kernelWords cfg r) = some pk ∧ parsePairs (userWords r) = some pu ∧
      getA (s "-m") (normalize pk) ≠ getA (s "-m") (normalize pu) :=
  ⟨{}, exStateFirst, _, _, by decide, rfl, rfl, by decide⟩

/-- A mark with a mask other than the default is outside the grammar (`AOpt.wf`) for a reason: the
kernel prints `--set-mark 0x10/0xf0` as `--set-xmark 0x10/0xf0`, which the code neither renames nor
rewrites; the device's map has `--set-xmark`, the target's `--set-mark` (F-C05k). -/
theorem kernel_roundtrip_mask_counterexample :
    ∃ (cfg : KCfg) (r : ARule) (pk pu : Pairs),
      parsePairs (kernelWords cfg r) = some pk ∧ parsePairs (userWords r) = some pu ∧
      getA (s "--set-mark") (normalize pk) ≠ getA (s "--set-mark") (normalize pu) :=
  ⟨{}, [.jump (s "MARK"), .setMark (s "10") (s "f0") false (s "0x10/0xf0")], _, _, rfl, rfl, by decide⟩

/-- An un-negated `--syn`, which the kernel prints as `--tcp-flags FIN,SYN,RST,ACK SYN`, is inside the
grammar since the repair of F-C05s (before it the device's map had `--tcp-flags`, the target's `--syn`). -/
theorem kernel_roundtrip_syn : RuleOK {} [.jump (s "ACCEPT"), .proto .no .tcp false false, .syn false false] := by
  decide

/-! ## non-vacuity: the hypotheses are satisfiable on non-trivial values -/

def exA : List Route :=
  [⟨s "10.20.0.0", 16, s "10.1.2.3", s "ip route add 10.20.0.0/16 via 10.1.2.3"⟩,
   ⟨s "10.30.0.0", 16, s "10.1.2.3", s "ip route add 10.30.0.0/16 via 10.1.2.3"⟩,
   ⟨s "0.0.0.0", 0, s "10.1.2.5", s "ip route add default via 10.1.2.5"⟩]
def exB : List Route :=
  [⟨s "10.10.0.0", 16, s "10.1.2.3", s "ip route add 10.10.0.0/16 via 10.1.2.3"⟩,
   ⟨s "10.20.0.0", 16, s "10.1.2.3", s "ip route add 10.20.0.0/16 via 10.1.2.3"⟩,
   ⟨s "0.0.0.0", 0, s "10.1.2.6", s "ip route add 0.0.0.0/0 via 10.1.2.6"⟩]
example : (keys exA).Nodup ∧ (keys exB).Nodup := by decide
example : (diffRoutes exA exB).length = 3 := by decide

def exRule : ARule :=
  [.jump (s "MARK"), .setMark (s "f") (s "ffffffff") true (s "0X0F/0XFFFFFFFF"), .proto .before .tcp true false,
   .src .after (s "10.1.1.1") (s "32") false]
def exRule2 : ARule :=
  [.proto .no .udp true false, .sport (.range (s "0") (s "1023")) 2 true, .dport (.range (s "1024") (s "65535")) 0 true,
   .mExplicit (s "UDP"), .goto (s "c2")]
def exRule3 : ARule :=
  [.jump (s "ACCEPT"), .mExplicit (s "state"), .state [.related, .established]]

example : RuleOK {} exRule := by decide
example : RuleOK { protoNames := false } exRule2 := by decide
example : RuleOK {} exRule3 := by decide
example : Stable (normalize [(s "-s", s "10.1.1.1/32"), (s "-p", s "TCP"), (s "-m", s "tcp"), (s "--dport", s "0:1023")]) := by
  decide

def obligations : List Lean.Name := [
  ``linux_routes_converge, ``linux_routes_converge_unrepaired_counterexample,
  ``linux_routes_one_hop_per_dst, ``routes_covered_linux, ``linux_routes_kernel_strict,
  ``iptables_diff_iff_partial, ``iptables_diff_iff_counterexample,
  ``iptables_replace_converges_partial, ``iptables_replace_converges_parsed, ``iptables_replace_converges_counterexample,
  ``normalize_idempotent_partial, ``normalize_idempotent_counterexample,
  ``normalize_sound_partial, ``normalize_sound_counterexample,
  ``kernel_roundtrip_partial, ``kernel_roundtrip_no_diff,
  ``kernel_roundtrip_counterexample, ``kernel_roundtrip_mask_counterexample, ``kernel_roundtrip_syn,
  ``opt_roundtrip, ``parsePairs_words, ``getA_normalize]

end NA.C05
