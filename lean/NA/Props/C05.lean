import NA.Spec.LinuxNeg
import NA.Proofs.C05Final
import NA.Proofs.C05Restore
import NA.Proofs.C05Parse
import NA.Proofs.C05Whole
import NA.Proofs.C05Resume
import NA.Proofs.C05Equiv
import NA.Proofs.C05Device
import NA.Proofs.C05Config
import NA.Proofs.C05Stable
import NA.Proofs.C05ResumeAll
/-!
# C05 — Linux approve converges for static routes and iptables

Property theorems only.  Model of the code: `NA/Model/Linux.lean` (`diffRoutes`, `parsePairs`,
`normalize`, `diffIPTables`, `getIPTablesConfig`); device semantics and `iptables-save` spelling:
`NA/Spec/Linux.lean`.  All statements are over arbitrary route lists, rule sets and grammar rules.

False of the unchanged code, with witness and complement:
* `linux_routes_converge` — was false when the target names one route twice (F-C05d, witness kept as
  `linux_routes_converge_unrepaired_counterexample` about the loop without the repair); repaired in /repo,
  now proved for every target.
* `iptables_replace_converges` — false when the device has a table the target lacks
  (`iptables_replace_converges_counterexample`, F-C05t); proved otherwise: `…_partial`.
* `kernel_roundtrip` — false when an option key repeats (`kernel_roundtrip_counterexample`, F-C05m);
  proved for the grammar under `RuleOK`: `kernel_roundtrip_partial`.  (It was also false for an
  un-negated `--syn`, F-C05s — repaired in /repo, now covered by `opt_roundtrip`, see the example.)
* `iptables_diff_iff` — false for a table with the empty name (`iptables_diff_iff_counterexample`);
  proved when no name is empty: `iptables_diff_iff_partial`.
* `kernel_roundtrip` is also false for a MARK with a non-default mask (`kernel_roundtrip_mask_counterexample`,
  F-C05k); such options are outside `AOpt.wf`.
* `normalize_idempotent` for arbitrary maps — false (`normalize_idempotent_counterexample`); proved on
  stable maps (`normalize_idempotent_partial`) and, hypothesis discharged from `RuleOK`, for every rule of
  the class (`normalize_stable_of_ruleOK`, `normalize_idempotent`).
* `normalize_sound` — false for a repeated option key (`normalize_sound_counterexample`); what equal
  normal forms do imply: `normalize_sound_partial`.
-/
namespace NA.C05
open NA.Linux NA.Linux.Spec

/-! ## routes -/

/-- The script of `diffRoutes`, executed line by line (a joined `del \N add` is one step) on the
strict kernel table that holds the device's routes (a set: no duplicates), succeeds and ends in
exactly the target's routes — for every target, also one that names a route several times (since
the repair of F-C05d). -/
theorem linux_routes_converge (a b : List Route) (ha : (keys a).Nodup) :
    ∃ t, execScript (keys a) ((diffRoutes a b).map cmdsOf) = some t ∧ t.Nodup ∧ ∀ k, k ∈ t ↔ k ∈ keys b := by
  obtain ⟨hn, hs, hk⟩ := target_spec b
  obtain ⟨tr, h1, h2, h3, _⟩ := core_ok a b _ ha hn hs hk
  exact ⟨_, execScript_of_trace _ _ _ h1, h2, h3⟩

/-- The loop without the repair (`diffRoutesCore` on the sorted target, as the unchanged code
did) fails when the target names a route twice: it adds a route that exists. -/
theorem linux_routes_converge_unrepaired_counterexample :
    ∃ a b : List Route, (keys a).Nodup ∧
      execScript (keys a) ((diffRoutesCore a (sortRoutes b)).map cmdsOf) = none :=
  ⟨[⟨s "10.1.1.0", 24, s "10.9.1.1", s "ip route add 10.1.1.0/24 via 10.9.1.1"⟩],
   [⟨s "10.1.1.0", 24, s "10.9.1.1", s "ip route add 10.1.1.0/24 via 10.9.1.1"⟩,
    ⟨s "10.1.1.0", 24, s "10.9.1.1", s "ip route add 10.1.1.0/24 via 10.9.1.1"⟩], by decide⟩

/-- If device and target have at most one next hop per destination, so has every state between
two script lines. -/
theorem linux_routes_one_hop_per_dst (a b : List Route) (ha : (keys a).Nodup)
    (h1 : OneHop a) (h2 : OneHop b) :
    ∃ tr, execTrace (keys a) ((diffRoutes a b).map cmdsOf) = some tr ∧ ∀ t ∈ tr, oneHopPerDst t := by
  obtain ⟨hn, hs, hk⟩ := target_spec b
  obtain ⟨tr, h, _, _, hst⟩ := core_ok a b _ ha hn hs hk
  refine ⟨tr, h, ?_⟩
  intro t ht
  obtain ⟨am, P, st⟩ := hst t ht
  exact st.oneHop h1 h2

/-- Every destination that has a route before and after has one after every script line (joined
lines are atomic).  Used by C14. -/
theorem routes_covered_linux (a b : List Route) (ha : (keys a).Nodup) :
    ∃ tr, execTrace (keys a) ((diffRoutes a b).map cmdsOf) = some tr ∧
      ∀ t ∈ tr, ∀ d, covered (keys a) d = true → covered (keys b) d = true → covered t d = true := by
  obtain ⟨hn, hs, hk⟩ := target_spec b
  obtain ⟨tr, h, _, _, hst⟩ := core_ok a b _ ha hn hs hk
  refine ⟨tr, h, ?_⟩
  intro t ht d hda hdb
  obtain ⟨am, P, st⟩ := hst t ht
  exact st.covers d hda hdb

/-- **Addresses stay routed (C14, address level).**  For ANY relation "destination `d` covers address
`x`" (prefix match in particular): an address that some route of the device covers and some route of
the target covers is covered by some route after every script line — new routes are added before old
ones are deleted, and a replaced route leaves in the same packet in which its successor arrives. -/
theorem linux_addresses_stay_routed {α : Type} (cov : Str × Int → α → Bool) (a b : List Route) (ha : (keys a).Nodup) :
    ∃ tr, execTrace (keys a) ((diffRoutes a b).map cmdsOf) = some tr ∧
      ∀ t ∈ tr, ∀ x, (∃ ka, ka ∈ keys a ∧ cov (dstOf ka) x = true) → (∃ kb, kb ∈ keys b ∧ cov (dstOf kb) x = true) →
        ∃ k, k ∈ t ∧ cov (dstOf k) x = true := by
  obtain ⟨hn, hs, hk⟩ := target_spec b
  obtain ⟨tr, h, _, _, hst⟩ := core_ok a b _ ha hn hs hk
  refine ⟨tr, h, ?_⟩
  intro t ht x hxa hxb
  obtain ⟨am, P, st⟩ := hst t ht
  exact st.coversAddr cov x hxa hxb

/-- … instantiated with the prefix match of the specification (`coversAddr`, `routedAddr`): what the
step-safety oracle of C14 tests. -/
theorem linux_addresses_stay_routed_prefix (a b : List Route) (ha : (keys a).Nodup) :
    ∃ tr, execTrace (keys a) ((diffRoutes a b).map cmdsOf) = some tr ∧
      ∀ t ∈ tr, ∀ x : Nat, routedAddr (keys a) x = true → routedAddr (keys b) x = true → routedAddr t x = true := by
  obtain ⟨tr, h, hall⟩ := linux_addresses_stay_routed coversAddr a b ha
  refine ⟨tr, h, ?_⟩
  intro t ht x hxa hxb
  simp only [routedAddr, List.any_eq_true] at hxa hxb ⊢
  exact hall t ht x hxa hxb

example : routedAddr [(s "10.1.0.0", 16, s "10.10.1.1")] 167839495 = true ∧
    routedAddr [(s "10.1.0.0", 24, s "10.10.1.1")] 167839495 = false := by decide

/-- With one next hop per destination on both sides the script also runs on the kernel that refuses
a second route to a destination (`RTNETLINK answers: File exists`), and converges. -/
theorem linux_routes_kernel_strict (a b : List Route) (ha : (keys a).Nodup)
    (h1 : OneHop a) (h2 : OneHop b) :
    ∃ t, execScriptK (keys a) ((diffRoutes a b).map cmdsOf) = some t ∧ ∀ k, k ∈ t ↔ k ∈ keys b := by
  obtain ⟨hn, hs, hk⟩ := target_spec b
  obtain ⟨tr, h, _, h3, hst⟩ := core_ok a b _ ha hn hs hk
  refine ⟨_, scriptK_of_trace _ _ tr h ?_, h3⟩
  intro t ht
  obtain ⟨am, P, st⟩ := hst t ht
  exact st.oneHop h1 h2

/-- **Interrupted approve (C10 for Linux routes).**  Stop the script after ANY number `k` of lines
(a line is one packet: a joined `del \N add` is never split).  The kernel table is then still a set
`t`, and planning again from any reading `a'` of that table (any order of the lines the device
prints) and executing that plan ends in exactly the target's routes. -/
theorem linux_routes_resume (a b : List Route) (ha : (keys a).Nodup) (k : Nat) :
    ∃ t, execScript (keys a) (((diffRoutes a b).take k).map cmdsOf) = some t ∧ t.Nodup ∧
      ∀ a' : List Route, (keys a').Nodup → (∀ x, x ∈ keys a' ↔ x ∈ t) →
        ∃ t', execScript (keys a') ((diffRoutes a' b).map cmdsOf) = some t' ∧ t'.Nodup ∧ ∀ x, x ∈ t' ↔ x ∈ keys b := by
  obtain ⟨hn, hs, hk⟩ := target_spec b
  obtain ⟨tr, h1, _, _, hst⟩ := core_ok a b _ ha hn hs hk
  have hp := execScript_take (keys a) ((diffRoutes a b).map cmdsOf) tr h1 k
  rw [List.map_take]
  refine ⟨_, hp, ?_, ?_⟩
  · rcases take_getLastD_mem tr k (keys a) with e | hm
    · rw [e]; exact ha
    · obtain ⟨am, P, st⟩ := hst _ hm; exact st.nodup
  · intro a' ha' _
    exact linux_routes_converge a' b ha'

/-- The same when the session dies INSIDE a packet: after any prefix of the single commands (the
`del` of a joined line executed, its `add` not) the table is still a set, so planning again from it
converges (`linux_routes_converge` asks nothing else of the device). -/
theorem linux_routes_resume_cmds (a b : List Route) (ha : (keys a).Nodup) (k : Nat) :
    ∃ t, execLine (keys a) ((((diffRoutes a b).map cmdsOf).flatten).take k) = some t ∧ t.Nodup ∧
      ∀ a' : List Route, keys a' = t →
        ∃ t', execScript (keys a') ((diffRoutes a' b).map cmdsOf) = some t' ∧ t'.Nodup ∧ ∀ x, x ∈ t' ↔ x ∈ keys b := by
  obtain ⟨t0, h0, _, _⟩ := linux_routes_converge a b ha
  rw [execScript_flatten] at h0
  obtain ⟨u, hu, hun⟩ := execLine_take _ _ _ h0 ha k
  exact ⟨u, hu, hun, fun a' e => linux_routes_converge a' b (e ▸ hun)⟩

/-- `parseRoute` reads the line `ip route show` prints for a static route (`routeShow`: host routes
without `/32`, `default` for 0.0.0.0/0, optional `dev IF`) back to exactly that route — for all
dotted-decimal addresses and next hops, every prefix length 0…32 and every interface name. -/
theorem route_show_roundtrip (ip hop : Str) (n : Nat) (dev : Option Str) (hip : ipTok ip = true)
    (hhop : ipTok hop = true) (hn : n ≤ 32) (hdev : ∀ d, dev = some d → Tok d) :
    ∃ r : Route, parseRoute (s "ip route add " ++ routeShow (ip, Int.ofNat n, hop) dev) = .ok (some r) ∧
      r.key = (ip, Int.ofNat n, hop) :=
  parseRoute_routeShow ip hop n dev hip hhop hn hdev

example : ipTok (s "10.1.11.0") = true ∧ ipTok (s "10.10.1.6") = true ∧ Tok (s "bond0.12") := by decide

/-! ## iptables: compare -/

/-- `diffIPTables` reports nothing iff both rule sets have the same tables, in each the same
chains, for each chain the same policy and, rule by rule in order, the same option map — for rule
sets in which no table, chain or option is named by the empty string. -/
theorem iptables_diff_iff_partial (a b : Tables) (ha : NETables a) (hb : NETables b) :
    diffIPTables a b = .same ↔ TablesEq a b :=
  diffIPTables_same a b ha hb

/-- Without that hypothesis it is false: the code tests the comma-joined extra names for emptiness,
so a table with the empty name (a line `*`) that only one side has goes unnoticed. -/
theorem iptables_diff_iff_counterexample :
    ∃ a b : Tables, diffIPTables a b = .same ∧ ¬ TablesEq a b :=
  ⟨[([], [])], [], by decide, fun h => by have := h []; simp [getA] at this⟩

/-! ## iptables: loading the printed file -/

/-- Whatever the device holds, loading the file of `getIPTablesConfig` gives every table of the
target exactly the target's chains (sorted by name), policies and rule lines in order, and leaves
every other table as it was. -/
theorem iptables_replace_converges_partial (tb : Tables) (st : KState)
    (hc : ∀ t cm, getA t tb = some cm → (keysA cm).Nodup) :
    ∃ st', restore st ((getIPTablesConfig tb).map toRLn) = some st' ∧
      (∀ t cm, getA t tb = some cm → st'.get t = some (expTable t cm)) ∧
      (∀ t, getA t tb = none → st'.get t = st.get t) :=
  restore_target tb st hc

/-- The hypothesis holds for every target the parser accepts (Go maps have distinct keys): for any
file text, if `parseIPTables` accepts it, loading the printed file replaces the target's tables exactly. -/
theorem iptables_replace_converges_parsed (lines : List Str) (tb : Tables) (st : KState)
    (hp : parseIPTables lines = .ok tb) :
    ∃ st', restore st ((getIPTablesConfig tb).map toRLn) = some st' ∧
      (∀ t cm, getA t tb = some cm → st'.get t = some (expTable t cm)) ∧
      (∀ t, getA t tb = none → st'.get t = st.get t) :=
  restore_target tb st (parseIPTables_wft lines tb hp).2

/-- **The start-up file at boot.**  `/etc/network/packet-filter` holds the same lines; at boot the kernel
is empty, so after `iptables-restore` of that file the kernel holds the target's tables exactly and NO other
table (what `Spec.bootIptOracle` tests on the file the real code copied to the simulated host). -/
theorem startup_iptables_file_boots_target (lines : List Str) (tb : Tables)
    (hp : parseIPTables lines = .ok tb) :
    ∃ st', restore [] ((getIPTablesConfig tb).map toRLn) = some st' ∧
      (∀ t cm, getA t tb = some cm → st'.get t = some (expTable t cm)) ∧
      (∀ t, getA t tb = none → st'.get t = none) := by
  obtain ⟨st', h1, h2, h3⟩ := iptables_replace_converges_parsed lines tb [] hp
  exact ⟨st', h1, h2, fun t ht => by rw [h3 t ht]; rfl⟩

/-- Hence "the device then holds exactly the target" is false as soon as the device has a table
that the target does not name: it survives. -/
theorem iptables_replace_converges_counterexample :
    ∃ (tb : Tables) (st st' : KState), restore st ((getIPTablesConfig tb).map toRLn) = some st' ∧
      getA (s "mangle") tb = none ∧ (st'.get (s "mangle")).isSome = true :=
  ⟨[(s "filter", [(s "INPUT", { policy := s "DROP" })])],
   [⟨s "mangle", [⟨s "PREROUTING", s "ACCEPT", []⟩]⟩], _, rfl, by decide, by decide⟩

/-! ## iptables: normalisation -/

/-- On a stable map (every value a fixed point of the per-key rewriting, no convertible
`--set-xmark`, surviving `-m` differs from the protocol) normalisation changes nothing; in
particular `normalize (normalize p) ≈ normalize p` whenever `normalize p` is stable. -/
theorem normalize_idempotent_partial (p : Pairs) (h : Stable (normalize p)) :
    PairsEq (normalize (normalize p)) (normalize p) := normalize_of_stable _ h

/-- The hypothesis is discharged from the counted predicate: for every rule with `RuleOK` the normal
form of what the kernel prints is stable … -/
theorem normalize_stable_of_ruleOK (cfg : KCfg) (r : ARule) (H : RuleOK cfg r) :
    Stable (normalize (pairsOf (kernelOpts cfg r) [])) :=
  ruleOK_stable cfg r H

/-- … so `normalizeIPTables` is idempotent on everything the class admits (the device's spelling, and
through `normalize_complete` the target's normal form as well, up to map equality). -/
theorem normalize_idempotent (cfg : KCfg) (r : ARule) (H : RuleOK cfg r) :
    PairsEq (normalize (normalize (pairsOf (kernelOpts cfg r) []))) (normalize (pairsOf (kernelOpts cfg r) [])) :=
  normalize_idempotent_ruleOK cfg r H

/-- `strconv.ParseInt(strconv.FormatInt(i, 10), 0, 32)` gives `i` back for every 32-bit integer (the
step that makes a decimal mark a fixed point of the rewriting). -/
theorem parseInt_formatInt (i : Int) (hlo : -2147483648 ≤ i) (hhi : i < 2147483648) :
    parseInt32 (intToStr i) = some i :=
  parseInt32_intToStr i hlo hhi

/-- In general normalisation is not idempotent: `-p VRRP -m 112` keeps `-m` in the first pass
(`112` ≠ `VRRP`) and drops it in the second (`-p` is `112` by then). -/
theorem normalize_idempotent_counterexample :
    ∃ p : Pairs, normalize (normalize p) ≠ normalize p ∧ ¬ PairsEq (normalize (normalize p)) (normalize p) := by
  refine ⟨[(s "-p", s "VRRP"), (s "-m", s "112")], by decide, ?_⟩
  intro h
  exact absurd (h (s "-m")) (by decide)

/-- What equal normal forms imply for two option maps: on every key other than `-m`, `--set-mark`
and `--set-xmark`, the values agree up to the per-key rewriting. -/
theorem normalize_sound_partial (p q : Pairs) (h : PairsEq (normalize p) (normalize q)) (k : Str)
    (hk : k ≠ kM ∧ k ≠ kMark ∧ k ≠ kXmark) :
    (getA k p).map (normVal k) = (getA k q).map (normVal k) := by
  have := h k
  rw [getA_normalize, getA_normalize] at this
  obtain ⟨h1, h2, h3⟩ := hk
  cases hp : xConv p <;> cases hq : xConv q <;> simpa [hp, hq, h1, h2, h3] using this

/-- Equal option maps do not mean equal rules: the map keeps only the last value of a repeated key. -/
theorem normalize_sound_counterexample :
    ∃ w1 w2 : List Str, w1.length ≠ w2.length ∧ parsePairs w1 = parsePairs w2 :=
  ⟨[s "-m", s "state", s "-m", s "tcp"], [s "-m", s "tcp"], by decide, by decide⟩

/-! ## iptables: the round trip target → device → iptables-save → compare -/

theorem kernelOpts_ok (cfg : KCfg) (r : ARule) (hwf : ∀ a ∈ r, a.wf = true) : ∀ o ∈ kernelOpts cfg r, OptOK o := by
  intro o ho
  rcases (mem_kernelOpts cfg r o).mp ho with ⟨a, ha, _, e⟩ | ⟨p, hp, _, e⟩
  · rw [e]; exact kernel_ok cfg a (hwf a ha)
  · obtain ⟨P, u, num, hP, hk⟩ := protoOf_mem cfg r p hp
    rw [e]
    exact optOK_mk _ _ _ (by decide) (hk ▸ (proto_isArg cfg .no P u num (hwf _ hP)).2)

/-- For every rule of the grammar whose option keys are distinct in both spellings (`RuleOK`), what
`iptables-save` prints for the rule and what the target says parse and normalise to the same option
map — for both ways the device may print protocols 112 and 58. -/
theorem kernel_roundtrip_partial (cfg : KCfg) (r : ARule) (H : RuleOK cfg r) :
    ∃ pk pu, parsePairs (kernelWords cfg r) = some pk ∧ parsePairs (userWords r) = some pu ∧
      PairsEq (normalize pk) (normalize pu) := by
  refine ⟨_, _, parsePairs_words _ (kernelOpts_ok cfg r H.wf), parsePairs_words _ ?_, rule_roundtrip cfg r H⟩
  intro o ho
  obtain ⟨a, ha, e⟩ := List.mem_map.mp ho
  rw [← e]; exact user_ok a (H.wf a ha)

/-- … so the second compare finds no difference in that rule. -/
theorem kernel_roundtrip_no_diff (cfg : KCfg) (r : ARule) (H : RuleOK cfg r) (t c : Str) (i : Nat) :
    ∃ pk pu, parsePairs (kernelWords cfg r) = some pk ∧ parsePairs (userWords r) = some pu ∧
      diffRule t c i (normalize pk) (normalize pu) = .same := by
  have hku := kernelOpts_ok cfg r H.wf
  have huu : ∀ o ∈ userOpts r, OptOK o := by
    intro o ho
    obtain ⟨a, ha, e⟩ := List.mem_map.mp ho
    rw [← e]; exact user_ok a (H.wf a ha)
  exact ⟨_, _, parsePairs_words _ hku, parsePairs_words _ huu,
    (diffRule_same t c i _ _ (normalize_pairsOf_NE _ hku) (normalize_pairsOf_NE _ huu)).mpr (rule_roundtrip cfg r H)⟩

def exStateFirst : ARule :=
  [.mExplicit (s "state"), .state [.new], .proto .no .tcp false false, .dport (.one (s "22")) 0 false, .jump (s "ACCEPT")]

/-- Without distinct keys the round trip fails: `-m state --state NEW -p tcp --dport 22 -j ACCEPT` is
printed as `-p tcp -m state --state NEW -m tcp --dport 22 -j ACCEPT`; the map of the device keeps the
last `-m` (`tcp`, dropped as protocol match), the target's map keeps `-m state`. -/
theorem kernel_roundtrip_counterexample :
    ∃ (cfg : KCfg) (r : ARule) (pk pu : Pairs), (∀ a ∈ r, a.wf = true) ∧
      parsePairs (kernelWords cfg r) = some pk ∧ parsePairs (userWords r) = some pu ∧
      getA (s "-m") (normalize pk) ≠ getA (s "-m") (normalize pu) :=
  ⟨{}, exStateFirst, _, _, by decide, rfl, rfl, by decide⟩

/-- A mark with a mask other than the default is outside the grammar (`AOpt.wf`) for a reason: the
kernel prints `--set-mark 0x10/0xf0` as `--set-xmark 0x10/0xf0`, which the code neither renames nor
rewrites; the device's map has `--set-xmark`, the target's `--set-mark` (F-C05k). -/
theorem kernel_roundtrip_mask_counterexample :
    ∃ (cfg : KCfg) (r : ARule) (pk pu : Pairs),
      parsePairs (kernelWords cfg r) = some pk ∧ parsePairs (userWords r) = some pu ∧
      getA (s "--set-mark") (normalize pk) ≠ getA (s "--set-mark") (normalize pu) :=
  ⟨{}, [.jump (s "MARK"), .setMark (s "10") (s "f0") false (s "0x10/0xf0")], _, _, rfl, rfl, by decide⟩

/-- Example (not an obligation; the general statement is `opt_roundtrip` for every `.syn n f`): an
un-negated `--syn`, which the kernel prints as `--tcp-flags FIN,SYN,RST,ACK SYN`, is inside the class
since the repair of F-C05s. -/
example : RuleOK {} [.jump (s "ACCEPT"), .proto .no .tcp false false, .syn false false] := by decide

/-! ## iptables: the whole table, at the text level -/

/-- **Whole-table idempotence** (`table_idempotent`): for every target inside the class and every
device state — the code reads the target text; loading the file it prints succeeds; the device then
holds exactly the target's chains (name order), policies and rules for the target's tables and
leaves every other table alone; and what such a device prints (`iptables-save`: comment lines,
`[0:0]` counters, kernel spelling) is read by the code to a rule set without any difference to
the target. -/
theorem iptables_table_idempotent (cfg : KCfg) (a : AState) (h : AStateOK cfg a) (st : KState) :
    ∃ tb tb' st',
      parseIPTables (userText a) = .ok tb ∧
      restore st ((getIPTablesConfig tb).map toRLn) = some st' ∧
      (∀ tbl ∈ a, st'.get tbl.name = some (kTableOf userWords (sortT tbl))) ∧
      (∀ t, (∀ tbl ∈ a, tbl.name ≠ t) → st'.get t = st.get t) ∧
      parseIPTables (saveText cfg (sortS a)) = .ok tb' ∧
      diffIPTables tb' tb = .same :=
  table_idempotent cfg a h st

/-- The parser on the text of a rule set gives an explicitly known value (`mkTables`), in either
spelling, with or without counters and comment lines. -/
theorem iptables_parse_text (cfg : KCfg) (a : AState) (h : AStateOK cfg a) :
    parseIPTables (userText a) = .ok (mkTables userOpts a) ∧
    parseIPTables (saveText cfg a) = .ok (mkTables (kernelOpts cfg) a) := by
  constructor
  · have := parse_file [] (by simp) userOpts a (stateOK_of cfg a h userOpts (spell_user cfg)) [] [] (by simp) (by simp)
    rw [userText_eq]; simpa using this
  · rw [saveText_eq]
    exact parse_file [s "[0:0]"] (by intro x hx; simp at hx; rw [hx]; decide) (kernelOpts cfg) a
      (stateOK_of cfg a h (kernelOpts cfg) (spell_kernel cfg)) _ _
      (by intro x hx; simp at hx; rw [hx]
          exact Or.inl ⟨(s "# Generated by iptables-save v1.8.7 on Tue Sep 30 00:00:00 2026").tail, by decide⟩)
      (by intro x hx; simp at hx; rw [hx]
          exact Or.inl ⟨(s "# Completed on Tue Sep 30 00:00:00 2026").tail, by decide⟩)

/-! ## non-vacuity: the hypotheses are satisfiable on non-trivial values -/

def exA : List Route :=
  [⟨s "10.20.0.0", 16, s "10.1.2.3", s "ip route add 10.20.0.0/16 via 10.1.2.3"⟩,
   ⟨s "10.30.0.0", 16, s "10.1.2.3", s "ip route add 10.30.0.0/16 via 10.1.2.3"⟩,
   ⟨s "0.0.0.0", 0, s "10.1.2.5", s "ip route add default via 10.1.2.5"⟩]
def exB : List Route :=
  [⟨s "10.10.0.0", 16, s "10.1.2.3", s "ip route add 10.10.0.0/16 via 10.1.2.3"⟩,
   ⟨s "10.20.0.0", 16, s "10.1.2.3", s "ip route add 10.20.0.0/16 via 10.1.2.3"⟩,
   ⟨s "0.0.0.0", 0, s "10.1.2.6", s "ip route add 0.0.0.0/0 via 10.1.2.6"⟩]
example : (keys exA).Nodup ∧ (keys exB).Nodup := by decide
example : (diffRoutes exA exB).length = 3 := by decide

def exRule : ARule :=
  [.jump (s "MARK"), .setMark (s "f") (s "ffffffff") true (s "0X0F/0XFFFFFFFF"), .proto .before .tcp true false,
   .src .after (s "10.1.1.1") (s "32") false]
def exRule2 : ARule :=
  [.proto .no .udp true false, .sport (.range (s "0") (s "1023")) 2 true, .dport (.range (s "1024") (s "65535")) 0 true,
   .mExplicit (s "UDP"), .goto (s "c2")]
def exRule3 : ARule :=
  [.jump (s "ACCEPT"), .mExplicit (s "state"), .state [.related, .established]]

example : RuleOK {} exRule := by decide
example : RuleOK { protoNames := false } exRule2 := by decide
example : RuleOK {} exRule3 := by decide
example : Stable (normalize [(s "-s", s "10.1.1.1/32"), (s "-p", s "TCP"), (s "-m", s "tcp"), (s "--dport", s "0:1023")]) := by
  decide

/-! ## the device path (`LoadDevice`): whole outputs of `ip route show` and `iptables-save` -/

/-- `getDeviceRoutes` reads the whole output of `ip route show` for any table of static routes back to
exactly the table. -/
theorem device_routes_roundtrip (l : List RouteEntry) (h : ∀ e ∈ l, e.ok) :
    ∃ rs, deviceRoutes (unlines (l.map RouteEntry.show)) = .ok rs ∧ rs.map Route.key = l.map RouteEntry.key :=
  deviceRoutes_show l h

/-- `getDeviceIPTables` reads the whole output of `iptables-save` (comment lines — ignored since the
repair of F-C05c —, counters, final newline) to the explicitly known rule set. -/
theorem device_iptables_parse (cfg : KCfg) (a : AState) (h : AStateOK cfg a) :
    deviceIPTables (unlines (saveText cfg a)) = .ok (mkTables (kernelOpts cfg) a) :=
  deviceIPTables_save cfg a h

/-- The second compare on the device path finds nothing: a device that holds the target's rule set
and exactly the target's routes is read by `LoadDevice` without error and `diffConfig` yields no
route command and no iptables difference. -/
theorem device_second_compare_empty (cfg : KCfg) (a : AState) (h : AStateOK cfg a) (l : List RouteEntry)
    (hl : ∀ e ∈ l, e.ok) (b : List Route) (hb : ∀ k, k ∈ l.map RouteEntry.key ↔ k ∈ keys b) :
    ∃ dc, loadDevice (unlines (saveText cfg (sortS a))) (unlines (l.map RouteEntry.show)) = .ok dc ∧
      (diffConfig dc { routes := b, iptables := mkTables userOpts a }).routes = [] ∧
      (diffConfig dc { routes := b, iptables := mkTables userOpts a }).ipt = .same :=
  device_compare_unchanged cfg a h l hl b hb

/-- **`ParseConfig` on the whole target file**: split at newlines, trim, drop empty and comment lines,
route lines to `parseRoutes`, the rest to `parseIPTables` — for any file of clean lines … -/
theorem parseConfig_whole_file (L : List Str) (h : ∀ x ∈ L, LineOK x) :
    parseConfig (unlines L) = (do
      let routes ← parseRoutes (L.filter isRouteLine)
      let tb ← parseIPTables (L.filter fun l => !isRouteLine l)
      pure { routes := routes, iptables := tb }) :=
  parseConfig_lines L h

/-- … and for a target file made of route lines and the text of a rule set inside the class the result
is exactly `{ routes, iptables := mkTables userOpts a }`. -/
theorem parseConfig_target_file (cfg : KCfg) (a : AState) (h : AStateOK cfg a) (rl : List Str) (b : List Route)
    (hrl : ∀ x ∈ rl, LineOK x ∧ isRouteLine x = true) (hb : parseRoutes rl = .ok b) :
    parseConfig (unlines (rl ++ userText a)) = .ok { routes := b, iptables := mkTables userOpts a } :=
  parseConfig_target cfg a h rl b hrl hb

/-- The second compare on the device path from the three raw texts (target file, `iptables-save`,
`ip route show`): no route command, no iptables difference. -/
theorem device_second_compare_empty_text (cfg : KCfg) (a : AState) (h : AStateOK cfg a) (l : List RouteEntry)
    (hl : ∀ e ∈ l, e.ok) (rl : List Str) (b : List Route)
    (hrl : ∀ x ∈ rl, LineOK x ∧ isRouteLine x = true) (hb : parseRoutes rl = .ok b)
    (hk : ∀ k, k ∈ l.map RouteEntry.key ↔ k ∈ keys b) :
    ∃ ch, compareDevice (unlines (saveText cfg (sortS a))) (unlines (l.map RouteEntry.show))
        (unlines (rl ++ userText a)) = .ok ch ∧ ch.routes = [] ∧ ch.ipt = .same :=
  compareDevice_unchanged cfg a h l hl rl b hrl hb hk

example : LineOK (s "ip route add 10.1.11.0/24 via 10.10.1.6") ∧ isRouteLine (s "ip route add 10.1.11.0/24 via 10.10.1.6") = true :=
  ⟨⟨by decide, by decide, ⟨'i', rfl, by decide⟩⟩, by decide⟩

/-- Before the repair of F-C05c the first line of every real `iptables-save` output made the device
path abort: the old parser (no case for `#`) fell into `Unknown command`.  Witness for the model
of the repaired code: the comment line is skipped. -/
theorem device_comment_line_skipped :
    parseIPTables [s "# Generated by iptables-save v1.8.7 on Tue Sep 30 00:00:00 2026", s "*filter", s ":INPUT DROP [0:0]", s "COMMIT"] =
      .ok [(s "filter", [(s "INPUT", { policy := s "DROP" })])] := by rfl

example : (⟨s "10.1.11.0", 24, s "10.10.1.6", some (s "eth0")⟩ : RouteEntry).ok := by
  refine ⟨by decide, by decide, by decide, ?_⟩
  intro d hd; cases hd; decide

/-! ## rule-level soundness and completeness of the normal form -/

/-- **normalize_sound** at rule level: two rules of the grammar whose target texts give equal option
maps after normalisation have the same meaning (`semEqRule`: the same set of option meanings — match
set and target; `-m <own protocol>` means nothing, a mark means its number).  Proved over the option
lists of both rules (membership-wise), for all rules satisfying `RuleOK`. -/
theorem normalize_sound (cfg : KCfg) (r1 r2 : ARule) (H1 : RuleOK cfg r1) (H2 : RuleOK cfg r2)
    (h : PairsEq (normalize (pairsOf (userOpts r1) [])) (normalize (pairsOf (userOpts r2) []))) :
    semEqRule cfg r1 r2 = true :=
  normalize_sound_rule cfg r1 r2 H1 H2 h

/-- **normalize_complete** for the kernel's respelling: what the kernel prints for a rule normalises
to the same option map as the rule's target text. -/
theorem normalize_complete (cfg : KCfg) (r : ARule) (H : RuleOK cfg r) :
    PairsEq (normalize (pairsOf (kernelOpts cfg r) [])) (normalize (pairsOf (userOpts r) [])) :=
  rule_roundtrip cfg r H

/-- Normalisation is injective on what the kernel prints for well formed options: equal normalised
entries, equal meaning (addresses, protocols, port ranges, state sets, marks, …). -/
theorem normalize_injective_on_kernel (cfg : KCfg) (a1 a2 : AOpt) (w1 : a1.wf = true) (w2 : a2.wf = true)
    (hk : nk a1 = nk a2) (hv : nv cfg a1 = nv cfg a2) : semEntry cfg a1 = semEntry cfg a2 :=
  kentry_inj cfg a1 a2 w1 w2 hk hv

/-- **No change is reported only for an equivalent device**, at the text level: what a device inside
the class prints and a target inside the class are both read by the code, and if `diffIPTables`
finds nothing, device and target are equivalent (same tables and chains, equal policies, rule by
rule the same meaning). -/
theorem iptables_same_only_if_equivalent (cfg : KCfg) (dev tgt : AState) (hd : AStateOK cfg dev)
    (ht : AStateOK cfg tgt) :
    ∃ tb' tb, parseIPTables (saveText cfg dev) = .ok tb' ∧ parseIPTables (userText tgt) = .ok tb ∧
      (diffIPTables tb' tb = .same → semEq cfg dev tgt = true) :=
  ⟨_, _, (iptables_parse_text cfg dev hd).2, (iptables_parse_text cfg tgt ht).1,
    same_only_if_equiv cfg dev tgt hd ht⟩

example : semEqRule {} exRule exRule = true ∧
    semEqRule {} [.jump (s "ACCEPT"), .dport (.one (s "22")) 0 false, .proto .no .tcp false false]
      [.jump (s "ACCEPT"), .dport (.one (s "23")) 0 false, .proto .no .tcp false false] = false := by decide

example : (execLine (keys exA) ((((diffRoutes exA exB).map cmdsOf).flatten).take 2)).isSome = true := by decide

/-- **linux_resume — interrupted approve for the whole Linux device, any cut position (C10).**
The approve is the list of its steps: every single `ip route` command, then — if the compare found a
difference — copy of the restore file, its load (atomic) and the move to the start-up file, then the
copy of the start-up routing file.  Cut it behind ANY number `k` of steps (also inside a joined
route packet, before or behind the load, between the two start-up copies).  For every target the
parser accepts (`tb`), every device state and both outcomes of the first compare:
every executed step succeeded, the kernel route table is still a set, the rule sets are untouched or
exactly loaded.  Any second approve from there (any reading of the routes, either outcome `c2` of its
compare) runs to the end, ends in exactly the target's routes, and if it loads (`c2`), every table of
the target holds exactly the target's chains, policies and rules; otherwise the rule sets stay as
the cut left them (untouched — then the compare said "equal", see `iptables_same_only_if_equivalent`
— or already loaded). -/
theorem linux_resume (a b : List Route) (ha : (keys a).Nodup) (lines : List Str) (tb : Tables)
    (hp : parseIPTables lines = .ok tb) (d0 : LDev) (h0 : d0.routes = keys a) (c1 : Bool) (k : Nat) :
    ∃ d1, runSteps ((getIPTablesConfig tb).map toRLn) d0 ((planSteps ((diffRoutes a b).map cmdsOf) c1).take k) = some d1 ∧
      d1.routes.Nodup ∧
      (d1.ipt = d0.ipt ∨ ∀ t cm, getA t tb = some cm → d1.ipt.get t = some (expTable t cm)) ∧
      ∀ (a' : List Route) (c2 : Bool), keys a' = d1.routes →
        ∃ d2, runSteps ((getIPTablesConfig tb).map toRLn) d1 (planSteps ((diffRoutes a' b).map cmdsOf) c2) = some d2 ∧
          d2.routes.Nodup ∧ (∀ x, x ∈ d2.routes ↔ x ∈ keys b) ∧
          (c2 = true → (∀ t cm, getA t tb = some cm → d2.ipt.get t = some (expTable t cm)) ∧ d2.bootIpt = true) ∧
          (c2 = false → d2.ipt = d1.ipt) := by
  have hwf := (parseIPTables_wft lines tb hp).2
  have hfile : ∀ st, ∃ st', restore st ((getIPTablesConfig tb).map toRLn) = some st' := by
    intro st; obtain ⟨st', h, _⟩ := restore_target tb st hwf; exact ⟨st', h⟩
  have hexact : ∀ u st', restore u ((getIPTablesConfig tb).map toRLn) = some st' →
      ∀ t cm, getA t tb = some cm → st'.get t = some (expTable t cm) := by
    intro u st' h
    obtain ⟨st'', h', hx, _⟩ := restore_target tb u hwf
    rw [h] at h'; injection h' with h'; subst h'; exact hx
  obtain ⟨d1, h1, h2, h3, h4⟩ := resume_steps a b ha _ hfile d0 h0 c1 k
  refine ⟨d1, h1, h2, ?_, ?_⟩
  · rcases h3 with h3 | ⟨u, hu⟩
    · left; exact h3
    · right; exact hexact u _ hu
  · intro a' c2 hk
    obtain ⟨d2, g1, g2, g3, g4, g5⟩ := h4 a' c2 hk
    exact ⟨d2, g1, g2, g3, fun hc => ⟨hexact _ _ (g4 hc).1, (g4 hc).2⟩, g5⟩

/-- What the resumed approve does NOT repair (F-C10l, known): the start-up files.  Cut behind the load but
before the move: the new rule set is running, so the second compare finds no difference (`c2 = false`),
nothing is loaded or moved, and `/etc/network/packet-filter` still holds the OLD rules.  Cut behind the last
route command: the second approve has no route command, so `/etc/network/routing` is never written. -/
theorem linux_resume_startup_counterexample :
    (∃ d1 d2, runSteps [] ⟨[], [], false, false⟩ ((planSteps [] true).take 2) = some d1 ∧
      runSteps [] d1 (planSteps [] false) = some d2 ∧ d2.bootIpt = false) ∧
    (∃ d1 d2, runSteps [] ⟨[], [], false, false⟩ ((planSteps [[.add (s "10.1.1.0", 24, s "10.9.9.9")]] false).take 1) = some d1 ∧
      d1.routes = [(s "10.1.1.0", 24, s "10.9.9.9")] ∧
      runSteps [] d1 (planSteps [] false) = some d2 ∧ d2.bootRt = false) :=
  ⟨⟨_, _, rfl, rfl, rfl⟩, ⟨_, _, rfl, rfl, rfl, rfl⟩⟩

example : (planSteps ((diffRoutes exA exB).map cmdsOf) true).length = 8 := by decide

def exState : AState :=
  [{ name := s "filter", chains := [
      { name := s "c1", policy := s "-", rules := [exRule3] },
      { name := s "INPUT", policy := s "DROP", rules := [exRule, exRule2] }] }]

example : AStateOK { protoNames := false } exState :=
  ⟨by decide, by decide, by decide, by decide, by decide⟩

/-- **F-C05n.**  The per-key rewriting works on the value text INCLUDING the leading `!` of a negated option:
zeros behind the `!` are not trimmed, the protocol names are not recognised, the state list is sorted with the
`!` glued to its first element.  Each pair below means the same (`Spec.semCompare … = "eq"`, the specification
reading the meaning from the text) and has different normal forms, so the compare reports a change for ever;
without the negation the same pairs have equal normal forms. -/
theorem normalize_negated_value_counterexample :
    (normVal (s "--dport") (s "!0:1023") ≠ normVal (s "--dport") (s "!:1023") ∧
      normVal (s "--dport") (s "0:1023") = normVal (s "--dport") (s ":1023") ∧
      Spec.semCompare (s "-p tcp -m tcp ! --dport 0:1023 -j ACCEPT") (s "-p tcp ! --dport :1023 -j ACCEPT") = s "eq") ∧
    (normVal (s "-p") (s "!58") ≠ normVal (s "-p") (s "!ipv6-icmp") ∧
      normVal (s "-p") (s "58") = normVal (s "-p") (s "ipv6-icmp") ∧
      Spec.semCompare (s "! -p 58 -j c1") (s "-p ! IPv6-ICMP -j c1") = s "eq") ∧
    (normVal (s "--state") (s "!NEW,ESTABLISHED") ≠ normVal (s "--state") (s "!ESTABLISHED,NEW") ∧
      normVal (s "--state") (s "NEW,ESTABLISHED") = normVal (s "--state") (s "ESTABLISHED,NEW") ∧
      Spec.semCompare (s "-m state ! --state NEW,ESTABLISHED -j ACCEPT") (s "-m state ! --state ESTABLISHED,NEW -j ACCEPT") = s "eq") := by
  decide

/-- The unchanged code keeps a negated range apart from the plain one, whatever the spelling of the upper bound
(the seeded change C05-Y1 made `!1024:65535` and `1024:` equal). -/
example : normVal (s "--dport") (s "!1024:65535") = normVal (s "--dport") (s "!1024:") ∧
    normVal (s "--dport") (s "!1024:65535") ≠ normVal (s "--dport") (s "1024:") := by decide

def obligations : List Lean.Name := [
  ``linux_routes_converge, ``linux_routes_converge_unrepaired_counterexample,
  ``linux_routes_one_hop_per_dst, ``routes_covered_linux, ``linux_addresses_stay_routed, ``linux_addresses_stay_routed_prefix, ``linux_routes_kernel_strict,
  ``iptables_diff_iff_partial, ``iptables_diff_iff_counterexample,
  ``iptables_replace_converges_partial, ``iptables_replace_converges_parsed, ``startup_iptables_file_boots_target, ``iptables_replace_converges_counterexample,
  ``normalize_idempotent_partial, ``normalize_idempotent_counterexample, ``normalize_negated_value_counterexample,
  ``normalize_sound_partial, ``normalize_sound_counterexample,
  ``kernel_roundtrip_partial, ``kernel_roundtrip_no_diff,
  ``kernel_roundtrip_counterexample, ``kernel_roundtrip_mask_counterexample,
  ``opt_roundtrip, ``parsePairs_words, ``getA_normalize,
  ``linux_routes_resume, ``linux_routes_resume_cmds, ``linux_resume, ``linux_resume_startup_counterexample, ``route_show_roundtrip, ``iptables_table_idempotent, ``iptables_parse_text,
  ``device_routes_roundtrip, ``device_iptables_parse, ``device_second_compare_empty, ``device_comment_line_skipped,
  ``normalize_stable_of_ruleOK, ``normalize_idempotent, ``parseInt_formatInt,
  ``parseConfig_whole_file, ``parseConfig_target_file, ``device_second_compare_empty_text,
  ``normalize_sound, ``normalize_complete, ``normalize_injective_on_kernel, ``iptables_same_only_if_equivalent]

end NA.C05
