import NA.Model.Linux
import NA.Spec.Linux
namespace NA.C05
open NA.Linux

theorem placeholder_a : normalize [] = [] := by decide
theorem placeholder_b : diffIPTables [] [] = .same := by decide
theorem placeholder_c : diffRoutes [] [] = [] := by decide

def obligations : List Lean.Name := [``placeholder_a, ``placeholder_b, ``placeholder_c]
end NA.C05
