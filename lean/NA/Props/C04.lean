import NA.Proofs.C04Policy
/-!
# C04 — NSX approve converges to the Netspoc-equivalent gateway policies
(and the NSX theorems of C07 / C08 / C10, names prefixed `nsx_`)

Property theorems only.  `plan diff A B` is the model of `diffConfig` (tied to /repo by the
harness on every run), `exec` / `run` the strict object store of `NA/Spec/NsxStore.lean`.
Every theorem quantifies over ALL edit-script functions `diff` that return valid scripts
(`validScript`, checked dynamically for the Myers port and, through the correspondence, for the
library the code uses).
-/
namespace NA.Nsx

/-- Group equalisation, all three branches (PATCH of the whole expression when `n < d`,
POST remove / POST add of single addresses, no call): for every valid edit script between the
two address lists the emitted calls are accepted by the strict manager and leave the device
group with exactly the target's address set; policies, services and all other groups are
untouched. -/
theorem nsx_group_equalize_converges (diff : Diff)
    (hdiff : ∀ n m eq, validScript n m eq (diff n m eq) = true)
    (S : Store) (ga gb : Group) (hfind : findGroup S.groups ga.id = some ga)
    (hna : ga.addrs.Nodup) (hnb : gb.addrs.Nodup) :
    ∃ S' f, run S (groupCalls diff ga gb) = some S' ∧
      S'.policies = S.policies ∧ S'.services = S.services ∧
      S'.groups = setGroupAddrs S.groups ga.id f ∧
      (∀ g, (f g).id = g.id ∧ (f g).exprId = g.exprId) ∧
      ∀ x, x ∈ (f ga).addrs ↔ x ∈ gb.addrs :=
  groupCalls_converges diff hdiff S ga gb hfind hna hnb

/-! Non-vacuity: a valid `diff` exists, and the three branches are reached. -/
example : ∃ diff : Diff, ∀ n m eq, validScript n m eq (diff n m eq) = true := ⟨trivialDiff, trivialDiff_valid⟩
example : groupCalls trivialDiff ⟨"g", "id", "t", ["1", "2", "3"]⟩ ⟨"h", "id", "t", ["1", "2"]⟩ =
    [.patchExpr "g" "id" "t" ["1", "2"]] := by decide
example : groupCalls trivialDiff ⟨"g", "id", "t", ["1", "2"]⟩ ⟨"h", "id", "t", ["2", "3"]⟩ =
    [.postAddrs "g" "id" false ["1", "2"], .postAddrs "g" "id" true ["2", "3"]] := by decide
example : groupCalls trivialDiff ⟨"g", "id", "t", []⟩ ⟨"h", "id", "t", []⟩ = [] := by decide

/-- Rules of one policy present on both sides (`diffRules`: unique names, `sortRules`, the
group-insensitive `Equal`, any valid edit script, `adaptGroup` / `findGroupOnDevice` /
`equalizeGroups`): from every state that satisfies the group invariant `GInv`, every emitted call
(DELETE / PUT / PATCH of rules, PUT of groups, POST / PATCH of address expressions) is accepted
by the strict manager, the invariant is kept, only this policy and the groups change, and
afterwards the policy holds — up to the order of listing — exactly one rule per target rule,
with the same attributes and service and with every group entry naming a group that carries the
target group's address set. -/
theorem nsx_rules_converge {ctx : Ctx} {G0 : List Group} (hc : CtxOK ctx G0)
    (hdiff : ∀ n m eq, validScript n m eq (ctx.diff n m eq) = true)
    (S : Store) (st : PSt) (pa pb p0 : Policy) (hinv : GInv ctx G0 S.groups st)
    (hpol : findPolicy S.policies pa.id = some p0) (hp0 : p0.rules = pa.rules)
    (haids : (rids pa.rules).Nodup) (hbids : (rids pb.rules).Nodup)
    (haRefs : ∀ ra ∈ pa.rules, refsOk S ra = true ∧ AExt ctx ra)
    (hbRefs : ∀ rb ∈ pb.rules, BRefs ctx S rb)
    (habort : (diffRules ctx st pa pb).1.abort = none) :
    ∃ S' L B bR, run S (diffRules ctx st pa pb).2 = some S' ∧
      GInv ctx G0 S'.groups (diffRules ctx st pa pb).1 ∧ Mono st (diffRules ctx st pa pb).1 ∧
      StepFrame pa.id S S' ∧
      (∃ p', findPolicy S'.policies pa.id = some p' ∧ p'.rules.Perm L) ∧
      Forall2 (RuleReal ctx (diffRules ctx st pa pb).1.nod) L B ∧ B.Perm bR ∧ Forall2 SameButId bR pb.rules :=
  diffRules_spec hc hdiff S st pa pb p0 hinv hpol hp0 haids hbids haRefs hbRefs habort

/-- A target policy the manager does not have (`createPolicy`). -/
theorem nsx_create_policy_converges {ctx : Ctx} {G0 : List Group} (hc : CtxOK ctx G0) (S : Store) (st : PSt)
    (pb : Policy) (hinv : GInv ctx G0 S.groups st) (hnew : hasPolicy S pb.id = false)
    (hbids : (rids pb.rules).Nodup) (hbRefs : ∀ rb ∈ pb.rules, BRefs ctx S rb) :
    ∃ S' L, run S (createPolicy ctx st pb).2 = some S' ∧
      GInv ctx G0 S'.groups (createPolicy ctx st pb).1 ∧ Mono st (createPolicy ctx st pb).1 ∧
      S'.services = S.services ∧ S'.policies = S.policies ++ [⟨pb.id, L⟩] ∧ GroupsLE S S' ∧
      Forall2 (RuleReal ctx (createPolicy ctx st pb).1.nod) L pb.rules :=
  createPolicy_spec hc S st pb hinv hnew hbids hbRefs

/-- Unique names (`genUniqRuleNames` / `genUniqGroupNames` after the repair f4446e1): the new
ids are pairwise distinct, differ from every device id, and each is an id of the target or was
unused. -/
theorem nsx_ids_unique (aIds ids out : List String) (h : renameIds aIds ids (aIds ++ ids) = some out)
    (hn : ids.Nodup) :
    out.length = ids.length ∧ out.Nodup ∧ (∀ x ∈ out, x ∉ aIds) ∧ (∀ x ∈ out, x ∈ ids ∨ x ∉ aIds ++ ids) :=
  renameIds_spec aIds ids (aIds ++ ids) out h (fun _ hx => List.mem_append.mpr (Or.inl hx))
    (fun _ hx => List.mem_append.mpr (Or.inr hx)) hn

/-- The unrepaired `genUniq*Names` (new name checked against the device names only) is refuted by
device rule `x`, target rules `x` and `x-1`: both would be sent as `x-1`. -/
def renameIdsOld (aIds : List String) (ids : List String) : List String :=
  ids.map fun id => if aIds.contains id then (freshId aIds id).getD id else id

theorem nsx_ids_unique_counterexample : ¬ (renameIdsOld ["x"] ["x", "x-1"]).Nodup := by decide

example : renameIds ["x"] ["x", "x-1"] (["x"] ++ ["x", "x-1"]) = some ["x-2", "x-1"] := by decide

def obligations : List Lean.Name := [``nsx_group_equalize_converges, ``nsx_rules_converge,
  ``nsx_create_policy_converges, ``nsx_ids_unique, ``nsx_ids_unique_counterexample,
  ``addrDiff_perm, ``stepItems_spec, ``walk_of_valid, ``adaptGroup_spec, ``equalize_spec]

end NA.Nsx
