import NA.Proofs.C04Addr
/-!
# C04 — NSX approve converges to the Netspoc-equivalent gateway policies
(and the NSX theorems of C07 / C08 / C10, names prefixed `nsx_`)

Property theorems only.  `plan diff A B` is the model of `diffConfig` (tied to /repo by the
harness on every run), `exec` / `run` the strict object store of `NA/Spec/NsxStore.lean`.
Every theorem quantifies over ALL edit-script functions `diff` that return valid scripts
(`validScript`, checked dynamically for the Myers port and, through the correspondence, for the
library the code uses).
-/
namespace NA.Nsx

/-- Group equalisation, all three branches (PATCH of the whole expression when `n < d`,
POST remove / POST add of single addresses, no call): for every valid edit script between the
two address lists the emitted calls are accepted by the strict manager and leave the device
group with exactly the target's address set; policies, services and all other groups are
untouched. -/
theorem nsx_group_equalize_converges (diff : Diff)
    (hdiff : ∀ n m eq, validScript n m eq (diff n m eq) = true)
    (S : Store) (ga gb : Group) (hfind : findGroup S.groups ga.id = some ga)
    (hna : ga.addrs.Nodup) (hnb : gb.addrs.Nodup) :
    ∃ S' f, run S (groupCalls diff ga gb) = some S' ∧
      S'.policies = S.policies ∧ S'.services = S.services ∧
      S'.groups = setGroupAddrs S.groups ga.id f ∧
      (∀ g, (f g).id = g.id ∧ (f g).exprId = g.exprId) ∧
      ∀ x, x ∈ (f ga).addrs ↔ x ∈ gb.addrs :=
  groupCalls_converges diff hdiff S ga gb hfind hna hnb

/-! Non-vacuity: a valid `diff` exists, and the three branches are reached. -/
example : ∃ diff : Diff, ∀ n m eq, validScript n m eq (diff n m eq) = true := ⟨trivialDiff, trivialDiff_valid⟩
example : groupCalls trivialDiff ⟨"g", "id", "t", ["1", "2", "3"]⟩ ⟨"h", "id", "t", ["1", "2"]⟩ =
    [.patchExpr "g" "id" "t" ["1", "2"]] := by decide
example : groupCalls trivialDiff ⟨"g", "id", "t", ["1", "2"]⟩ ⟨"h", "id", "t", ["2", "3"]⟩ =
    [.postAddrs "g" "id" false ["1", "2"], .postAddrs "g" "id" true ["2", "3"]] := by decide
example : groupCalls trivialDiff ⟨"g", "id", "t", []⟩ ⟨"h", "id", "t", []⟩ = [] := by decide

def obligations : List Lean.Name := [``nsx_group_equalize_converges, ``addrDiff_perm, ``validFrom_le]

end NA.Nsx
