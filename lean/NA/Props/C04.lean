import NA.Proofs.C04Idem2
import NA.Model.NsxSvc
/-!
# C04 — NSX approve converges to the Netspoc-equivalent gateway policies
(and the NSX theorems of C07 / C08 / C10, names prefixed `nsx_`)

Property theorems only.  `plan diff A B` is the model of `diffConfig` (tied to /repo by the
harness on every run), `exec` / `run` the strict object store of `NA/Spec/NsxStore.lean`.
Every theorem quantifies over ALL edit-script functions `diff` that return valid scripts
(`validScript`, checked dynamically for the Myers port and, through the correspondence, for the
library the code uses).
-/
namespace NA.Nsx

/-- Group equalisation, all three branches (PATCH of the whole expression when `n < d`,
POST remove / POST add of single addresses, no call; since the repair 271f0e7 the whole list is
PATCHed also when all old addresses would be removed, so the expression is never empty in
between — the strict manager refuses an empty expression): for every valid edit script between the
two address lists the emitted calls are accepted by the strict manager and leave the device
group with exactly the target's address set; policies, services and all other groups are
untouched. -/
theorem nsx_group_equalize_converges (diff : Diff)
    (hdiff : ∀ n m eq, validScript n m eq (diff n m eq) = true)
    (S : Store) (ga gb : Group) (hfind : findGroup S.groups ga.id = some ga)
    (hna : ga.addrs.Nodup) (hnb : gb.addrs.Nodup) (hbne : gb.addrs ≠ []) :
    ∃ S' f, run S (groupCalls diff ga gb) = some S' ∧
      S'.policies = S.policies ∧ S'.services = S.services ∧
      S'.groups = setGroupAddrs S.groups ga.id f ∧
      (∀ g, (f g).id = g.id ∧ (f g).exprId = g.exprId) ∧
      ∀ x, x ∈ (f ga).addrs ↔ x ∈ gb.addrs :=
  groupCalls_converges diff hdiff S ga gb hfind hna hnb hbne

/-! Non-vacuity: a valid `diff` exists, and the three branches are reached. -/
example : ∃ diff : Diff, ∀ n m eq, validScript n m eq (diff n m eq) = true := ⟨prefixDiff, prefixDiff_valid⟩
example : groupCalls trivialDiff ⟨"g", "id", "t", ["1", "2", "3"]⟩ ⟨"h", "id", "t", ["1", "2"]⟩ =
    [.patchExpr "g" "id" "t" ["1", "2"]] := by decide
example : groupCalls prefixDiff ⟨"g", "id", "t", ["1", "2"]⟩ ⟨"h", "id", "t", ["1", "3"]⟩ =
    [.postAddrs "g" "id" false ["2"], .postAddrs "g" "id" true ["3"]] := by decide
/-- all old addresses replaced: one PATCH, no transiently empty expression (repair 271f0e7) -/
example : groupCalls prefixDiff ⟨"g", "id", "t", ["1"]⟩ ⟨"h", "id", "t", ["3"]⟩ =
    [.patchExpr "g" "id" "t" ["3"]] := by decide
example : groupCalls trivialDiff ⟨"g", "id", "t", []⟩ ⟨"h", "id", "t", []⟩ = [] := by decide

/-- Rules of one policy present on both sides (`diffRules`: unique names, `sortRules`, the
group-insensitive `Equal`, any valid edit script, `adaptGroup` / `findGroupOnDevice` /
`equalizeGroups`): from every state that satisfies the group invariant `GInv`, every emitted call
(DELETE / PUT / PATCH of rules, PUT of groups, POST / PATCH of address expressions) is accepted
by the strict manager, the invariant is kept, only this policy and the groups change, and
afterwards the policy holds — up to the order of listing — exactly one rule per target rule,
with the same attributes and service and with every group entry naming a group that carries the
target group's address set. -/
theorem nsx_rules_converge {ctx : Ctx} {G0 : List Group} (hc : CtxOK ctx G0)
    (hdiff : ∀ n m eq, validScript n m eq (ctx.diff n m eq) = true)
    (S : Store) (st : PSt) (pa pb p0 : Policy) (hinv : GInv ctx G0 S.groups st)
    (hpol : findPolicy S.policies pa.id = some p0) (hp0 : p0.rules = pa.rules)
    (haids : (rids pa.rules).Nodup) (hbids : (rids pb.rules).Nodup)
    (haRefs : ∀ ra ∈ pa.rules, refsOk S ra = true ∧ AExt ctx ra)
    (hbRefs : ∀ rb ∈ pb.rules, BRefs ctx S rb)
    (habort : (diffRules ctx st pa pb).1.abort = none) :
    ∃ S' L B bR, run S (diffRules ctx st pa pb).2 = some S' ∧
      GInv ctx G0 S'.groups (diffRules ctx st pa pb).1 ∧ Mono st (diffRules ctx st pa pb).1 ∧
      StepFrame pa.id S S' ∧
      (∃ p', findPolicy S'.policies pa.id = some p' ∧ p'.rules.Perm L) ∧
      Forall2 (RuleReal ctx (diffRules ctx st pa pb).1.nod) L B ∧ B.Perm bR ∧ Forall2 SameButId bR pb.rules :=
  diffRules_spec hc hdiff S st pa pb p0 hinv hpol hp0 haids hbids haRefs hbRefs habort

/-- A target policy the manager does not have (`createPolicy`). -/
theorem nsx_create_policy_converges {ctx : Ctx} {G0 : List Group} (hc : CtxOK ctx G0) (S : Store) (st : PSt)
    (pb : Policy) (hinv : GInv ctx G0 S.groups st) (hnew : hasPolicy S pb.id = false)
    (hbids : (rids pb.rules).Nodup) (hbRefs : ∀ rb ∈ pb.rules, BRefs ctx S rb) :
    ∃ S' L, run S (createPolicy ctx st pb).2 = some S' ∧
      GInv ctx G0 S'.groups (createPolicy ctx st pb).1 ∧ Mono st (createPolicy ctx st pb).1 ∧
      S'.services = S.services ∧ S'.policies = S.policies ++ [⟨pb.id, L⟩] ∧ GroupsLE S S' ∧
      Forall2 (RuleReal ctx (createPolicy ctx st pb).1.nod) L pb.rules :=
  createPolicy_spec hc S st pb hinv hnew hbids hbRefs

/-- Unique names (`genUniqRuleNames` / `genUniqGroupNames` after the repair f4446e1): the new
ids are pairwise distinct, differ from every device id, and each is an id of the target or was
unused. -/
theorem nsx_ids_unique (aIds ids out : List String) (h : renameIds aIds ids (aIds ++ ids) = some out)
    (hn : ids.Nodup) :
    out.length = ids.length ∧ out.Nodup ∧ (∀ x ∈ out, x ∉ aIds) ∧ (∀ x ∈ out, x ∈ ids ∨ x ∉ aIds ++ ids) :=
  renameIds_spec aIds ids (aIds ++ ids) out h (fun _ hx => List.mem_append.mpr (Or.inl hx))
    (fun _ hx => List.mem_append.mpr (Or.inr hx)) hn

/-- The unrepaired `genUniq*Names` (new name checked against the device names only) is refuted by
device rule `x`, target rules `x` and `x-1`: both would be sent as `x-1`. -/
def renameIdsOld (aIds : List String) (ids : List String) : List String :=
  ids.map fun id => if aIds.contains id then (freshId aIds id).getD id else id

theorem nsx_ids_unique_counterexample : ¬ (renameIdsOld ["x"] ["x", "x-1"]).Nodup := by decide

example : renameIds ["x"] ["x", "x-1"] (["x"] ++ ["x", "x-1"]) = some ["x-2", "x-1"] := by decide

/-- **End to end** (`diffConfig` on what `LoadDevice` sees, executed on the strict manager).
For every manager state `S` (objects outside Netspoc's scope included) and every target `T` that
satisfy the decidable side conditions `accepted S T` — well-formed store, address lists without
duplicates, target as the compiler and `checkRaw` guarantee it, objects outside Netspoc's scope
that the target names exist, no rule outside Netspoc's scope refers to a managed object — for
every `diff` that returns valid edit scripts, and whenever the planner does not abort:

* every emitted REST call is accepted when it is sent (C08 for NSX: `run … = some S'`),
* `Converged`: every target policy is on the manager with, up to listing order, one equivalent
  rule per target rule (groups compared by address set), and every managed policy left is a
  target policy,
* `ServicesConverged`: every target service carries the target's definition and no managed
  service is left that the target does not define,
* `NoLeftoverGroup`: every managed group left is used by a rule of a target policy. -/
theorem nsx_converges (diff : Diff) (hdiff : ∀ n m eq, validScript n m eq (diff n m eq) = true)
    (S : Store) (T : Config) (hacc : accepted S T = true) (hab : (plan diff (load S) T).abort = none) :
    ∃ S', run S (plan diff (load S) T).calls = some S' ∧ Converged S' T ∧ ServicesConverged S' T ∧
      NoLeftoverGroup S' T := by
  unfold accepted at hacc
  simp only [Bool.and_eq_true] at hacc
  obtain ⟨⟨⟨⟨⟨h1, h2⟩, h3⟩, h4⟩, h5⟩, h6⟩ := hacc
  obtain ⟨S', a, b, c, d, _⟩ := plan_converges hdiff (storeFacts_of h1 h2) (targetFacts_of h3 h4) h5 h6 hab
  exact ⟨S', a, b, c, d⟩

/-- C08 for NSX: every call of the script is accepted by a manager that enforces referential
integrity and create-only PUT. -/
theorem nsx_calls_executable (diff : Diff) (hdiff : ∀ n m eq, validScript n m eq (diff n m eq) = true)
    (S : Store) (T : Config) (hacc : accepted S T = true) (hab : (plan diff (load S) T).abort = none) :
    (run S (plan diff (load S) T).calls).isSome = true := by
  obtain ⟨S', h, _⟩ := nsx_converges diff hdiff S T hacc hab
  simp [h]

theorem nsx_no_leftover_service (diff : Diff) (hdiff : ∀ n m eq, validScript n m eq (diff n m eq) = true)
    (S : Store) (T : Config) (hacc : accepted S T = true) (hab : (plan diff (load S) T).abort = none) :
    ∃ S', run S (plan diff (load S) T).calls = some S' ∧ ServicesConverged S' T := by
  obtain ⟨S', h, _, h2, _⟩ := nsx_converges diff hdiff S T hacc hab
  exact ⟨S', h, h2⟩

theorem nsx_no_leftover_unused_group (diff : Diff) (hdiff : ∀ n m eq, validScript n m eq (diff n m eq) = true)
    (S : Store) (T : Config) (hacc : accepted S T = true) (hab : (plan diff (load S) T).abort = none) :
    ∃ S', run S (plan diff (load S) T).calls = some S' ∧ NoLeftoverGroup S' T := by
  obtain ⟨S', h, _, _, h3⟩ := nsx_converges diff hdiff S T hacc hab
  exact ⟨S', h, h3⟩

/-! Non-vacuity of `nsx_converges`: an accepted pair with a group to edit, a rule to re-create,
a service to patch and left-overs to delete; the plan does not abort. -/
def exStore : Store :=
  { policies := [⟨"Netspoc-v1", [{ id := "r1", src := groupPath "Netspoc-g0", service := servicePath "Netspoc-tcp_80" },
                               { id := "r2", dst := "10.1.1.1" }]⟩,
                 ⟨"admin", [{ id := "m1", src := groupPath "ext" }]⟩]
    groups := [⟨"Netspoc-g0", "id", "IPAddressExpression", ["10.1.1.10", "10.1.1.20"]⟩,
               ⟨"Netspoc-g5", "id", "IPAddressExpression", ["10.9.9.9"]⟩, ⟨"ext", "x", "IPAddressExpression", ["1.1.1.1"]⟩]
    services := [⟨"Netspoc-tcp_80", "a"⟩, ⟨"Netspoc-udp_1", "u"⟩] }
def exTarget : Config :=
  { policies := [⟨"Netspoc-v1", [{ id := "r1", src := groupPath "Netspoc-g0", service := servicePath "Netspoc-tcp_80" },
                               { id := "r2", dst := "10.1.1.2" }]⟩]
    groups := [⟨"Netspoc-g0", "id", "IPAddressExpression", ["10.1.1.10", "10.1.1.30"]⟩]
    services := [⟨"Netspoc-tcp_80", "b"⟩] }
example : accepted exStore exTarget = true := by decide
example : (plan prefixDiff (load exStore) exTarget).abort = none := by decide
example : (plan prefixDiff (load exStore) exTarget).calls.length = 7 := by decide

/-- C07 for NSX, the script (`nsx_scope`): every REST call addresses an object whose id carries
the Netspoc prefix (rules live inside their policy) — by the load filter on the device side and
`checkRaw` / the compiler on the target side. -/
theorem nsx_scope (diff : Diff) (S : Store) (T : Config) (h1 : storeWF S = true) (h2 : addrsNodup S = true)
    (h3 : targetWF T = true) (h4 : policyIdsManaged T = true) :
    ∀ c ∈ (plan diff (load S) T).calls, managed c.target = true :=
  plan_scope (storeFacts_of h1 h2) (targetFacts_of h3 h4)

/-- C07 for NSX, the manager (about the specification alone): a call that addresses a managed id
leaves every object outside Netspoc's scope exactly as it was. -/
theorem nsx_store_frame {S S' : Store} {c : Call} (hm : managed c.target = true) (h : exec S c = .ok S') :
    unmanagedPart S' = unmanagedPart S := exec_frame hm h

/-- C07 for NSX, combined: whatever prefix of the script is executed, policies, groups and
services whose id lacks the prefix are untouched. -/
theorem nsx_frame (diff : Diff) (S : Store) (T : Config) (h1 : storeWF S = true) (h2 : addrsNodup S = true)
    (h3 : targetWF T = true) (h4 : policyIdsManaged T = true) (k : Nat) (S' : Store)
    (hrun : run S ((plan diff (load S) T).calls.take k) = some S') :
    unmanagedPart S' = unmanagedPart S :=
  run_frame _ S S' (fun c hc => nsx_scope diff S T h1 h2 h3 h4 c (List.mem_of_mem_take hc)) hrun

/-- The raw-file gap (before the repair a3659de): a target policy whose id lacks the prefix is
outside the hypothesis of `nsx_scope`, and indeed the plan then addresses an unmanaged id. -/
theorem nsx_scope_counterexample :
    ¬ ∀ c ∈ (plan trivialDiff (load {}) { policies := [⟨"my-policy", []⟩] }).calls, managed c.target = true := by
  decide

/-- The excluded point of `accepted` (`policyIdsManaged`), as it was accepted from a raw file before
the repair a3659de: the policy is never loaded again, so the plan computed on the state the first
run leaves behind is the same PUT once more — never "unchanged", and rejected by a manager that
wants `_revision` for an update. -/
theorem nsx_idempotent_rawpolicy_counterexample :
    let T : Config := { policies := [⟨"my-policy", [{ id := "raw9", dst := "10.9.9.9" }]⟩] }
    let p1 := plan prefixDiff (load {}) T
    (run {} p1.calls).map (fun S1 => ((plan prefixDiff (load S1) T).calls == p1.calls,
      (run S1 (plan prefixDiff (load S1) T).calls).isSome)) = some (true, false) := by
  decide

/-- C08 for NSX, about the specification alone (`wf_preserved`): a call the strict manager
accepts keeps the object store well-formed — unique ids per kind, unique rule ids per policy, no
dangling reference. -/
theorem nsx_store_wf_preserved {S S' : Store} {c : Call} (h : storeWF S = true) (hex : exec S c = .ok S') :
    storeWF S' = true :=
  storeWF_of_wf (exec_wf (wf_of_storeWF h) hex)

/-- `nsx_prefix_wf`: after any prefix of the script the pair (manager, target) satisfies the side
conditions of the end-to-end theorem again: the store is well-formed, address lists are still
duplicate-free, and everything outside Netspoc's scope is as before. -/
theorem nsx_prefix_wf (diff : Diff) (hdiff : ∀ n m eq, validScript n m eq (diff n m eq) = true)
    (S : Store) (T : Config) (hacc : accepted S T = true) (k : Nat) (Sk : Store)
    (hk : run S ((plan diff (load S) T).calls.take k) = some Sk) : accepted Sk T = true :=
  prefix_accepted hdiff hacc k hk

/-- C10 for NSX (`resume_converges`): cut the script after any number `k` of calls that took
effect; a new run against the partially changed manager and the same target is accepted call by
call and reaches a state equivalent to the target with no left-overs (provided the planner does
not abort on the intermediate state). -/
theorem nsx_resume_converges (diff : Diff) (hdiff : ∀ n m eq, validScript n m eq (diff n m eq) = true)
    (S : Store) (T : Config) (hacc : accepted S T = true) (k : Nat) (Sk : Store)
    (hk : run S ((plan diff (load S) T).calls.take k) = some Sk)
    (habk : (plan diff (load Sk) T).abort = none) :
    ∃ S', run Sk (plan diff (load Sk) T).calls = some S' ∧ Converged S' T ∧ ServicesConverged S' T ∧
      NoLeftoverGroup S' T :=
  nsx_converges diff hdiff Sk T (prefix_accepted hdiff hacc k hk) habk

/-! Non-vacuity of the resume theorem: a cut after three of the seven calls of the example, the
planner does not abort on the state reached, and its new script has four calls. -/
example : ((run exStore ((plan prefixDiff (load exStore) exTarget).calls.take 3)).map fun Sk =>
    ((plan prefixDiff (load Sk) exTarget).abort, (plan prefixDiff (load Sk) exTarget).calls.length)) =
    some (none, 4) := by decide

/-- "No change is reported only when the manager is already equivalent": an empty plan means the
manager is equivalent to the target and carries no left-overs. -/
theorem nsx_no_change_only_if_equivalent (diff : Diff)
    (hdiff : ∀ n m eq, validScript n m eq (diff n m eq) = true) (S : Store) (T : Config)
    (hacc : accepted S T = true) (hab : (plan diff (load S) T).abort = none)
    (hnone : (plan diff (load S) T).calls = []) :
    Converged S T ∧ ServicesConverged S T ∧ NoLeftoverGroup S T := by
  obtain ⟨S', hrun, h⟩ := nsx_converges diff hdiff S T hacc hab
  rw [hnone] at hrun
  simp only [run, Option.some.injEq] at hrun
  rw [← hrun] at h
  exact h

/-- The converse is false for arbitrary equivalent states (not for the ones an approve leaves
behind, which the oracle checks on every case): a manager where two rules share one group while
the target uses two groups with the same addresses is equivalent, yet the planner separates the
groups (PUT of a group, PATCH of a rule). -/
theorem nsx_equivalent_but_changed_example :
    let S : Store :=
      { policies := [⟨"Netspoc-v1", [{ id := "r1", src := groupPath "Netspoc-g0", dst := "10.1.1.1" },
                                    { id := "r2", src := groupPath "Netspoc-g0", dst := "10.1.1.2" }]⟩]
        groups := [⟨"Netspoc-g0", "id", "t", ["10.9.9.9"]⟩] }
    let T : Config :=
      { policies := [⟨"Netspoc-v1", [{ id := "r1", src := groupPath "Netspoc-g0", dst := "10.1.1.1" },
                                    { id := "r2", src := groupPath "Netspoc-g1", dst := "10.1.1.2" }]⟩]
        groups := [⟨"Netspoc-g0", "id", "t", ["10.9.9.9"]⟩, ⟨"Netspoc-g1", "id", "t", ["10.9.9.9"]⟩] }
    accepted S T = true ∧ convergedB S T = true ∧
      (plan prefixDiff (load S) T).calls.map (·.target) = ["Netspoc-g1", "Netspoc-v1"] := by
  decide

/-- The names used in the task description. -/
theorem nsx_unchanged_only_if_equivalent (diff : Diff)
    (hdiff : ∀ n m eq, validScript n m eq (diff n m eq) = true) (S : Store) (T : Config)
    (hacc : accepted S T = true) (hab : (plan diff (load S) T).abort = none)
    (hnone : (plan diff (load S) T).calls = []) :
    Converged S T ∧ ServicesConverged S T ∧ NoLeftoverGroup S T :=
  nsx_no_change_only_if_equivalent diff hdiff S T hacc hab hnone

theorem nsx_resume (diff : Diff) (hdiff : ∀ n m eq, validScript n m eq (diff n m eq) = true)
    (S : Store) (T : Config) (hacc : accepted S T = true) (k : Nat) (Sk : Store)
    (hk : run S ((plan diff (load S) T).calls.take k) = some Sk)
    (habk : (plan diff (load Sk) T).abort = none) :
    ∃ S', run Sk (plan diff (load Sk) T).calls = some S' ∧ Converged S' T ∧ ServicesConverged S' T ∧
      NoLeftoverGroup S' T :=
  nsx_resume_converges diff hdiff S T hacc k Sk hk habk

/-- **Equivalent ⇒ unchanged** (the converse of `nsx_unchanged_only_if_equivalent`).  For every
accepted pair whose manager is already equivalent to the target and carries no left-overs, the plan
is empty — provided inline service entries are compact JSON on both sides (`rulesCompact`), no two
target groups and no two managed groups have the same content (`distinctContent`; see
`nsx_equivalent_but_changed_example` for what happens otherwise) and `diff` is the identity on
pairwise-equal lists (`IdOnEqual`, as Myers is). -/
theorem nsx_equivalent_unchanged_partial (diff : Diff) (hid : IdOnEqual diff) (S : Store) (T : Config)
    (hacc : accepted S T = true) (hconv : Converged S T) (hsvc : ServicesConverged S T)
    (hgrp : NoLeftoverGroup S T) (hc : rulesCompact (load S) = true ∧ rulesCompact T = true)
    (hd : distinctContent T.groups = true ∧ distinctContent (load S).groups = true)
    (hab : (plan diff (load S) T).abort = none) : (plan diff (load S) T).calls = [] := by
  unfold accepted at hacc
  simp only [Bool.and_eq_true] at hacc
  obtain ⟨⟨⟨⟨⟨h1, h2⟩, h3⟩, h4⟩, _⟩, _⟩ := hacc
  exact plan_unchanged hid (storeFacts_of h1 h2) (targetFacts_of h3 h4) hconv hsvc hgrp
    ((rulesCompact_iff _).mp hc.1) ((rulesCompact_iff _).mp hc.2) (distinctContent_iff _ hd.1)
    (distinctContent_iff _ hd.2) hab

/-- **Idempotence** (`nsx_idempotent`, partial).  Full statement: for every accepted pair, executing
the plan on the strict manager and planning again gives the empty list of REST calls.  That is
false when a rule of the target carries inline `service_entries` that are not compact JSON
(`nsx_idempotent_counterexample`, finding F-C04-se); it is proved here under the decidable side
condition `idemOK S T`: inline service entries compact on the manager and in the target, and no
two target groups with the same address set (whether the last condition is necessary is open: the
oracle has found no failing input without it).  The edit-script function must return valid scripts
and be the identity on pairwise-equal lists. -/
theorem nsx_idempotent_partial (diff : Diff) (hdiff : ∀ n m eq, validScript n m eq (diff n m eq) = true)
    (hid : IdOnEqual diff) (S : Store) (T : Config) (hacc : accepted S T = true) (hidem : idemOK S T = true)
    (hab : (plan diff (load S) T).abort = none) :
    ∃ S', run S (plan diff (load S) T).calls = some S' ∧
      ((plan diff (load S') T).abort = none → (plan diff (load S') T).calls = []) :=
  plan_idempotent hdiff hid hacc hidem hab

/-- Inline service entries written with white space: the rule is re-created on every run. -/
theorem nsx_idempotent_counterexample :
    let T : Config := { policies := [⟨"Netspoc-v1", [{ id := "r1", attrs := { svcEntries := "[ 1 ]" } }]⟩] }
    accepted {} T = true ∧
    (run {} (plan prefixDiff (load {}) T).calls).map (fun S1 => (plan prefixDiff (load S1) T).calls.length) = some 2 := by
  decide

/-- The side condition `distinctContent T.groups` cannot be dropped when the manager is free to
list its rules in another order: with two target groups of equal content and two rules that
differ only in these groups, the state an approve leaves behind is equivalent and unchanged as
listed, but listed in reverse order it yields four calls (finding F-C04-dupgrp, replayed on the
real code by the harness: check `idem`, "lists its objects in another order"). -/
theorem nsx_idempotent_relisting_counterexample :
    let T : Config :=
      { policies := [⟨"Netspoc-v1", [{ id := "r1", src := groupPath "Netspoc-g0", dst := "10.1.1.1" },
                                    { id := "r2", src := groupPath "Netspoc-g1", dst := "10.1.1.1" },
                                    { id := "r3", src := groupPath "Netspoc-g0", dst := "10.1.1.0" }]⟩]
        groups := [⟨"Netspoc-g0", "id", "t", ["10.9.9.9"]⟩, ⟨"Netspoc-g1", "id", "t", ["10.9.9.9"]⟩] }
    let relist : Store → Store := fun S => { S with policies := S.policies.map fun p => { p with rules := p.rules.reverse } }
    accepted {} T = true ∧ distinctContent T.groups = false ∧
    (run {} (plan prefixDiff (load {}) T).calls).map (fun S1 =>
      ((plan prefixDiff (load S1) T).calls.length, convergedB (relist S1) T,
       (plan prefixDiff (load (relist S1)) T).calls.length)) = some (0, true, 4) := by
  decide

/-! Non-vacuity of the idempotence theorems: `prefixDiff` is valid and the identity on equal
lists; the example pair satisfies `idemOK`; its second plan is empty. -/
example : IdOnEqual prefixDiff := prefixDiff_idOnEqual
example : idemOK exStore exTarget = true := by decide
example : (run exStore (plan prefixDiff (load exStore) exTarget).calls).map
    (fun S1 => ((plan prefixDiff (load S1) exTarget).abort, (plan prefixDiff (load S1) exTarget).calls)) =
    some (none, []) := by decide

/-! ### services are compared by definition

`addNewServices` compares marshalled service entries byte by byte and sends the marshalled target.  The
marshalling (`SvcEntry.marshal`, model of `nsxServiceEntry.MarshalJSON`; its byte form `render` is compared
with the bodies the real code sends on every run) loses nothing on entries built from the fields of their
resource type, so the opaque `Service.defn` of the planner model stands for the definition itself. -/

theorem nsx_service_marshal_injective (l1 l2 : List SvcEntry) (h1 : ∀ e ∈ l1, e.WF) (h2 : ∀ e ∈ l2, e.WF)
    (h : marshalAll l1 = marshalAll l2) : l1 = l2 := marshalAll_injective l1 l2 h1 h2 h

-- non-vacuity: the hypotheses hold for entries of all three kinds, and near misses marshal differently
example : marshalAll [{ id := "id", kind := .icmp, icmpProto := "ICMPv4", icmpCode := some 3 }]
    ≠ marshalAll [{ id := "id", kind := .icmp, icmpProto := "ICMPv4" }] := by decide
example : marshalAll [{ id := "id", kind := .l4, l4Proto := "TCP", dst := some ["80"] }]
    ≠ marshalAll [{ id := "id", kind := .l4, l4Proto := "TCP", dst := some ["80"], src := some [] }] := by decide
example : (∀ e ∈ [({ id := "a", kind := .l4, l4Proto := "TCP", dst := some ["80"] } : SvcEntry),
    { id := "b", kind := .ipproto, protoNum := 47 }, { id := "c", kind := .icmp, icmpProto := "ICMPv6", icmpType := some 128 }], e.WF) := by decide

/-- A marshalling that writes `icmp_code` only together with `icmp_type` identifies two different services. -/
theorem nsx_service_marshal_variant_counterexample :
    ∃ e1 e2 : SvcEntry, e1.WF ∧ e2.WF ∧ e1 ≠ e2 ∧ marshalCodeInsideType e1 = marshalCodeInsideType e2 :=
  marshalCodeInsideType_not_injective

def obligations : List Lean.Name := [``nsx_service_marshal_injective, ``nsx_service_marshal_variant_counterexample,
  ``marshal_injective,``nsx_converges, ``nsx_calls_executable, ``nsx_no_leftover_service,
  ``nsx_no_leftover_unused_group, ``nsx_group_equalize_converges, ``nsx_rules_converge,
  ``nsx_create_policy_converges, ``nsx_ids_unique, ``nsx_ids_unique_counterexample,
  ``addrDiff_perm, ``stepItems_spec, ``walk_of_valid, ``adaptGroup_spec, ``equalize_spec,
  ``overA_spec, ``overB_spec, ``planSvc_spec, ``plan_converges, ``nsx_scope, ``nsx_store_frame, ``nsx_frame,
  ``nsx_scope_counterexample, ``nsx_store_wf_preserved, ``nsx_prefix_wf, ``nsx_resume_converges,
  ``nsx_no_change_only_if_equivalent, ``nsx_equivalent_but_changed_example,
  ``nsx_idempotent_rawpolicy_counterexample, ``nsx_unchanged_only_if_equivalent, ``nsx_resume,
  ``nsx_equivalent_unchanged_partial, ``nsx_idempotent_partial, ``nsx_idempotent_counterexample, ``nsx_idempotent_relisting_counterexample, ``loadPaged_eq,
  ``plan_unchanged, ``sortRules_keys, ``diffRules_noop]

end NA.Nsx
