import NA.Props.C16
import NA.Model.MapSitesDeep
import NA.Gen.MapRangesDeep
import NA.Gen.MapRangesDescr
/-!
# C16, round 3 — the transitive tie, sorted loops, third-party code, other sources

All facts below are about tables **regenerated from the source on every run** (deep pass of
translate/mapranges; reachability by `callgraph -algo=vta` from the planning roots
`device.CompareFiles$1`, `(*device.state).getCompare`, `program.LoadConfig` and the methods
called by reflection). `by decide` is used where the quantifier really is that finite table.
-/
namespace NA.C16
open NA.PermFold NA.Gen.MapRanges NA.Gen.MapRangesDeep

/-! ## Any sorting algorithm -/

/-- What every sorting routine guarantees, stable or not, randomised or not. -/
structure Sorts {α : Type} (le : α → α → Bool) (srt : List α → List α) : Prop where
  perm : ∀ l, (srt l).Perm l
  sorted : ∀ l, (srt l).Pairwise (fun a b => le a b = true)

/-- **Unstable sorts are harmless when ties are between equal elements.** Two sorting routines
(e.g. two runs of a randomised pdqsort) applied to two permutations of the same elements (e.g. the
keys of a map collected in two iteration orders) return the same list, provided the order is
antisymmetric on the elements. -/
theorem any_sort_deterministic {α : Type} {le : α → α → Bool} {srt₁ srt₂ : List α → List α}
    (h₁ : Sorts le srt₁) (h₂ : Sorts le srt₂) {l₁ l₂ : List α} (p : l₁.Perm l₂)
    (anti : ∀ a, a ∈ l₁ → ∀ b, b ∈ l₁ → le a b = true → le b a = true → a = b) :
    srt₁ l₁ = srt₂ l₂ := by
  have pp : (srt₁ l₁).Perm (srt₂ l₂) := ((h₁.perm l₁).trans p).trans (h₂.perm l₂).symm
  refine List.Perm.eq_of_pairwise (fun a b ha hb hab hba => ?_) (h₁.sorted l₁) (h₂.sorted l₂) pp
  exact anti a ((h₁.perm l₁).mem_iff.mp ha) b (p.mem_iff.mpr ((h₂.perm l₂).mem_iff.mp hb)) hab hba

/-- The library's merge sort is such a routine (non-vacuity of `Sorts`). -/
theorem mergeSort_sorts {α : Type} {le : α → α → Bool} (h : LawfulLe le) :
    Sorts le (fun l => l.mergeSort le) where
  perm l := List.mergeSort_perm l le
  sorted l := List.pairwise_mergeSort h.trans h.total l

/-- … and with keys of a map (pairwise different) any linear order on the keys will do:
`slices.SortedFunc(maps.Keys(toDelete), cmp)` of deleteUnused. -/
theorem any_sort_of_map_keys {κ : Type} {le : κ → κ → Bool} (h : LawfulLe le)
    {srt₁ srt₂ : List κ → List κ} (h₁ : Sorts le srt₁) (h₂ : Sorts le srt₂) {l₁ l₂ : List κ}
    (p : l₁.Perm l₂) : srt₁ l₁ = srt₂ l₂ :=
  any_sort_deterministic h₁ h₂ p (fun a _ b _ => h.antisymm a b)

example : Sorts strLe (fun l => l.mergeSort strLe) := mergeSort_sorts strLe_lawful

def intLe (a b : Int) : Bool := decide (a ≤ b)

/-- `int` keys (sequence numbers) in their natural order. -/
theorem intLe_lawful : LawfulLe intLe where
  total := by intro a b; simp only [intLe, Bool.or_eq_true, decide_eq_true_eq]; omega
  trans := by intro a b c; simp only [intLe, decide_eq_true_eq]; omega
  antisymm := by intro a b; simp only [intLe, decide_eq_true_eq]; omega

/-! ## Generated names: per kind, from the device's names only -/

theorem firstFreeFrom_ge (used : List Nat) (fuel i : Nat) : i ≤ firstFreeFrom used fuel i := by
  induction fuel generalizing i with
  | zero => simp [firstFreeFrom]
  | succ n ih =>
    simp only [firstFreeFrom]
    split
    · exact Nat.le_trans (Nat.le_succ i) (ih (i + 1))
    · exact Nat.le_refl i

theorem firstFreeFrom_below (used : List Nat) (fuel i j : Nat) (hij : i ≤ j)
    (hj : j < firstFreeFrom used fuel i) : j ∈ used := by
  induction fuel generalizing i with
  | zero => simp [firstFreeFrom] at hj; omega
  | succ n ih =>
    simp only [firstFreeFrom] at hj
    split at hj
    · rename_i hc
      by_cases h : j = i
      · subst h; simpa using hc
      · exact ih (i + 1) (by omega) hj
    · omega

/-- The index taken is the least one not occupied on the device: every smaller index is occupied.
It is a function of the command's own name and kind and of the device's names only — what makes
`site_generateNames` (per-object shape) applicable, and what the seeded cache keyed by the Netspoc
name alone (C16-R3M2) breaks. -/
theorem firstFree_least (used : List Nat) (j : Nat) (hj : j < firstFree used) : j ∈ used :=
  firstFreeFrom_below used _ 0 j (Nat.zero_le j) hj

example : firstFree [0, 1, 3] = 2 := by decide
example : firstFree [] = 0 := by decide

/-! ## The transitive tie -/

def DeepExpect.matchesSite (e : DeepExpect) (d : DeepSite) : Bool :=
  e.file == d.file && e.fn == d.fn && e.chash == d.chash

/-- A described loop needs no closure hash (the descriptor pass reads the whole callee closure and makes
the loop opaque as soon as the closure has an order-relevant kind); an opaque loop must match a row by
file, function and hash of its alpha-normalised closure, with kinds within the admitted ones. -/
def deepTied (d : DeepSite) (ds : NA.C16.D.SiteDescr) : Bool :=
  (d.file == ds.file && d.fn == ds.fn && d.mapExpr == ds.mapExpr && d.ord == ds.ord) &&
    (ds.body.described || deepExpected.any (fun e => e.matchesSite d && d.kinds.all (e.allow.contains ·)))

def deepUncovered : List (DeepSite × NA.C16.D.SiteDescr) :=
  (deepSites.zip NA.Gen.MapRangesDescr.descrs).filter (fun p => !deepTied p.1 p.2)

-- Diagnostic only: name the undescribed loops whose transitive closure changed or does something order relevant.
#eval (do
  unless deepUncovered.isEmpty do
    throw (IO.userError ("C16: range-over-map loops that the translator cannot describe and whose loop text or callees changed, or whose closure can abort / print / append changes / call unknown code: " ++
      toString (deepUncovered.map fun p => s!"{p.1.file} {p.1.fn} range {p.1.mapExpr} #{p.1.ord} chash={p.1.chash} kinds={p.1.kinds} fx=[{p.1.fx}] callees={p.1.callees} descriptor={repr p.2.body}")))
  : IO Unit)

/-- The deep table talks about exactly the sites of the base table, in the same order. -/
theorem deep_sites_are_the_sites :
    deepSites.map (fun d => (d.file, d.fn, d.mapExpr, d.ord)) = sites.map (fun s => (s.file, s.fn, s.mapExpr, s.ord)) := by
  decide

/-- **Transitive tie for the loops without descriptor.** Every unsorted `range` over a map is described,
or the hash of its alpha-normalised loop text together with the normalised text of everything the body
transitively calls inside the module is the expected one, and its closure has only admitted effect kinds. -/
theorem deep_sites_covered :
    deepSites.length = NA.Gen.MapRangesDescr.descrs.length ∧
    (deepSites.zip NA.Gen.MapRangesDescr.descrs).all (fun p => deepTied p.1 p.2) = true := by decide

/-- A loop whose closure can abort, print, append to the change script, call code the translator
cannot resolve, read another source of nondeterminism or write a package variable is never
"described" — with one exception: a `guarded` body may print, because the translator has checked that
every call of a printing function sits in a `default:` clause of the switch over the key, and may
panic (a complaint decided by the entry alone); complaints are excluded by the hypothesis `NoComplaint`
(LoadConfig: `default_keys_known`, `default_vals_parse`; addDefaults: `quote_token_only_in_subcommands`). Otherwise such kinds
occur only at the loops with a row, within what the row admits. -/
theorem deep_kinds_admissible :
    (deepSites.zip NA.Gen.MapRangesDescr.descrs).all (fun p =>
      p.1.kinds.isEmpty ||
      ((match p.2.body with | .guarded _ => true | _ => false) && p.1.kinds.all (fun k => k == "out" || k == "abort")) ||
      (!p.2.body.described &&
        deepExpected.any (fun e => e.matchesSite p.1 && p.1.kinds.all (e.allow.contains ·)))) = true := by
  decide

theorem deep_exceptions_are_two :
    deepExpected.filter (fun e => !e.allow.isEmpty) = [] ∧
    ((deepSites.zip NA.Gen.MapRangesDescr.descrs).filter (fun p => !p.1.kinds.isEmpty && p.2.body.described)).map
      (fun p => (p.1.fn, p.1.kinds)) = [("parser.addDefaults", ["abort"]), ("LoadConfig", ["out"])] := by decide

/-- Exception 1: `matchCmd` can panic only under the template token `"`; no toplevel command type
of asa/ios cmd-info.go has it, and `addDefaultObject` parses toplevel commands only. -/
theorem quote_token_only_in_subcommands : quoteTemplatePrefixes = [] := by decide

/-- Exception 2: every key of the literal `defaultVals` is a case of `switch key` in `insert`, so
the `warn` of the default case is never reached from the loop over `defaultVals`. -/
theorem default_keys_known : defaultVals.all (fun kv => configKeys.contains kv.1) = true := by decide

/-- Every site is described, or tied by the hash of its loop text (`every_site_described_or_hash_tied`)
AND by the hash of its transitive callee closure with admitted effect kinds. -/
theorem every_site_closure_tied :
    ∀ p, p ∈ deepSites.zip NA.Gen.MapRangesDescr.descrs →
      p.2.body.described = true ∨
      ∃ de, de ∈ deepExpected ∧ de.matchesSite p.1 = true ∧ p.1.kinds.all (de.allow.contains ·) = true := by
  intro p hp
  have h := List.all_eq_true.mp deep_sites_covered.2 p hp
  simp only [deepTied, Bool.and_eq_true, Bool.or_eq_true] at h
  rcases h.2 with hd | hr
  · exact Or.inl hd
  · obtain ⟨e, he, hm⟩ := List.any_eq_true.mp hr
    simp only [Bool.and_eq_true] at hm
    exact Or.inr ⟨e, he, hm.1, hm.2⟩

/-! ## Sorted loops: shape instead of hash -/

/-- A loop over sorted keys is a function of its sorted entry list (`sorted_deterministic`) as long
as everything it executes is: every unsorted map range executed inside the body of a sorted loop
(also inside the functions it calls) is one of the classified sites … -/
theorem sorted_inner_covered :
    sortedSites.all (fun s => s.inner.all (fun i =>
      sites.any (fun t => (t.file, t.fn, t.mapExpr, t.ord) == i))) = true := by decide

/-- … and no loop over a map, sorted or not, reaches time, environment, random numbers, goroutines,
channels, directory listings or `%p`. -/
theorem no_source_inside_map_loops :
    sortedSites.all (fun s => !s.kinds.contains "src") = true ∧
    deepSites.all (fun d => !d.kinds.contains "src") = true := by decide

/-! ## Third-party code -/

/-- No `range` over a map in any third-party package linked into drc / do-approve is reachable from
the planning roots (github.com/pkg/diff, the only one planning uses, has none; pflag, goexpect,
goterm, x/crypto/ssh have some, all in option parsing and the session layer). -/
theorem ext_sites_unreachable : extSites.all (fun s => !s.reach) = true := by decide

/-! ## Other sources of nondeterminism -/

def unclassifiedSources : List Source :=
  sources.filter (fun s => s.reach && !planningSources.any (fun e => e.file == s.file && e.fn == s.fn && e.kind == s.kind && e.hash == s.hash))

#eval (do
  unless unclassifiedSources.isEmpty do
    throw (IO.userError ("C16: new source of nondeterminism reachable from planning: " ++
      toString (unclassifiedSources.map fun s => s!"{s.file} {s.fn} {s.kind} hash={s.hash}: {s.text}")))
  : IO Unit)

/-- Every goroutine, select, channel operation, use of time, environment, random numbers, directory
listing, temporary name, `%p`, reflection over maps and every comparator sort in a function that is
reachable from the planning roots is one of the classified ones. -/
theorem planning_sources_classified : unclassifiedSources = [] := by decide

/-- No concurrency, randomness, directory listing, temporary name or pointer formatting is
reachable from the planning roots. -/
theorem no_concurrency_in_planning :
    sources.all (fun s => !(s.reach && forbiddenKinds.contains s.kind)) = true := by decide

/-- Every sort by natural order sorts strings or integers (linear orders: `strLe_lawful`,
`intLe_lawful`), so by `any_sort_deterministic` its result does not depend on the order of its input. -/
theorem natural_sorts_total :
    naturalSorts.all (fun s => s.2.2.2 == "string" || s.2.2.2 == "int") = true := by decide

/-- The only comparator sort fed from a map (`slices.SortedFunc(maps.Keys(toDelete), …)`) compares
(prefix, name) pairs lexicographically: a linear order on the distinct keys
(`prefix_name_order_lawful`), hence `any_sort_of_map_keys` applies. -/
theorem comparator_sorts_from_maps :
    (sources.filter (fun s => s.kind == "sort-unstable-cmp-frommap" || s.kind == "sort-stable-cmp-frommap")).map
      (fun s => (s.file, s.fn)) = [("cisco/diff.go", "(*cisco.State).deleteUnused")] := by decide

example : ∀ {srt₁ srt₂ : List (String × String) → List (String × String)},
    Sorts (lexLe strLe strLe) srt₁ → Sorts (lexLe strLe strLe) srt₂ →
    ∀ {l₁ l₂ : List (String × String)}, l₁.Perm l₂ → srt₁ l₁ = srt₂ l₂ :=
  by intro srt₁ srt₂ h₁ h₂ l₁ l₂ p; exact any_sort_of_map_keys prefix_name_order_lawful h₁ h₂ p

end NA.C16

namespace NA.C16.Deep

def obligations : List Lean.Name := [
  ``NA.C16.any_sort_deterministic, ``NA.C16.any_sort_of_map_keys, ``NA.C16.mergeSort_sorts, ``NA.C16.intLe_lawful, ``NA.C16.firstFree_least,
  ``NA.C16.deep_sites_are_the_sites, ``NA.C16.deep_sites_covered, ``NA.C16.deep_kinds_admissible, ``NA.C16.deep_exceptions_are_two,
  ``NA.C16.quote_token_only_in_subcommands, ``NA.C16.default_keys_known, ``NA.C16.every_site_closure_tied,
  ``NA.C16.sorted_inner_covered, ``NA.C16.no_source_inside_map_loops, ``NA.C16.ext_sites_unreachable,
  ``NA.C16.planning_sources_classified, ``NA.C16.no_concurrency_in_planning, ``NA.C16.natural_sorts_total,
  ``NA.C16.comparator_sorts_from_maps]

end NA.C16.Deep
