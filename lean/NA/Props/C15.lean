import NA.Proofs.C15Guard
import NA.Proofs.C15Dec
import NA.Proofs.C15Full
/-!
# C15 — IOS changes always run under a reload guard and survive its banners

Property theorems only.  `applyCommands D fixed cs st` is the model of `ios.ApplyCommands`
(`NA/Model/IosSession.lean`) run against a device `D` with ARBITRARY state and behaviour (any
bytes in answer to any packet, silence = time-out), for an arbitrary list of change commands.
`linesOf trace` is the ordered transcript of lines the device receives; `guardOK`,
`pendingAfter` are the monitor of `NA/Spec/IosDev.lean`.
-/
namespace NA.Ios

variable {σ : Type}

/-- change commands never spell `reload cancel` or `write memory` (one or two lines each) -/
def CleanCs (cs : List Str) : Prop := ∀ c ∈ cs, OKsend c

theorem okSend_vocab (s : Str) (h : reloadVocab s ∨ s = confCmd ∨ s = endCmd) : OKsend s := by
  have : ∀ s ∈ [reloadCmd, doReloadCmd, lit "n", [], confCmd, endCmd],
      ∀ x ∈ splitOnNL s, x ≠ cancelCmd ∧ x ≠ writeCmd := by decide
  apply this
  rcases h with (h | h | h | h) | h | h <;> simp [h]

/-- monitor facts about the guarded block -/
theorem guarded_monitor (D : Device σ) (fixed : Bool) (cs : List Str) (hcs : CleanCs cs) (st : St σ)
    (hI : Idle (G st.trace)) :
    (G (guarded D fixed cs st).2.trace).violated = false ∧
    ((scheduleReload D st).1 = .ok () → Idle (G (guarded D fixed cs st).2.trace)) ∧
    (∀ e, (scheduleReload D st).1 = .abort e → (guarded D fixed cs st).1 = .abort e) := by
  obtain ⟨l0, ht0, hs0⟩ := ext_sendReloadCmd D false st
  have eff := sched_effect st.trace l0 _ reloadCmd (.inl rfl) hI hs0
  rcases res_cases (scheduleReload D st).1 with ⟨a, hok⟩ | ⟨e, hab⟩
  · -- the guard is armed; body keeps it armed; the deferred cancel disarms
    have harm : Armed (G (scheduleReload D st).2.trace) := by
      have := eff.2 (by cases a; exact hok)
      rw [← ht0] at this; exact this
    have hg : guarded D fixed cs st =
        finally_ (guardedBody D fixed cs) (cancelReload D) (scheduleReload D st).2 := by
      unfold guarded; exact bindM_snd_of_ok _ _ _ _ hok
    obtain ⟨l1, ht1, hs1⟩ := sends_guardedBody D fixed cs (scheduleReload D st).2
    have harm1 : Armed (G (guardedBody D fixed cs (scheduleReload D st).2).2.trace) := by
      rw [ht1]
      refine armed_sends _ _ harm (fun s hs => ?_)
      rcases hs1 s hs with h | h
      · exact hcs s h
      · exact okSend_vocab s h
    obtain ⟨l2, ht2, hs2⟩ := ext_cancelReload D (guardedBody D fixed cs (scheduleReload D st).2).2
    have hidle : Idle (G (guarded D fixed cs st).2.trace) := by
      rw [hg, finally_eq]; simp only
      rw [ht2]
      exact cancel_effect _ _ harm1.2 hs2
    exact ⟨hidle.2.1, fun _ => hidle, fun e he => by rw [hok] at he; cases he⟩
  · have hg : guarded D fixed cs st = (.abort e, (scheduleReload D st).2) := by
      unfold guarded; exact bindM_of_abort _ _ _ _ hab
    refine ⟨?_, ?_, ?_⟩
    · rw [hg]; show (G (scheduleReload D st).2.trace).violated = false
      have := eff.1; rw [← ht0] at this; exact this
    · intro h; rw [hab] at h; cases h
    · intro e' he'; rw [hab] at he'; cases he'; rw [hg]

/-- the state in which `scheduleReload` is called -/
def afterPrep (D : Device σ) (st : St σ) : St σ := (prepareDevice D st).2

theorem idle_afterPrep (D : Device σ) (st : St σ) (h0 : st.trace = []) : Idle (G (afterPrep D st).trace) := by
  obtain ⟨l, ht, hs⟩ := sends_prepareDevice D st
  unfold afterPrep; rw [ht]
  exact idle_prep _ _ (by rw [h0]; exact ⟨rfl, rfl, rfl⟩) hs

/-- Summary of the monitor after the whole of `ApplyCommands`. -/
theorem apply_monitor (D : Device σ) (fixed : Bool) (cs : List Str) (hcs : CleanCs cs) (st : St σ)
    (h0 : st.trace = []) :
    let o := applyCommands D fixed cs st
    (G o.2.trace).violated = false ∧
    ((G o.2.trace).pending = true → ∃ e, (scheduleReload D (afterPrep D st)).1 = .abort e ∧ o.1 = .abort e) := by
  intro o
  have hI1 := idle_afterPrep D st h0
  rcases res_cases (prepareDevice D st).1 with ⟨a, hok⟩ | ⟨e, hab⟩
  · have ho : o = bindM (guarded D fixed cs) (fun _ => writeMem D 2) (afterPrep D st) := by
      show applyCommands D fixed cs st = _
      unfold applyCommands afterPrep; exact bindM_snd_of_ok _ _ _ _ hok
    have hm := guarded_monitor D fixed cs hcs (afterPrep D st) hI1
    rcases res_cases (guarded D fixed cs (afterPrep D st)).1 with ⟨a2, hok2⟩ | ⟨e2, hab2⟩
    · -- guarded returned: scheduleReload succeeded, monitor idle, write memory keeps it idle
      have hsok : (scheduleReload D (afterPrep D st)).1 = .ok () := by
        rcases res_cases (scheduleReload D (afterPrep D st)).1 with ⟨u, h⟩ | ⟨e, h⟩
        · cases u; exact h
        · have := hm.2.2 e h; rw [hok2] at this; cases this
      have hidle := hm.2.1 hsok
      have ho2 : o = writeMem D 2 (guarded D fixed cs (afterPrep D st)).2 := by
        rw [ho]; exact bindM_snd_of_ok _ _ _ _ hok2
      obtain ⟨l, ht, hs⟩ := sends_writeMem D 2 (guarded D fixed cs (afterPrep D st)).2
      have hfin : Idle (G o.2.trace) := by
        rw [ho2, ht]; exact idle_write _ _ hidle hs
      exact ⟨hfin.2.1, fun hp => by rw [hfin.1] at hp; cases hp⟩
    · have ho2 : o = (.abort e2, (guarded D fixed cs (afterPrep D st)).2) := by
        rw [ho]; exact bindM_of_abort _ _ _ _ hab2
      rw [ho2]; simp only
      refine ⟨hm.1, fun hp => ?_⟩
      rcases res_cases (scheduleReload D (afterPrep D st)).1 with ⟨u, h⟩ | ⟨e, h⟩
      · cases u
        have := (hm.2.1 h).1; rw [this] at hp; cases hp
      · refine ⟨e, h, ?_⟩
        have := hm.2.2 e h; rw [hab2] at this; cases this; rfl
  · have ho : o = (.abort e, afterPrep D st) := by
      show applyCommands D fixed cs st = _
      unfold applyCommands afterPrep; exact bindM_of_abort _ _ _ _ hab
    rw [ho]; simp only
    exact ⟨hI1.2.1, fun hp => by rw [hI1.1] at hp; cases hp⟩

/-- **guard_brackets_changes.** For every device, every list of change commands (one- or
two-line, not spelling `reload cancel`/`write memory`) and whether the run succeeds or aborts
anywhere: in the transcript no change line is received while no reload is scheduled and
confirmed, and `write memory` is never received while one is scheduled (i.e. `reload in 2` +
confirmation < every change < `reload cancel` < `write memory`). -/
theorem guard_brackets_changes (D : Device σ) (fixed : Bool) (cs : List Str) (hcs : CleanCs cs)
    (st : St σ) (h0 : st.trace = []) :
    guardOK (linesOf (applyCommands D fixed cs st).2.trace) = true := by
  have := (apply_monitor D fixed cs hcs st h0).1
  simp only [guardOK]
  show (!(G (applyCommands D fixed cs st).2.trace).violated) = true
  rw [this]; rfl

/-- **no_reload_pending_after_success.** A run that returns normally leaves no reload scheduled. -/
theorem no_reload_pending_after_success (D : Device σ) (fixed : Bool) (cs : List Str) (hcs : CleanCs cs)
    (st : St σ) (h0 : st.trace = []) (hok : (applyCommands D fixed cs st).1 = .ok ()) :
    pendingAfter (linesOf (applyCommands D fixed cs st).2.trace) = false := by
  have h := (apply_monitor D fixed cs hcs st h0).2
  show (G (applyCommands D fixed cs st).2.trace).pending = false
  cases hp : (G (applyCommands D fixed cs st).2.trace).pending with
  | false => rfl
  | true =>
    obtain ⟨e, _, he⟩ := h hp
    rw [hok] at he; cases he

/-- **cancel_on_failure** (what is true of it, `_partial`: hypothesis = `scheduleReload` returned).
Whatever aborts after `scheduleReload` has returned — a rejected change, a damaged echo, a
time-out, a failed re-arm, a failed `end` — the deferred `reload cancel` is sent after the last
(re-)arming: no reload is left scheduled.  Equivalently: a reload left scheduled means the abort
happened inside `scheduleReload` itself. -/
theorem cancel_on_failure_partial (D : Device σ) (fixed : Bool) (cs : List Str) (hcs : CleanCs cs)
    (st : St σ) (h0 : st.trace = [])
    (hs : (scheduleReload D (afterPrep D st)).1 = .ok ()) :
    pendingAfter (linesOf (applyCommands D fixed cs st).2.trace) = false := by
  have h := (apply_monitor D fixed cs hcs st h0).2
  show (G (applyCommands D fixed cs st).2.trace).pending = false
  cases hp : (G (applyCommands D fixed cs st).2.trace).pending with
  | false => rfl
  | true =>
    obtain ⟨e, he, _⟩ := h hp
    rw [hs] at he; cases he


/-! ### write memory only if all changes were accepted -/

theorem finRes_ok {α} (rb : Res α) (rf : Res Unit) (a : α) (h : finRes rb rf = .ok a) :
    rb = .ok a ∧ rf = .ok () := by
  cases rf with
  | ok u => cases u; exact ⟨h, rfl⟩
  | abort e => cases h

theorem ext_cmd (D : Device σ) (fixed : Bool) (c : Str) :
    Ext (cmd D fixed c) (fun _ l => ∃ rest, l = c :: rest ∧ ∀ s ∈ rest, reloadVocab s) := by
  unfold cmd
  refine (ext_bind (ext_send D c) (fun _ => (?_ : Sends reloadVocab _))).mono ?_
  · refine sends_bind (silent_check _).sends (fun n1 => sends_bind ?_ (fun need => ?_))
    · split
      · exact (silent_pure _).sends
      · exact sends_bind (silent_check _).sends (fun _ => (silent_pure _).sends)
    · split
      · exact sends_sendReloadCmd D true
      · exact (silent_pure _).sends
  · intro r l h
    rcases h with ⟨e, _, h, _⟩ | ⟨a, l1, l2, rfl, ⟨_, rfl⟩, h2⟩
    · cases h
    · exact ⟨l2, rfl, h2⟩

/-- a loop that returns normally has sent every command -/
theorem ext_changeLoop_sent (D : Device σ) (fixed : Bool) (cs : List Str) :
    Ext (changeLoop D fixed cs) (fun r l => r = .ok () → ∀ c ∈ cs, c ∈ l) := by
  unfold changeLoop
  induction cs with
  | nil => exact (silent_pure ()).ext.mono (by intro r l _ _ c hc; cases hc)
  | cons c cs ih =>
    refine (ext_bind (ext_cmd D fixed c) (fun _ => ih)).mono ?_
    intro r l h hr
    rcases h with ⟨e, he, _⟩ | ⟨a, l1, l2, rfl, ⟨rest, rfl, _⟩, h2⟩
    · rw [hr] at he; cases he
    · intro x hx
      rcases List.mem_cons.1 hx with rfl | hx
      · simp
      · exact List.mem_append_right _ (h2 hr x hx)

/-- sends without a `write memory` line -/
def NoW (s : Str) : Prop := writeCmd ∉ splitOnNL s

theorem noW_of_ok (s : Str) (h : OKsend s) : NoW s := fun hm => (h _ hm).2 rfl

theorem ext_guarded_sent (D : Device σ) (fixed : Bool) (cs : List Str) (hcs : CleanCs cs) :
    Ext (guarded D fixed cs) (fun r l => (∀ s ∈ l, NoW s) ∧ (r = .ok () → ∀ c ∈ cs, c ∈ l)) := by
  have hbody : Ext (guardedBody D fixed cs)
      (fun r l => (∀ s ∈ l, NoW s) ∧ (r = .ok () → ∀ c ∈ cs, c ∈ l)) := by
    intro st
    obtain ⟨l, ht, hs⟩ := sends_guardedBody D fixed cs st
    refine ⟨l, ht, fun s hs' => ?_, ?_⟩
    · rcases hs s hs' with h | h
      · exact noW_of_ok s (hcs s h)
      · exact noW_of_ok s (okSend_vocab s h)
    · -- result ok: the loop returned ok and sent everything
      intro hr
      unfold guardedBody at hr ht
      obtain ⟨u, hc, hf⟩ := (bindM_ok_iff _ _ _ _).1 hr
      rw [bindM_snd_of_ok _ _ _ _ hc] at ht
      rw [finally_eq] at hf ht
      obtain ⟨hl, _⟩ := finRes_ok _ _ _ hf
      obtain ⟨l1, ht1, hs1⟩ := ext_changeLoop_sent D fixed cs (sendCmd D confCmd st).2
      obtain ⟨l0, ht0, _⟩ := ext_sendCmd D confCmd st
      obtain ⟨l2, ht2, _⟩ := ext_sendCmd D endCmd (changeLoop D fixed cs (sendCmd D confCmd st).2).2
      simp only at ht
      rw [ht2, ht1, ht0, List.append_assoc, List.append_assoc] at ht
      have := List.append_cancel_left ht
      intro c hc
      rw [← this]
      exact List.mem_append_right _ (List.mem_append_left _ (hs1 hl c hc))
  unfold guarded
  refine (ext_bind (sends_sendReloadCmd D false) (fun _ =>
    ext_finally hbody (ext_cancelReload D))).mono ?_
  intro r l h
  have hvoc : ∀ s, reloadVocab s → NoW s := fun s h => noW_of_ok s (okSend_vocab s (.inl h))
  rcases h with ⟨e, he, hl⟩ | ⟨a, l1, l2, rfl, h1, rb, rf, l3, l4, rfl, ⟨h3, h3'⟩, h4, hr⟩
  · exact ⟨fun s hs => hvoc s (hl s hs), fun h => by rw [h] at he; cases he⟩
  · have hc4 : ∀ s ∈ l4, NoW s := by
      have : ∀ s ∈ [cancelCmd, []], NoW s := (by decide : ∀ s ∈ [cancelCmd, []], writeCmd ∉ splitOnNL s)
      rcases h4 with rfl | rfl
      · intro s hs; exact this s (by simp at hs; simp [hs])
      · exact this
    refine ⟨fun s hs => ?_, fun hok => ?_⟩
    · rcases List.mem_append.1 hs with h | h
      · exact hvoc s (h1 s h)
      · rcases List.mem_append.1 h with h | h
        · exact h3 s h
        · exact hc4 s h
    · rw [hok] at hr
      obtain ⟨hb, _⟩ := finRes_ok _ _ _ hr.symm
      intro c hc
      exact List.mem_append_right _ (List.mem_append_left _ (h3' hb c hc))

theorem guarded_ok_loop (D : Device σ) (fixed : Bool) (cs : List Str) (s : St σ)
    (h : (guarded D fixed cs s).1 = .ok ()) :
    (changeLoop D fixed cs (sendCmd D confCmd (scheduleReload D s).2).2).1 = .ok () := by
  unfold guarded at h
  obtain ⟨u, hs, hf⟩ := (bindM_ok_iff _ _ _ _).1 h
  rw [finally_eq] at hf
  have hb := (finRes_ok _ _ _ hf).1
  unfold guardedBody at hb
  obtain ⟨u2, hc, hf2⟩ := (bindM_ok_iff _ _ _ _).1 hb
  rw [finally_eq] at hf2
  exact (finRes_ok _ _ _ hf2).1

/-- **write_only_if_all_accepted.** If `write memory` is ever received, then the change loop had
returned normally — every `check` of every command accepted the device's answer (echo intact,
output empty/INFO/WARNING) — and every change command had been sent. -/
theorem write_only_if_all_accepted (D : Device σ) (fixed : Bool) (cs : List Str) (hcs : CleanCs cs)
    (st : St σ) (h0 : st.trace = [])
    (hw : writeCmd ∈ linesOf (applyCommands D fixed cs st).2.trace) :
    (changeLoop D fixed cs (sendCmd D confCmd (scheduleReload D (afterPrep D st)).2).2).1 = .ok () ∧
    ∀ c ∈ cs, c ∈ (applyCommands D fixed cs st).2.trace := by
  -- `guarded` returned ok, otherwise the trace has no `write memory`
  have hprepNoW : ∀ s ∈ prepCmds, NoW s := (by decide : ∀ s ∈ prepCmds, writeCmd ∉ splitOnNL s)
  obtain ⟨lp, htp, hsp⟩ := sends_prepareDevice D st
  obtain ⟨lg, htg, hsg, hcg⟩ := ext_guarded_sent D fixed cs hcs (afterPrep D st)
  have noW_lines : ∀ l : List Str, (∀ s ∈ l, NoW s) → writeCmd ∉ linesOf l := by
    intro l hl hm
    obtain ⟨s, hs, hx⟩ := (mem_linesOf _ _).1 hm
    exact hl s hs hx
  rcases res_cases (prepareDevice D st).1 with ⟨a, hok⟩ | ⟨e, hab⟩
  · have ho : applyCommands D fixed cs st =
        bindM (guarded D fixed cs) (fun _ => writeMem D 2) (afterPrep D st) := by
      unfold applyCommands afterPrep; exact bindM_snd_of_ok _ _ _ _ hok
    rcases res_cases (guarded D fixed cs (afterPrep D st)).1 with ⟨a2, hok2⟩ | ⟨e2, hab2⟩
    · cases a2
      have ho2 : applyCommands D fixed cs st = writeMem D 2 (guarded D fixed cs (afterPrep D st)).2 := by
        rw [ho]; exact bindM_snd_of_ok _ _ _ _ hok2
      constructor
      · exact guarded_ok_loop D fixed cs _ hok2
      · obtain ⟨lw, htw, _⟩ := sends_writeMem D 2 (guarded D fixed cs (afterPrep D st)).2
        intro c hc
        rw [ho2, htw, htg]
        exact List.mem_append_left _ (List.mem_append_right _ (hcg hok2 c hc))
    · exfalso
      have ho2 : applyCommands D fixed cs st = (.abort e2, (guarded D fixed cs (afterPrep D st)).2) := by
        rw [ho]; exact bindM_of_abort _ _ _ _ hab2
      rw [ho2] at hw; simp only at hw
      rw [htg] at hw
      unfold afterPrep at hw; rw [htp, h0, List.nil_append, linesOf_append] at hw
      rcases List.mem_append.1 hw with h | h
      · exact noW_lines lp (fun s hs => hprepNoW s (hsp s hs)) h
      · exact noW_lines lg hsg h
  · exfalso
    have ho : applyCommands D fixed cs st = (.abort e, (prepareDevice D st).2) := by
      unfold applyCommands; exact bindM_of_abort _ _ _ _ hab
    rw [ho] at hw; simp only at hw
    rw [htp, h0, List.nil_append] at hw
    exact noW_lines lp (fun s hs => hprepNoW s (hsp s hs)) hw


/-! ### the gap in `cancel_on_failure`, and satisfiability of the hypotheses -/

/-- a device that answers the seven preparation commands with a prompt, `reload in 2` with the
confirmation question, and then falls silent -/
def gapDevice : Device Nat where
  step n s := (n + 1, if s == reloadCmd then lit "Proceed with reload? [confirm]"
                      else if n < 7 then lit "\nrouter#" else [])

/-- **cancel_on_failure is false without its hypothesis** (F-C15c): `scheduleReload()` runs before
`defer cancelReload()`; if the device falls silent after the confirmation, the run aborts with a
reload scheduled and no `reload cancel` is ever sent. -/
theorem cancel_gap_counterexample :
    ∃ (D : Device Nat) (cs : List Str) (st : St Nat), CleanCs cs ∧ st.trace = [] ∧
      (∃ e, (applyCommands D true cs st).1 = .abort e) ∧
      pendingAfter (linesOf (applyCommands D true cs st).2.trace) = true ∧
      cancelCmd ∉ linesOf (applyCommands D true cs st).2.trace :=
  ⟨gapDevice, [], { dev := 0 }, (by intro c hc; cases hc), rfl,
   ⟨.timeout promptName, by decide +kernel⟩, by decide +kernel, by decide +kernel⟩

/-! ## banners: the change loop against the scripted device

`gs : List Chg` is a change script of any length (single commands and joined two-command lines)
together with what the device does on each line: the output it prints and, optionally, a reload
banner in one of the four forms (`Form.before pad`, `.inside off`, `.afterPrompt pad`, `.after`) with
any message.  `na` selects the dialogue variant of the device (`true`: `reload in 2` is answered directly with
`Proceed with reload? [confirm]`, no `Save? [yes/no]` question); every theorem holds for both.
`st` is any client state between two commands (`Ready`: nothing pending, reload
active).  `Chg.Clean`: command lines contain no line feed/BEL/`#`/device name and do not end in a
blank; outputs are whole lines, no line starting with the device name; banner messages are
non-empty lines.  `Chg.NoProbeFirst` is the exact complement of finding F-C15b. -/

/-- **banner_invariant** (`_partial`: every script, every command index, every form, every offset —
except a probing placement in the FIRST half of a joined line).  Running the script with banners
and running it without them give the same result (ok / the same command rejected with the same
non-blank output lines), the same warnings, and the same transcript once the re-arm exchanges
are removed; no other kind of abort (time-out, echo mismatch, missing prompt) can occur. -/
theorem banner_invariant_partial (na : Bool) (gs : List Chg) (st : St SimSt) (q : List Behav) (hr : Ready st)
    (hq : st.dev.queue = gs.flatMap Chg.behavs ++ q) (hc : ∀ g ∈ gs, g.Clean ∧ g.NoProbeFirst) :
    let o := changeLoop (simDevice [] na) true (gs.map Chg.cmd) st
    let o0 := changeLoop (simDevice [] na) true ((gs.map Chg.plain).map Chg.cmd)
      { st with dev := { st.dev with queue := (gs.map Chg.plain).flatMap Chg.behavs ++ q } }
    (∃ T, o.2.trace = st.trace ++ T ∧ o0.2.trace = st.trace ++ T.filter notRearm) ∧
    o.2.warns = o0.2.warns ∧
    (o.1 = .ok () ↔ o0.1 = .ok ()) ∧
    (o.1 = .ok () → Ready o.2 ∧ o.2.dev.queue = q) ∧
    (o.1 ≠ .ok () → ∃ ci R R0, o.1 = .abort (.unexpectedOutput ci R) ∧
        o0.1 = .abort (.unexpectedOutput ci R0) ∧ neLines R = neLines R0) := by
  intro o o0
  have h := loop_spec na gs st q hr hq hc
  have h0 := loop_spec na (gs.map Chg.plain)
    { st with dev := { st.dev with queue := (gs.map Chg.plain).flatMap Chg.behavs ++ q } } q
    ⟨hr.pend, hr.active, hr.parts⟩ rfl (by
      intro g hg
      obtain ⟨g', hg', rfl⟩ := List.mem_map.1 hg
      exact ⟨Chg.plain_clean g' (hc g' hg').1, Chg.plain_noProbe g'⟩)
  rw [specOk_plain, specWarns_plain, firstBad_plain, specTrace_plain na gs (fun g hg => (hc g hg).1)] at h0
  refine ⟨⟨specTrace na gs, h.1, h0.1⟩, by rw [h.2.1, h0.2.1], ?_, ?_, ?_⟩
  · cases hs : specOk gs with
    | true => exact ⟨fun _ => (h0.2.2.1 hs).1, fun _ => (h.2.2.1 hs).1⟩
    | false =>
      obtain ⟨ci, R, out, e1, _⟩ := h.2.2.2.1 hs
      obtain ⟨ci0, R0, out0, e0, _⟩ := h0.2.2.2.1 hs
      constructor
      · intro hk; rw [e1] at hk; cases hk
      · intro hk; rw [e0] at hk; cases hk
  · intro hok
    cases hs : specOk gs with
    | true => exact (h.2.2.1 hs).2
    | false =>
      obtain ⟨ci, R, out, e1, _⟩ := h.2.2.2.1 hs
      rw [e1] at hok; cases hok
  · intro hne
    cases hs : specOk gs with
    | true => exact absurd (h.2.2.1 hs).1 hne
    | false =>
      obtain ⟨ci, R, out, e1, e2, e3⟩ := h.2.2.2.1 hs
      obtain ⟨ci0, R0, out0, f1, f2, f3⟩ := h0.2.2.2.1 hs
      rw [e2] at f2
      cases f2
      exact ⟨ci, R, R0, e1, f1, by rw [e3, f3]⟩

/-- **banner_invariant for the whole run** (scripts whose outputs are all accepted): the complete
`ApplyCommands` dialogue against the scripted device — preparation, `reload in 2` + confirmation,
the changes, deferred `end`, `reload cancel`, `write memory` — succeeds with and without banners,
with the same warnings, no reload pending, and transcripts that differ exactly by the re-arm
exchanges inside the change phase. -/
theorem banner_invariant_run (na : Bool) (gs : List Chg) (q : List Behav) (st0 : St SimSt)
    (hp : st0.pend = []) (ht : st0.trace = []) (hparts : st0.dev.parts = [])
    (hq : st0.dev.queue = gs.flatMap Chg.behavs ++ q) (hc : ∀ g ∈ gs, g.Clean ∧ g.NoProbeFirst)
    (hok : specOk gs = true) :
    let pre := prepCmds ++ schedLines na ++ [confCmd]
    let suf := [endCmd] ++ [cancelCmd, []] ++ [writeCmd]
    let o := applyCommands (simDevice [] na) true (gs.map Chg.cmd) st0
    let o0 := applyCommands (simDevice [] na) true ((gs.map Chg.plain).map Chg.cmd)
      { st0 with dev := { st0.dev with queue := (gs.map Chg.plain).flatMap Chg.behavs ++ q } }
    o.1 = .ok () ∧ o0.1 = .ok () ∧
    o.2.trace = pre ++ specTrace na gs ++ suf ∧
    o0.2.trace = pre ++ (specTrace na gs).filter notRearm ++ suf ∧
    o.2.warns = o0.2.warns ∧
    pendingAfter (linesOf o.2.trace) = false := by
  intro pre suf o o0
  have h := apply_sim_ok na gs q st0 hp ht hparts hq hc hok
  have h0 := apply_sim_ok na (gs.map Chg.plain) q
    { st0 with dev := { st0.dev with queue := (gs.map Chg.plain).flatMap Chg.behavs ++ q } }
    hp ht hparts rfl (by
      intro g hg
      obtain ⟨g', hg', rfl⟩ := List.mem_map.1 hg
      exact ⟨Chg.plain_clean g' (hc g' hg').1, Chg.plain_noProbe g'⟩)
    (by rw [specOk_plain]; exact hok)
  rw [specWarns_plain] at h0
  have hclean : CleanCs (gs.map Chg.cmd) := by
    intro c hcm
    obtain ⟨g, hg, rfl⟩ := List.mem_map.1 hcm
    have hcl := (hc g hg).1
    have hchg : ∀ c, ChangeCmd c → ∀ x ∈ splitOnNL c, x ≠ cancelCmd ∧ x ≠ writeCmd := by
      intro c hcc x hx
      rw [splitOnNL_no_nl c hcc.clean.noNL] at hx
      simp at hx; subst hx
      have hch := hcc.change
      constructor
      · intro e; rw [e] at hch; revert hch; decide
      · intro e; rw [e] at hch; revert hch; decide
    cases g with
    | one c b => exact hchg c hcl.cmds
    | two c1 c2 b1 b2 =>
      intro x hx
      show x ≠ cancelCmd ∧ x ≠ writeCmd
      have : splitOnNL (c1 ++ '\n' :: c2) = splitOnNL c1 ++ splitOnNL c2 := splitOnNL_append_nl c1 c2
      simp only [Chg.cmd] at hx
      rw [this] at hx
      rcases List.mem_append.1 hx with h | h
      · exact hchg c1 hcl.cmds.1 x h
      · exact hchg c2 hcl.cmds.2 x h
  refine ⟨h.1, h0.1, ?_, ?_, by rw [h.2.2.1, h0.2.2.1], ?_⟩
  · rw [h.2.1]; simp [fullTrace, pre, suf]
  · rw [h0.2.1, fullTrace, specTrace_plain na gs (fun g hg => (hc g hg).1)]; simp [pre, suf]
  · exact no_reload_pending_after_success (simDevice [] na) true _ hclean st0 ht h.1

/-- **rearm_on_one_minute** (model of the repaired code).  In a script whose outputs are all
accepted, for every element `g` (single command or joined line, at any position): its `Send` is
followed by exactly one `do reload in 2` (/ `n`) / confirmation exchange (`rearmLines na`, in both
dialogue variants of the device: with and without the `Save? [yes/no]` question) if the answer to ANY of its
lines carried a `SHUTDOWN in 0:01:00` / `00:01:00` banner (any form, any offset), by none
otherwise, and then by the next command. -/
theorem rearm_on_one_minute (na : Bool) (pre post : List Chg) (g : Chg) (st : St SimSt) (q : List Behav) (hr : Ready st)
    (hq : st.dev.queue = (pre ++ g :: post).flatMap Chg.behavs ++ q)
    (hc : ∀ x ∈ pre ++ g :: post, x.Clean ∧ x.NoProbeFirst) (hok : specOk (pre ++ g :: post) = true) :
    let o := changeLoop (simDevice [] na) true ((pre ++ g :: post).map Chg.cmd) st
    o.1 = .ok () ∧
    o.2.trace = st.trace ++ (pre.flatMap fun x => x.cmd :: (if x.need then rearmLines na else [])) ++
      (g.cmd :: (if g.need then rearmLines na else [])) ++ specTrace na post ∧
    (specTrace na post).head? = post.head?.map Chg.cmd := by
  intro o
  have h := loop_spec na (pre ++ g :: post) st q hr hq hc
  have hpre : specOk pre = true := by
    simp only [specOk, List.all_append, Bool.and_eq_true] at hok; exact hok.1
  have hg : g.valid = true := by
    simp only [specOk, List.all_append, List.all_cons, Bool.and_eq_true] at hok; exact hok.2.1
  refine ⟨(h.2.2.1 hok).1, ?_, ?_⟩
  · rw [h.1, specTrace_append_ok na pre (g :: post) hpre]
    simp [specTrace, hg]
  · cases post with
    | nil => rfl
    | cons x xs => simp [specTrace]

/-- **rearm_on_one_minute is false of the unchanged code** (F-C15, `fixed := false`): a joined
two-command line whose FIRST half is answered with a `SHUTDOWN in 0:01:00` banner inside the
echo: no `do reload in 2` is ever sent, although the run succeeds. -/
theorem rearm_unfixed_counterexample :
    ∃ g : Chg, g.Clean ∧ g.NoProbeFirst ∧ g.need = true ∧
      (applyCommands (simDevice [] false) false [g.cmd] { dev := { queue := g.behavs } }).1 = .ok () ∧
      doReloadCmd ∉ linesOf (applyCommands (simDevice [] false) false [g.cmd] { dev := { queue := g.behavs } }).2.trace ∧
      -- the repaired code re-arms exactly once on the same input
      rearms (linesOf (applyCommands (simDevice [] false) true [g.cmd] { dev := { queue := g.behavs } }).2.trace) = 1 :=
  ⟨.two (lit "no ip route 10.2.0.0 255.255.0.0 10.8.2.1") (lit "ip route 10.2.0.0 255.255.0.0 10.9.2.2")
      { form := .inside 5, msg := lit " --- SHUTDOWN in 0:01:00 ---" } {},
   Chg.clean_of_B _ (by decide +kernel), Chg.noProbe_of_B _ (by decide +kernel),
   by decide +kernel, by decide +kernel, by decide +kernel, by decide +kernel⟩

/-- **banner_invariant is false without `NoProbeFirst`** (F-C15b): a `SHUTDOWN in 0:02:00` banner
with a fresh prompt before the echo of the FIRST half of a joined line: `WaitShort("[#] ?$")`
consumes the answers to both halves, `check` of the second half waits for a prompt that is gone
and the run aborts with a time-out, although the banner-free run succeeds. Likewise for the banner
after the output without a fresh prompt (`TryPrompt` consumes the second answer). -/
theorem banner_invariant_counterexample :
    ∃ g : Chg, g.Clean ∧ ¬ g.NoProbeFirst ∧
      (applyCommands (simDevice [] false) true [g.cmd] { dev := { queue := g.behavs } }).1 =
        .abort (.timeout promptName) ∧
      (applyCommands (simDevice [] false) true [g.plain.cmd] { dev := { queue := g.plain.behavs } }).1 = .ok () ∧
    ∃ g' : Chg, g'.Clean ∧ ¬ g'.NoProbeFirst ∧
      (applyCommands (simDevice [] false) true [g'.cmd] { dev := { queue := g'.behavs } }).1 =
        .abort (.timeout promptName) :=
  ⟨.two (lit "no ip route 10.2.0.0 255.255.0.0 10.8.2.1") (lit "ip route 10.2.0.0 255.255.0.0 10.9.2.2")
      { form := .before 2, msg := lit " --- SHUTDOWN in 0:02:00 ---" } {},
   Chg.clean_of_B _ (by decide +kernel), (by unfold Chg.NoProbeFirst; decide +kernel),
   by decide +kernel, by decide +kernel,
   .two (lit "no ip route 10.2.0.0 255.255.0.0 10.8.2.1") (lit "ip route 10.2.0.0 255.255.0.0 10.9.2.2")
      { form := .after, msg := lit " --- SHUTDOWN in 0:02:00 ---" } {},
   Chg.clean_of_B _ (by decide +kernel), (by unfold Chg.NoProbeFirst; decide +kernel), by decide +kernel⟩

/-- the hypotheses are satisfiable: a script with a joined line, the scripted device -/
example : CleanCs [lit "ip route 10.1.0.0 255.255.0.0 10.9.1.1",
    lit "no ip route 10.2.0.0 255.255.0.0 10.8.2.1\nip route 10.2.0.0 255.255.0.0 10.9.2.2"] := by
  unfold CleanCs OKsend; decide +kernel

example : (scheduleReload (simDevice [] false) (afterPrep (simDevice [] false) { dev := {} })).1 = .ok () := by
  decide +kernel

example : writeCmd ∈ linesOf (applyCommands (simDevice [] false) true
    [lit "ip route 10.1.0.0 255.255.0.0 10.9.1.1"] { dev := {} }).2.trace := by decide +kernel

example : (applyCommands (simDevice [] false) true
    [lit "ip route 10.1.0.0 255.255.0.0 10.9.1.1"] { dev := {} }).1 = .ok () := by decide +kernel

/-- the hypotheses of the banner theorems are satisfiable: the state in which `ApplyCommands` enters
its change loop against the scripted device is `Ready`, for a clean script with banners -/
example :
    let g1 := Chg.one (lit "ip route 10.1.0.0 255.255.0.0 10.9.1.1")
      { form := .before 2, msg := lit " --- SHUTDOWN in 0:01:00 ---", out := lit "INFO: x\n" }
    let g2 := Chg.two (lit "no ip route 10.2.0.0 255.255.0.0 10.8.2.1") (lit "ip route 10.2.0.0 255.255.0.0 10.9.2.2")
      { form := .afterPrompt 2, msg := lit " --- SHUTDOWN in 0:02:00 ---" } { form := .after, msg := lit "x" }
    let D := simDevice [] true
    let st := (sendCmd D confCmd (scheduleReload D (afterPrep D { dev := { queue := g1.behavs ++ g2.behavs } })).2).2
    (st.pend = [] ∧ st.reloadActive = true ∧ st.dev.parts = [] ∧ st.dev.queue = g1.behavs ++ g2.behavs) ∧
    g1.cleanB = true ∧ g2.cleanB = true ∧ g2.noProbeFirstB = true ∧ specOk [g1, g2] = true := by
  decide +kernel

def obligations : List Lean.Name :=
  [``guard_brackets_changes, ``write_only_if_all_accepted, ``no_reload_pending_after_success,
   ``cancel_on_failure_partial, ``cancel_gap_counterexample,
   ``banner_invariant_partial, ``banner_invariant_run, ``banner_invariant_counterexample,
   ``rearm_on_one_minute, ``rearm_unfixed_counterexample]

end NA.Ios
