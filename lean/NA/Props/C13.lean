import NA.Proofs.C13
/-!
# C13 — missing-approve never forgets a device that needs approve

Property theorems only.  `run es` replays an arbitrary history (any length, any clock advances)
on the model of `pkg/status` + `missing-approve`; `needsApprove` is the specification
(latest conclusive observation), `listed` is what `missing-approve` prints.

* `missing_sound` (the listing half as stated) is **false** of the unchanged code:
  `missing_sound_counterexample` (a failed approve erases a newer successful approve and the
  file falls back to a stale UPTODATE compare) and `missing_sound_removed_counterexample`
  (observed policy deleted, current code empty).  What is proved: `missing_sound_partial`.
* `missing_omits` is **false** as stated: `missing_omits_counterexample`; proved:
  `missing_omits_partial`.
-/
namespace NA.C13

theorem inv_run (es : List (Event × Nat)) (w : World) (h : Inv w) (hs : FailSafe es w) :
    Inv (es.foldl step w) := by
  induction es generalizing w with
  | nil => exact h
  | cons e es ih => exact ih _ (inv_step w e h hs.cons.1) hs.cons.2

/-- Listing half, for every history in which no failed approve overwrites a successful
approve that is newer than an UPTODATE compare record, and whose current code is not empty
in all six files: a device whose latest conclusive observation does not establish the current
code is printed. -/
theorem missing_sound_partial (es : List (Event × Nat)) (hsafe : FailSafe es {})
    (hne : (run es).curCode ≠ zeros) :
    (run es).needsApprove = true → (run es).listed = true := by
  have hinv := inv_run es {} inv_init hsafe
  unfold run at *
  generalize es.foldl step {} = w at *
  intro hneeds
  cases hl0 : w.listed with
  | true => rfl
  | false =>
  exfalso
  have hl : NA.C13.listed w.st w.disk w.cur w.curCode = false := by
    simpa [World.listed] using hl0
  unfold NA.C13.listed at hl
  by_cases hd : devicePolicy w.st = 0
  · simp [hd] at hl
  · have hobs := hinv.sound hd
    have hle := hinv.dp_le
    simp only [hd, if_false] at hl
    have hcode : w.codeOf (devicePolicy w.st) = w.curCode := by
      by_cases hc : devicePolicy w.st = w.cur
      · simp [World.curCode, hc]
      · simp only [hc, if_false] at hl
        have hl' : readPolicy w.disk (devicePolicy w.st) = w.curCode := by simpa using hl
        unfold readPolicy World.disk at hl'
        by_cases hr : devicePolicy w.st ∈ w.removed
        · simp [hd, hr] at hl'; exact absurd hl'.symm hne
        · have : ¬ w.cur < devicePolicy w.st := by omega
          simpa [hd, hr, this] using hl'
    simp [World.needsApprove, hobs, hcode] at hneeds

/-- The listing half as stated (no hypothesis on failed approves) is false: policy 1 = code X,
compare UPTODATE; policy 2 = code Y, approve OK; policy 3 = code X again, approve FAILED.
The device carries Y, current is X, and missing-approve does not list it. -/
theorem missing_sound_counterexample :
    ∃ es, (run es).curCode ≠ zeros ∧ (run es).needsApprove = true ∧ (run es).listed = false :=
  ⟨[(.newPolicy [1,0,0,0,0,0], 0), (.approveOk, 0), (.compare, 0),
    (.newPolicy [2,0,0,0,0,0], 0), (.approveOk, 0),
    (.newPolicy [1,0,0,0,0,0], 0), (.approveFailed, 0)], by decide⟩

/-- … and it is false when the observed policy was deleted and the current code is empty. -/
theorem missing_sound_removed_counterexample :
    ∃ es, FailSafe es {} ∧ (run es).needsApprove = true ∧ (run es).listed = false :=
  ⟨[(.newPolicy [1,0,0,0,0,0], 0), (.approveOk, 0), (.newPolicy zeros, 0), (.remove 1, 0)],
   by decide⟩

theorem j_run (es : List (Event × Nat)) (w : World) (cl : Bool)
    (ht : TimesOK w) (hc : CmpOK w.st) (hj : J w cl) :
    J (runC es (w, cl)).1 (runC es (w, cl)).2 := by
  induction es generalizing w cl with
  | nil => exact hj
  | cons e es ih =>
    exact ih _ _ (times_step w e ht) (cmpOK_step w e hc) (j_step w cl e ht hc hj)

/-- Omission half, for histories in which, since the latest conclusive observation, no compare
ended with errors, the status file was not damaged, and no failed approve overwrote a
successful approve that the file needs (ghost flag of `runC`): if that observation establishes
the current code and the observed policy is still on disk, the device is not printed. -/
theorem missing_omits_partial (es : List (Event × Nat)) (c : Code) (p : Nat)
    (hclean : (runC es ({}, true)).2 = true)
    (hobs : (run es).obs = .carries c p) (heq : c = (run es).curCode)
    (hdisk : p ∉ (run es).removed) :
    (run es).listed = false := by
  have hj := j_run es {} true inv_init.times (by simp [CmpOK]) (by simp [J])
  have hrun : (runC es ({}, true)).1 = run es := by simp [runC_fst, run]
  rw [hrun] at hj
  obtain ⟨h1, h2, h3, h4⟩ := hj hclean c p hobs
  unfold World.listed NA.C13.listed
  rw [h1]
  simp only [h2, if_false]
  by_cases hc : p = (run es).cur
  · simp [hc]
  · have : ¬ (run es).cur < p := by omega
    simp [hc, readPolicy, World.disk, h2, hdisk, this, ← h4, heq]

/-- The omission half as stated is false: approve OK then approve FAILED for the same policy. -/
theorem missing_omits_counterexample :
    ∃ es c p, (run es).obs = .carries c p ∧ c = (run es).curCode ∧ p ∉ (run es).removed ∧
      (run es).listed = true :=
  ⟨[(.newPolicy [1,0,0,0,0,0], 0), (.approveOk, 0), (.approveFailed, 0)], [1,0,0,0,0,0], 1, by decide⟩

/-! Non-vacuity: histories with failed approves, sticky DIFF, drift and removal meet the hypotheses. -/
example : FailSafe [(.newPolicy [1,0,0,0,0,0], 0), (.compare, 3), (.approveFailed, 0), (.approveOk, 1),
    (.drift [7,0,0,0,0,0], 0), (.compare, 0), (.compare, 0), (.newPolicy [2,0,0,0,0,0], 0),
    (.approveFailed, 0), (.remove 1, 0)] {} := by decide
example : (runC [(.newPolicy [1,0,0,0,0,0], 0), (.compare, 3), (.approveFailed, 0),
    (.newPolicy [1,0,0,0,0,0], 2), (.bzip 1, 0)] ({}, true)).2 = true := by decide

def obligations : List Lean.Name := [
  ``missing_sound_partial, ``missing_sound_counterexample, ``missing_sound_removed_counterexample,
  ``missing_omits_partial, ``missing_omits_counterexample, ``inv_step, ``j_step]

end NA.C13
