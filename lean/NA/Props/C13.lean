import NA.Proofs.C13
/-!
# C13 — missing-approve never forgets a device that needs approve

Property theorems only.  `run es` replays an arbitrary history (any length, any clock advances)
on the model of `pkg/status` + `missing-approve`; `needsApprove` is the specification
(latest conclusive observation), `listed` is what `missing-approve` prints.

The model mirrors the REPAIRED `status.SetApprove` (/repo commit 3b5699b): a failed approve
first saves a successful approve that is newer than the compare record into the compare slot.
Former findings F-C13 (a failed approve made the file forget a successful approve: device listed
although nothing is missing) and F-C13s (… and fall back to a stale UPTODATE compare: device NOT
listed although it needs approve) are repaired; regression theorems
`failed_approve_keeps_ok_record`, `failed_approve_after_revert_listed`.

* `missing_sound`: the FULL listing half; the only hypothesis is that the current code is not
  empty in all six files.  (That hypothesis was dropped with repair b82d07c of finding F-C13r:
  `missing_sound` now holds for every history; `missing_sound_removed_regression` pins the former witness.)
* `missing_omits_partial`: the omission half for histories in which, since the latest conclusive
  observation, no compare ended with errors and the status file was not damaged (ghost flag of
  `runC`; a failed approve no longer disturbs it).  That hypothesis is needed:
  `missing_omits_needs_clean`.
* `inv_step`, `j_step`: the invariants behind both halves hold for EVERY event.
-/
namespace NA.C13

theorem inv_run (es : List (Event × Nat)) (w : World) (h : Inv w) : Inv (es.foldl step w) := by
  induction es generalizing w with
  | nil => exact h
  | cons e es ih => exact ih _ (inv_step w e h)

/-- Listing half, for EVERY history: a device whose latest conclusive observation does not establish the
current code is printed.  (No side condition any more: since repair b82d07c a removed policy of the
device means "printed", the former finding F-C13r.) -/
theorem missing_sound (es : List (Event × Nat)) :
    (run es).needsApprove = true → (run es).listed = true := by
  have hinv := inv_run es {} inv_init
  unfold run at *
  generalize es.foldl step {} = w at *
  intro hneeds
  cases hl0 : w.listed with
  | true => rfl
  | false =>
  exfalso
  have hl : NA.C13.listed w.st w.disk w.cur w.curCode = false := by
    simpa [World.listed] using hl0
  unfold NA.C13.listed at hl
  by_cases hd : devicePolicy w.st = 0
  · simp [hd] at hl
  · have hobs := hinv.sound hd
    have hle := hinv.dp_le
    simp only [hd, if_false] at hl
    have hcode : w.codeOf (devicePolicy w.st) = w.curCode := by
      by_cases hc : devicePolicy w.st = w.cur
      · simp [World.curCode, hc]
      · simp only [hc, if_false] at hl
        by_cases hr : devicePolicy w.st ∈ w.removed
        · simp [World.disk, hd, hr] at hl
        · have hlt : ¬ w.cur < devicePolicy w.st := by omega
          have hsome : w.disk (devicePolicy w.st) = some (w.codeOf (devicePolicy w.st)) := by
            simp [World.disk, hd, hr, hlt]
          simp only [hsome, Option.isNone_some, Bool.false_eq_true, if_false, readPolicy, Option.getD_some] at hl
          simpa using hl
    simp [World.needsApprove, hobs, hcode] at hneeds

/-- Regression witness of former finding F-C13r: the observed policy was deleted and the current code is
empty in all six files (`readFile` of a missing file equals an empty file); the device is printed now. -/
theorem missing_sound_removed_regression :
    let es : List (Event × Nat) :=
      [(.newPolicy [1,0,0,0,0,0], 0), (.approveOk, 0), (.newPolicy zeros, 0), (.remove 1, 0)]
    (run es).curCode = zeros ∧ (run es).needsApprove = true ∧ (run es).listed = true := by decide

theorem j_run (es : List (Event × Nat)) (w : World) (cl : Bool)
    (ht : TimesOK w) (hc : CmpOK w.st) (hj : J w cl) :
    J (runC es (w, cl)).1 (runC es (w, cl)).2 := by
  induction es generalizing w cl with
  | nil => exact hj
  | cons e es ih =>
    exact ih _ _ (times_step w e ht) (cmpOK_step w e hc) (j_step w cl e ht hc hj)

/-- Omission half, for histories in which, since the latest conclusive observation, no compare
ended with errors and the status file was not damaged (ghost flag of `runC`): if that
observation establishes the current code and the observed policy is still on disk, the device
is not printed. -/
theorem missing_omits_partial (es : List (Event × Nat)) (c : Code) (p : Nat)
    (hclean : (runC es ({}, true)).2 = true)
    (hobs : (run es).obs = .carries c p) (heq : c = (run es).curCode)
    (hdisk : p ∉ (run es).removed) :
    (run es).listed = false := by
  have hj := j_run es {} true inv_init.times (by simp [CmpOK]) (by simp [J])
  have hrun : (runC es ({}, true)).1 = run es := by simp [runC_fst, run]
  rw [hrun] at hj
  obtain ⟨h1, h2, h3, h4⟩ := hj hclean c p hobs
  unfold World.listed NA.C13.listed
  rw [h1]
  simp only [h2, if_false]
  by_cases hc : p = (run es).cur
  · simp [hc]
  · have : ¬ (run es).cur < p := by omega
    simp [hc, readPolicy, World.disk, h2, hdisk, this, ← h4, heq]

/-- The hypothesis `hclean` is needed: after a damaged status file (approve OK, then the file is
emptied) the device IS printed although the latest observation establishes the current code. -/
theorem missing_omits_needs_clean :
    ∃ es c p, (run es).obs = .carries c p ∧ c = (run es).curCode ∧ p ∉ (run es).removed ∧
      (runC es ({}, true)).2 = false ∧ (run es).listed = true :=
  ⟨[(.newPolicy [1,0,0,0,0,0], 0), (.approveOk, 0), (.damage, 0)], [1,0,0,0,0,0], 1, by decide⟩

/-- … and likewise after a compare that ended with errors. -/
example : ∃ es c p, (run es).obs = .carries c p ∧ c = (run es).curCode ∧ p ∉ (run es).removed ∧
      (runC es ({}, true)).2 = false ∧ (run es).listed = true :=
  ⟨[(.newPolicy [1,0,0,0,0,0], 0), (.approveOk, 0), (.compareErr, 0)], [1,0,0,0,0,0], 1, by decide⟩

/-! ## Regression: the two repaired findings -/

/-- Former F-C13: approve OK, then approve FAILED for the same policy.  The successful approve is
kept (in the compare slot) and the device is not printed. -/
theorem failed_approve_keeps_ok_record :
    (run [(.newPolicy [1,0,0,0,0,0], 0), (.approveOk, 0), (.approveFailed, 0)]).listed = false := by
  decide

/-- Former F-C13s: policy 1 = code X, compare UPTODATE; policy 2 = code Y, approve OK;
policy 3 = code X again, approve FAILED.  The device carries Y, current is X: it is printed
(the unrepaired code fell back to the stale compare of policy 1 and did not print it). -/
theorem failed_approve_after_revert_listed :
    (run [(.newPolicy [1,0,0,0,0,0], 0), (.approveOk, 0), (.compare, 0),
      (.newPolicy [2,0,0,0,0,0], 0), (.approveOk, 0),
      (.newPolicy [1,0,0,0,0,0], 0), (.approveFailed, 0)]).listed = true := by
  decide

/-! Non-vacuity: histories with failed approves, sticky DIFF, drift and removal meet the hypotheses. -/
example : (run [(.newPolicy [1,0,0,0,0,0], 0), (.compare, 3), (.approveFailed, 0), (.approveOk, 1),
    (.drift [7,0,0,0,0,0], 0), (.compare, 0), (.compare, 0), (.newPolicy [2,0,0,0,0,0], 0),
    (.approveFailed, 0), (.remove 1, 0)]).curCode ≠ zeros := by decide
example : (runC [(.newPolicy [1,0,0,0,0,0], 0), (.approveOk, 3), (.approveFailed, 0),
    (.newPolicy [1,0,0,0,0,0], 2), (.approveFailed, 0), (.bzip 1, 0)] ({}, true)).2 = true := by decide

/-! ## approve-all terminates -/

/-- A successful approve takes the device off the list, after EVERY history (so approve-all, which
approves each printed device once, ends with an empty list if every approve succeeds). -/
theorem approve_ok_unlists (es : List (Event × Nat)) (dt : Nat) (hcur : (run es).cur ≠ 0) :
    (run (es ++ [(.approveOk, dt)])).listed = false := by
  have hinv : Inv (run es) := inv_run es {} inv_init
  have ht := hinv.times.ct_le
  simp only [run, List.foldl_append, List.foldl_cons, List.foldl_nil]
  change (step (run es) (.approveOk, dt)).listed = false
  simp only [step, World.cur] at hcur ⊢
  simp only [World.cur, hcur, if_false, World.listed, listed, devicePolicy, setApprove, Bool.false_and,
    Bool.false_eq_true, if_false]
  have hlt : ¬ ((run es).clock + dt + 1 < (run es).st.compare.time) := by omega
  simp [hlt, hcur]

/-- A compare that finds the device equal to the current code takes the device off the list, after EVERY
history (second way out of the list besides `approve_ok_unlists`; no cleanliness hypothesis: an UPTODATE
compare overwrites whatever a damaged file or an error-compare left behind). -/
theorem compare_uptodate_unlists (es : List (Event × Nat)) (dt : Nat) (hcur : (run es).cur ≠ 0)
    (heq : (run es).dev = (run es).curCode) :
    (run (es ++ [(.compare, dt)])).listed = false := by
  have hinv : Inv (run es) := inv_run es {} inv_init
  have ht := hinv.times.at_le
  simp only [run, List.foldl_append, List.foldl_cons, List.foldl_nil]
  change (step (run es) (.compare, dt)).listed = false
  simp only [step, World.cur] at hcur ⊢
  have hne : ((run es).dev != (run es).curCode) = false := by simp [heq]
  have hne' : ((run es).dev != World.curCode { (run es) with clock := (run es).clock + dt + 1 }) = false := by
    simpa [World.curCode, World.codeOf, World.cur] using hne
  simp only [World.cur, hcur, if_false, hne', World.listed, listed, devicePolicy, setCompare,
    Bool.not_false, if_true]
  have hlt : (run es).st.approve.time < (run es).clock + dt + 1 := by omega
  have h0 : (0 : Nat) < (run es).clock + dt + 1 := by omega
  cases hr : (run es).st.approve.result <;> simp [hlt, h0, hcur]

/-- A compare that finds a difference puts the device on the list, after EVERY history (corollary of
`missing_sound`: the observation `differs` is conclusive). -/
theorem compare_diff_lists (es : List (Event × Nat)) (dt : Nat) (hcur : (run es).cur ≠ 0)
    (hne : (run es).dev ≠ (run es).curCode) :
    (run (es ++ [(.compare, dt)])).listed = true := by
  apply missing_sound
  simp only [run, List.foldl_append, List.foldl_cons, List.foldl_nil]
  change (step (run es) (.compare, dt)).needsApprove = true
  have hb : ((run es).dev != (run es).curCode) = true := by simpa using hne
  have hb' : ((run es).dev != World.curCode { (run es) with clock := (run es).clock + dt + 1 }) = true := by
    simpa [World.curCode, World.codeOf, World.cur] using hb
  simp only [step, World.cur] at hcur ⊢
  simp [hcur, hb', World.needsApprove]

/-- Non-vacuity of both: after approve, drift and a new policy the two compares apply. -/
example :
    let es : List (Event × Nat) := [(.newPolicy [1,0,0,0,0,0], 0), (.approveOk, 0), (.damage, 1),
      (.compareErr, 0)]
    (run es).cur ≠ 0 ∧ (run es).dev = (run es).curCode ∧ (run es).listed = true ∧
      (run (es ++ [(.compare, 2)])).listed = false := by decide
example :
    let es : List (Event × Nat) := [(.newPolicy [1,0,0,0,0,0], 0), (.approveOk, 0), (.drift [9,0,0,0,0,0], 1)]
    (run es).cur ≠ 0 ∧ (run es).dev ≠ (run es).curCode ∧ (run es).listed = false ∧
      (run (es ++ [(.compare, 2)])).listed = true := by decide

/-- … and stays off the list while nothing but compares that find no difference, compressions and
removals of OTHER policies happen (non-vacuity example of `missing_omits_partial` with all four
hypotheses on a history with two policies, an approve, a compare and a compression). -/
example :
    let es : List (Event × Nat) := [(.newPolicy [1,0,0,0,0,0], 0), (.approveOk, 2), (.compare, 0),
      (.newPolicy [1,0,0,0,0,0], 1), (.bzip 1, 0)]
    (runC es ({}, true)).2 = true ∧ (run es).obs = .carries [1,0,0,0,0,0] 1 ∧
      [1,0,0,0,0,0] = (run es).curCode ∧ 1 ∉ (run es).removed ∧ (run es).listed = false := by decide

def obligations : List Lean.Name := [
  ``missing_sound, ``missing_sound_removed_regression,
  ``missing_omits_partial, ``missing_omits_needs_clean,
  ``failed_approve_keeps_ok_record, ``failed_approve_after_revert_listed,
  ``inv_step, ``j_step, ``approve_ok_unlists,
  ``compare_uptodate_unlists, ``compare_diff_lists]

end NA.C13
