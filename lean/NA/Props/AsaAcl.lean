import NA.Proofs.AsaConv
import NA.Proofs.CellsSound
/-!
# ASA ACL planner (`diffASAACLs`): convergence and `line N` refinement, unbounded

For EVERY merged list `M` of an edit script (any length), with pairwise different `mkey`s in
the device's list `olds M` and in the target list `news M`:

* `asa_plan_converges`: the strict device (`NA.Spec.AclDev`: `line N` must be inside the
  list, no duplicate entry, a deleted line must be the very line at that number) accepts every
  command of `planASA M` and ends with exactly `news M`.
* `asa_pos_refines`: every emitted position is `cnt μ idx`, the index of the touched cell in the
  then-current list `masked M μ` (`MaskRun`, NA/Proofs/AsaConv2.lean); i.e. the Go map `pos`
  refines the presence-mask semantics.
* `asa_prefix_states_masked` / `asa_trace_states_masked`: every intermediate device state is
  `masked M μ` for a mask `μ ≤ old ∨ new`.
* `asa_resume_converges`: planning again from any intermediate state converges.  (The `Nodup`
  hypothesis on the intermediate state is not needed: the device guarantees it,
  `asaExec_nodup`.)

* `cellsOf_sound` (NA/Proofs/CellsSound.lean) / `asa_plan_converges_script`: the same for the
  merged list of any edit script (ranges) that `cellsOf` accepts for device list `a` and target `b`.

Nothing is assumed about the Myers script (`M` is arbitrary; `normalised` is not needed).
Object-groups are outside this model (see NA/Model/AclPlan.lean).
-/
namespace NA.Acl

/-- `ν` is a presence mask over `M` that marks only cells of the old or of the new list. -/
def OldOrNew (M : List Cell) (ν : List Bool) : Prop :=
  ν.length = M.length ∧
    ∀ x, x < M.length → ν.getD x false = true →
      (M.getD x default).old = true ∨ (M.getD x default).new = true

theorem oldOrNew_of_below {M : List Cell} {ν : List Bool} (h : Below M (oldMask M) ν) :
    OldOrNew M ν := by
  refine ⟨h.1, fun x hx hν => ?_⟩
  rcases h.2 x hx hν with h' | h'
  · rw [oldMask_getD M x hx] at h'; exact Or.inl h'
  · exact Or.inr h'

/-! ## 2. Position refinement -/

/-- The plan is a mask-level run from the old mask to the new mask: at every step the
position used by the emitted command is `cnt μ idx` for the current mask `μ` (constructors of
`MaskRun`), the added line is absent and clashes with no present line, the deleted line is
present. -/
theorem asa_pos_refines (M : List Cell) (hold : ((olds M).map (·.mkey)).Nodup)
    (hnew : ((news M).map (·.mkey)).Nodup) :
    MaskRun M (oldMask M) (planASA M) (newMask M) :=
  planASA_maskRun M (newInj_of_nodup M hnew) (oldInj_of_nodup M hold)

/-! ## 1. Convergence -/

theorem asa_plan_converges (M : List Cell) (hold : ((olds M).map (·.mkey)).Nodup)
    (hnew : ((news M).map (·.mkey)).Nodup) :
    asaExec (olds M) (planASA M) = some (news M) := by
  have := (asa_pos_refines M hold hnew).exec
  rwa [masked_old, masked_new] at this

/-! ## 3. Intermediate states -/

/-- Trace form: the device accepts the whole plan and every state after a command is a masked
form of `M`. -/
theorem asa_trace_states_masked (M : List Cell) (hold : ((olds M).map (·.mkey)).Nodup)
    (hnew : ((news M).map (·.mkey)).Nodup) :
    ∃ tr, asaTrace (olds M) (planASA M) = some tr ∧
      ∀ s, s ∈ tr → ∃ μ, OldOrNew M μ ∧ s = masked M μ := by
  obtain ⟨tr, htr, hall⟩ := (asa_pos_refines M hold hnew).trace
  rw [masked_old] at htr
  refine ⟨tr, htr, fun s hs => ?_⟩
  obtain ⟨ν, hb, e⟩ := hall s hs
  exact ⟨ν, oldOrNew_of_below hb, e⟩

theorem asaTrace_length (s : List Line) (ops : List Op) (tr : List (List Line))
    (h : asaTrace s ops = some tr) : tr.length = ops.length := by
  induction ops generalizing s tr with
  | nil => simp [asaTrace] at h; subst h; rfl
  | cons op ops ih =>
    cases h1 : asaExec1 s op with
    | none => simp [asaTrace, h1] at h
    | some s' =>
      cases h2 : asaTrace s' ops with
      | none => simp [asaTrace, h1, h2] at h
      | some rest =>
        simp [asaTrace, h1, h2] at h
        subst h
        simp [ih s' rest h2]

/-- The `k`-th entry of the trace is the result of the first `k+1` commands. -/
theorem asaTrace_take (s : List Line) (ops : List Op) (tr : List (List Line))
    (h : asaTrace s ops = some tr) (k : Nat) (t : List Line) (hk : tr[k]? = some t) :
    asaExec s (ops.take (k + 1)) = some t := by
  induction ops generalizing s tr k with
  | nil => simp [asaTrace] at h; subst h; simp at hk
  | cons op ops ih =>
    cases h1 : asaExec1 s op with
    | none => simp [asaTrace, h1] at h
    | some s' =>
      cases h2 : asaTrace s' ops with
      | none => simp [asaTrace, h1, h2] at h
      | some rest =>
        simp [asaTrace, h1, h2] at h
        subst h
        cases k with
        | zero =>
          simp at hk
          subst hk
          simp [asaExec, h1]
        | succ k =>
          have := ih s' rest h2 k (by simpa using hk)
          simp only [asaExec, List.take_succ_cons, List.foldlM_cons, h1] at this ⊢
          simpa using this

/-- Prefix form: after any number `k` of commands (an interrupted approve) the device list is
`masked M μ` for a mask `μ ≤ old ∨ new`. -/
theorem asa_prefix_states_masked (M : List Cell) (hold : ((olds M).map (·.mkey)).Nodup)
    (hnew : ((news M).map (·.mkey)).Nodup) (k : Nat) :
    ∃ μ, OldOrNew M μ ∧ asaExec (olds M) ((planASA M).take k) = some (masked M μ) := by
  cases k with
  | zero =>
    refine ⟨oldMask M, oldOrNew_of_below (Below.refl M _ (by simp [oldMask])), ?_⟩
    simp [asaExec, masked_old]
  | succ k =>
    obtain ⟨tr, htr, hall⟩ := asa_trace_states_masked M hold hnew
    by_cases hk : k < tr.length
    · have hget : tr[k]? = some tr[k] := by simp [hk]
      obtain ⟨μ, hμ, e⟩ := hall tr[k] (List.getElem_mem hk)
      exact ⟨μ, hμ, e ▸ asaTrace_take _ _ tr htr k tr[k] hget⟩
    · have hl := asaTrace_length _ _ tr htr
      refine ⟨newMask M, ⟨by simp [newMask], fun x hx hν => ?_⟩, ?_⟩
      · rw [newMask_getD M x hx] at hν; exact Or.inr hν
      · rw [List.take_of_length_le (by omega), masked_new]
        exact asa_plan_converges M hold hnew

/-! ## 4. Resuming after an interruption -/

/-- The strict device keeps `mkey`s pairwise different over any command list. -/
theorem asaExec_nodup (s s' : List Line) (ops : List Op) (h : (s.map (·.mkey)).Nodup)
    (he : asaExec s ops = some s') : (s'.map (·.mkey)).Nodup := by
  induction ops generalizing s with
  | nil => simp [asaExec] at he; subst he; exact h
  | cons op ops ih =>
    cases h1 : asaExec1 s op with
    | none => simp [asaExec, h1] at he
    | some s1 =>
      simp only [asaExec, List.foldlM_cons, h1] at he
      exact ih s1 (asaExec1_nodup s s1 op h h1) (by simpa [asaExec] using he)

/-- From the state `s` reached after any `k` commands of the plan, the plan of ANY script `M'`
from `s` to the same target converges.  -/
theorem asa_resume_converges (M : List Cell) (hold : ((olds M).map (·.mkey)).Nodup)
    (hnew : ((news M).map (·.mkey)).Nodup) (k : Nat) (s : List Line)
    (hs : asaExec (olds M) ((planASA M).take k) = some s)
    (M' : List Cell) (ho : olds M' = s) (hn : news M' = news M) :
    asaExec s (planASA M') = some (news M) := by
  have hold' : ((olds M').map (·.mkey)).Nodup := by
    rw [ho]; exact asaExec_nodup _ s _ hold hs
  have := asa_plan_converges M' hold' (by rw [hn]; exact hnew)
  rwa [ho, hn] at this

/-- Same, for the states listed by the trace. -/
theorem asa_resume_converges_trace (M : List Cell) (hold : ((olds M).map (·.mkey)).Nodup)
    (hnew : ((news M).map (·.mkey)).Nodup) (tr : List (List Line))
    (htr : asaTrace (olds M) (planASA M) = some tr) (s : List Line) (hs : s ∈ tr)
    (M' : List Cell) (ho : olds M' = s) (hn : news M' = news M) :
    asaExec s (planASA M') = some (news M) := by
  have hold' : ((olds M').map (·.mkey)).Nodup := by
    rw [ho]; exact asaTrace_nodup _ _ tr hold htr s hs
  have := asa_plan_converges M' hold' (by rw [hn]; exact hnew)
  rwa [ho, hn] at this

/-! ## Concrete instance: one move (`B` changes its `log`), one add (`D`), one delete (`E`) -/

def exA : Line := { key := 1, mkey := 1, permit := true, mask := 1 }
def exB : Line := { key := 2, mkey := 2, permit := true, mask := 2 }
def exB' : Line := { key := 22, mkey := 2, permit := true, mask := 2 }
def exC : Line := { key := 3, mkey := 3, permit := false, mask := 4 }
def exD : Line := { key := 4, mkey := 4, permit := true, mask := 8 }
def exE : Line := { key := 5, mkey := 5, permit := false, mask := 16 }

/-- device: A B C E;  target: A C B' D. -/
def exM : List Cell :=
  [⟨exA, true, true⟩, ⟨exB, true, false⟩, ⟨exC, true, true⟩,
   ⟨exB', false, true⟩, ⟨exD, false, true⟩, ⟨exE, true, false⟩]

example : olds exM = [exA, exB, exC, exE] ∧ news exM = [exA, exC, exB', exD] := by decide
example : ((olds exM).map (·.mkey)).Nodup := by decide
example : ((news exM).map (·.mkey)).Nodup := by decide
example : planASA exM = [Op.move 1 exB 2 exB', Op.add 3 exD, Op.del 4 exE] := by decide
example : asaExec (olds exM) (planASA exM) = some (news exM) :=
  asa_plan_converges exM (by decide) (by decide)
example : asaTrace (olds exM) (planASA exM)
    = some [[exA, exC, exB', exE], [exA, exC, exB', exD, exE], [exA, exC, exB', exD]] := by decide
/-- Resume after the first command with a fresh script (keep A, C, B'; insert D; delete E). -/
example : asaExec [exA, exC, exB', exE]
    (planASA [⟨exA, true, true⟩, ⟨exC, true, true⟩, ⟨exB', true, true⟩,
              ⟨exD, false, true⟩, ⟨exE, true, false⟩]) = some (news exM) :=
  asa_resume_converges exM (by decide) (by decide) 1 _ (by decide) _ (by decide) (by decide)

/-- The `Nodup` hypotheses are needed: with two device lines of the same `mkey` and a target
line of that `mkey`, the strict device rejects the plan (the add clashes with the remaining
duplicate). -/
example : asaExec (olds [⟨exB, true, false⟩, ⟨exB, true, false⟩, ⟨exB', false, true⟩])
    (planASA [⟨exB, true, false⟩, ⟨exB, true, false⟩, ⟨exB', false, true⟩]) = none := by decide

/-! ## 5. From edit scripts (ranges) -/

/-- For every script `rs` that `cellsOf` accepts for the device list `a` and the target `b`:
the plan computed from its merged list, executed on the strict device holding `a`, yields `b`. -/
theorem asa_plan_converges_script (a b : List Line) (rs : List Range) (M : List Cell)
    (h : cellsOf a b rs = some M) (hold : (a.map (·.mkey)).Nodup) (hnew : (b.map (·.mkey)).Nodup) :
    asaExec a (planASA M) = some b := by
  obtain ⟨ho, hn⟩ := cellsOf_sound a b rs M h
  have := asa_plan_converges M (by rw [ho]; exact hold) (by rw [hn]; exact hnew)
  rwa [ho, hn] at this

/-- Non-vacuity: a Myers-shaped script (equal, delete, equal, delete, insert) is accepted. -/
def exRanges : List Range := [⟨0, 1, 0, 1⟩, ⟨1, 2, 1, 1⟩, ⟨2, 3, 1, 2⟩, ⟨3, 4, 2, 2⟩, ⟨4, 4, 2, 4⟩]

example : cellsOf [exA, exB, exC, exE] [exA, exC, exB', exD] exRanges
    = some [⟨exA, true, true⟩, ⟨exB, true, false⟩, ⟨exC, true, true⟩, ⟨exE, true, false⟩,
            ⟨exB', false, true⟩, ⟨exD, false, true⟩] := by decide
example : asaExec [exA, exB, exC, exE]
    (planASA [⟨exA, true, true⟩, ⟨exB, true, false⟩, ⟨exC, true, true⟩, ⟨exE, true, false⟩,
              ⟨exB', false, true⟩, ⟨exD, false, true⟩]) = some [exA, exC, exB', exD] :=
  asa_plan_converges_script _ _ exRanges _ (by decide) (by decide) (by decide)
/-- The special "no commonality" form of `myers.Diff`. -/
example : cellsOf [exB, exE] [exD] [⟨0, 2, 0, 0⟩, ⟨0, 0, 0, 1⟩]
    = some [⟨exB, true, false⟩, ⟨exE, true, false⟩, ⟨exD, false, true⟩] := by decide
/-- A script that is not one for `a`, `b` is rejected. -/
example : cellsOf [exA, exB] [exA, exC] [⟨0, 2, 0, 2⟩] = none := by decide

end NA.Acl

namespace NA.AsaAcl
def obligations : List Lean.Name := [
  ``NA.Acl.asa_plan_converges, ``NA.Acl.asa_pos_refines,
  ``NA.Acl.asa_trace_states_masked, ``NA.Acl.asa_prefix_states_masked,
  ``NA.Acl.asa_resume_converges, ``NA.Acl.asa_resume_converges_trace,
  ``NA.Acl.asaExec_nodup,
  ``NA.Acl.cellsFrom_sound, ``NA.Acl.cellsOf_sound, ``NA.Acl.asa_plan_converges_script]
end NA.AsaAcl
