import NA.Proofs.C18Cisco
import NA.Proofs.C18Via
import NA.Proofs.C18Match
/-!
# C18, round 3 — the general model of cisco `MergeSpoc` (`NA/Model/MergeCisco.lean`)

`mergeSpocSt a b raw` runs the whole recursion (`mergeCmds`, crypto maps, dynamic maps, ACLs, generic
commands such as routes, `mergeSubCmds`, `mergeRefs` with simple and non-simple objects) on command tables
as the real parser produces them; `.error e` is the abort with a diagnostic, `warningsOf` the
"Ignoring unused …" warnings.  All theorems hold for ALL tables `a`, `b`.
-/
namespace NA.C18.G

/-! ## A raw entry that cannot be merged is reported -/

theorem foldE_append {σ β : Type} (f : σ → β → Except Err σ) (s : σ) (l1 l2 : List β) :
    foldE f s (l1 ++ l2) = match foldE f s l1 with
      | .ok s' => foldE f s' l2
      | .error e => .error e := by
  induction l1 generalizing s with
  | nil => rfl
  | cons x xs ih =>
    simp only [List.cons_append, foldE]
    cases f s x with
    | ok s' => exact ih s'
    | error e => rfl

theorem mem_insertSorted (k x : String) (l : List String) : x ∈ insertSorted k l ↔ x = k ∨ x ∈ l := by
  induction l with
  | nil => simp [insertSorted]
  | cons y ys ih =>
    unfold insertSorted
    split
    · simp
    · simp only [List.mem_cons, ih]
      constructor
      · rintro (h | h | h)
        · exact Or.inr (Or.inl h)
        · exact Or.inl h
        · exact Or.inr (Or.inr h)
      · rintro (h | h | h)
        · exact Or.inr (Or.inl h)
        · exact Or.inl h
        · exact Or.inr (Or.inr h)

theorem mem_sortStrings (x : String) (l : List String) : x ∈ sortStrings l ↔ x ∈ l := by
  unfold sortStrings
  have : ∀ (l acc : List String), x ∈ l.foldl (fun acc k => insertSorted k acc) acc ↔ x ∈ acc ∨ x ∈ l := by
    intro l
    induction l with
    | nil => intro acc; simp
    | cons y ys ih =>
      intro acc
      simp only [List.foldl_cons, ih, mem_insertSorted, List.mem_cons]
      constructor
      · rintro ((h | h) | h)
        · exact Or.inr (Or.inl h)
        · exact Or.inl h
        · exact Or.inr (Or.inr h)
      · rintro (h | h | h)
        · exact Or.inl (Or.inr h)
        · exact Or.inl (Or.inl h)
        · exact Or.inr h
  simpa using this l []

/-- **Doubly bound object.**  In every successful merge each non-simple object of `b` was handed to
`mergeCmds` at most once (`log` has no duplicates) and all of them are marked as referenced: a second
reference to the same raw object ends the merge with an error. -/
theorem g_no_object_merged_twice (a b : Tbl) (raw : Bool) (st : St) (h : mergeSpocSt a b raw = .ok st) :
    st.log.Nodup ∧ ∀ k ∈ st.log, st.isRefd k = true := by
  unfold mergeSpocSt at h
  have := (foldTop_ext b raw _ _ _ h).inv ⟨by simp, by simp⟩
  exact this

/-- The step behind it: a reference to a non-simple raw object that is already marked as referenced
is an error, whatever command it comes from. -/
theorem g_second_reference_is_error (rec : Rec) (b : Tbl) (st : St) (aref : Option (List String))
    (bref : List String) (i : Nat) (bName pfx : String) (c : Cmd) (rest : List Cmd)
    (hb : b.get pfx bName = c :: rest) (hs : c.simple = false) (hr : st.isRefd (pfx, bName) = true) :
    ∃ e, refStep rec b true (st, aref, bref) i bName pfx = .error e := by
  unfold refStep
  simp only [hb, hs, Bool.false_eq_true, if_false]
  cases aref with
  | some ar => exact ⟨.onlyOnce pfx bName, by simp [hr]⟩
  | none =>
    cases hh : st.a.has pfx bName with
    | true => exact ⟨.nameClash pfx bName, by simp⟩
    | false => exact ⟨.onlyOnce pfx bName, by simp [hr]⟩

/-- **Name clash.**  A new command of a raw file that references a non-simple object whose name the
configuration already uses is an error. -/
theorem g_name_clash_is_error (rec : Rec) (b : Tbl) (st : St) (bref : List String) (i : Nat)
    (bName pfx : String) (c : Cmd) (rest : List Cmd)
    (hb : b.get pfx bName = c :: rest) (hs : c.simple = false) (hc : st.a.has pfx bName = true) :
    refStep rec b true (st, none, bref) i bName pfx = .error (.nameClash pfx bName) := by
  unfold refStep
  simp [hb, hs, hc]

/-- … and so is a raw simple object (pool, transform set) that differs from the equally named one. -/
theorem g_simple_name_clash_is_error (rec : Rec) (b : Tbl) (st : St) (aref : Option (List String))
    (bref : List String) (i : Nat) (bName pfx : String) (c : Cmd) (rest : List Cmd)
    (hb : b.get pfx bName = c :: rest) (hs : c.simple = true)
    (hne : findSimple (c :: rest) st.a = none) (hc : st.a.has pfx bName = true) :
    refStep rec b true (st, aref, bref) i bName pfx = .error (.nameClash pfx bName) := by
  unfold refStep
  have : (st.markRef (pfx, bName)).a = st.a := rfl
  simp [hb, hs, this, hne, hc]

/-- **Unsupported command.** `tunnel-group-map` / `webvpn` in the merged part is an error. -/
theorem g_unsupported_prefix_reported (a b : Tbl) (raw : Bool) (k : Key) (hk : k ∈ b.keys)
    (hp : k.1 = "tunnel-group-map" ∨ k.1 = "webvpn") : ∃ e, mergeSpocSt a b raw = .error e := by
  unfold mergeSpocSt
  refine foldE_error_of_mem _ k (fun s => ?_) _ _ hk
  obtain ⟨p, n⟩ := k
  unfold topStep
  rcases hp with hp | hp
  · simp only at hp; subst hp; exact ⟨.notSupported "tunnel-group-map", by simp⟩
  · simp only at hp; subst hp; exact ⟨.notSupported "webvpn", by simp⟩

/-- **Unbound object.**  After a successful merge of a raw file every object of the raw file that is
not an anchor is marked as referenced (so it was handed to `mergeRefs`), or its warning is printed. -/
theorem g_unused_object_warned (a b : Tbl) (st : St) (h : mergeSpocSt a b true = .ok st)
    (k : Key) (hk : k ∈ b.keys) (c : Cmd) (rest : List Cmd) (hb : b.get k.1 k.2 = c :: rest)
    (hna : c.anchor = false) :
    st.isRefd k = true ∨ s!"Ignoring unused '{c.typPrefix} {c.name}' in raw" ∈ warningsOf b st := by
  unfold mergeSpocSt at h
  obtain ⟨l1, l2, hl⟩ := List.append_of_mem hk
  rw [hl, foldE_append] at h
  split at h
  · rename_i s1 h1
    simp only [foldE] at h
    cases hk1 : topStep b true s1 k with
    | error e => rw [hk1] at h; cases h
    | ok s2 =>
      rw [hk1] at h
      have hext := foldTop_ext b true l2 s2 st h
      by_cases hr : st.isRefd k = true
      · exact Or.inl hr
      · right
        have hr' : st.isRefd k = false := by simpa using hr
        -- the step marked k as seen
        have hseen : k ∈ s2.seen := by
          obtain ⟨p, n⟩ := k
          unfold topStep at hk1
          simp only at hk1 hb
          split at hk1
          · cases hk1
          · rw [hb] at hk1
            simp only [hna, Bool.false_eq_true, if_false] at hk1
            split at hk1
            · cases hk1; simp [St.markSeen]
            · rename_i hc
              cases hk1
              -- then it was referenced already; it stays referenced
              have : s1.isRefd (p, n) = true := by simpa using hc
              have := hext.tru _ this
              rw [hr'] at this; cases this
        unfold warningsOf
        rw [mem_sortStrings]
        refine List.mem_filterMap.mpr ⟨k, List.mem_filter.mpr ⟨hext.seen k hseen, by simp [hr']⟩, ?_⟩
        rw [hb]
  · cases h

theorem has_append_of_has (t : Tbl) (x : String × NameTbl) (p n : String) (h : t.has p n = true) :
    Tbl.has (t ++ [x]) p n = true := by
  unfold Tbl.has Tbl.names assocGet at *
  cases hf : t.find? (fun q => q.1 == p) with
  | none => simp [hf, assocGet] at h
  | some q => simp [List.find?_append, hf] at h ⊢; exact h

/-- No object (prefix and name) of the configuration merged so far disappears in a merge, and what
was marked as referenced stays so. -/
theorem g_no_object_name_lost (a b : Tbl) (raw : Bool) (st : St) (h : mergeSpocSt a b raw = .ok st) :
    ∀ p n, a.has p n = true → st.a.has p n = true := by
  unfold mergeSpocSt at h
  intro p n hp
  refine (foldTop_ext b raw _ _ _ h).keys p n ?_
  simp only
  have : ∀ (l : List (String × NameTbl)) (t : Tbl), t.has p n = true →
      Tbl.has (l.foldl (fun a q => if (assocGet a q.1).isSome then a else a ++ [(q.1, [])]) t) p n = true := by
    intro l
    induction l with
    | nil => intro t ht; exact ht
    | cons q qs ih =>
      intro t ht
      simp only [List.foldl_cons]
      apply ih
      split
      · exact ht
      · exact has_append_of_has t _ p n ht
  exact this b a hp

/-! ## Persistence: what the final table holds

Every change of the table goes through `St.store`, which also appends the event to the ghost log `writes`. -/

/-- **The final table holds, for every key written during the merge, the list written last.**  No step
changes a stored list except by storing a list under the same prefix and name again. -/
theorem g_final_table_holds_last_write (a b : Tbl) (raw : Bool) (st : St) (h : mergeSpocSt a b raw = .ok st) :
    ∀ p n l, lastWrite st.writes p n = some l → st.a.get p n = l := by
  unfold mergeSpocSt at h
  exact (foldTop_ext b raw _ _ _ h).tbl (fun p n l hl => by simp [lastWrite] at hl)

/-- **A list that is stored once is final**: if the log of a successful merge has exactly one event for
prefix `p` and name `n`, the list stored by that event is what the final table holds — so the per-kind laws
below (`g_asa_acl_law`, `g_ios_acl_law`, `g_generic_commands`, `g_dynmap_commands`, which speak about the
list at the moment it is stored, see `g_store_event_*`) speak about the final result. -/
theorem g_written_once_is_final (a b : Tbl) (raw : Bool) (st : St) (h : mergeSpocSt a b raw = .ok st)
    (p n : String) (l : List Cmd) (hx : ((p, n), l) ∈ st.writes)
    (honce : (st.writes.filter (fun y => y.1.1 == p && y.1.2 == n)).length = 1) : st.a.get p n = l := by
  apply g_final_table_holds_last_write a b raw st h
  unfold lastWrite
  have hm : ((p, n), l) ∈ st.writes.filter (fun y => y.1.1 == p && y.1.2 == n) :=
    List.mem_filter.mpr ⟨hx, by simp⟩
  cases hf : st.writes.filter (fun y => y.1.1 == p && y.1.2 == n) with
  | nil => rw [hf] at hm; cases hm
  | cons y ys =>
    rw [hf] at honce hm
    have : ys = [] := by
      cases ys with
      | nil => rfl
      | cons z zs => simp at honce
    subst this
    have : ((p, n), l) = y := by simpa using hm
    subst this
    rfl

/-- If a key is stored several times, each later list is what the same merge functions make of the list
found in the table — a list is never overwritten by something unrelated.  The events are kept in order: -/
theorem g_store_events_kept (b : Tbl) (raw : Bool) (fuel : Nat) (st st' : St) (al bl : List Cmd) (n p : String)
    (h : mergeCmds b raw fuel st al bl n p = .ok st') : ∀ x ∈ st.writes, x ∈ st'.writes :=
  (mergeCmds_ext b raw fuel st al bl n p st' h).wsub

/-- The store events of the per-kind theorems: the last event of the step is the list the law speaks about. -/
theorem g_store_event_asa_acl (rec : Rec) (b : Tbl) (raw : Bool) (st st' : St) (al bl : List Cmd) (name pfx : String)
    (h : mergeAsaAcl rec b raw st al bl name pfx = .ok st') :
    st'.writes.getLast? = some ((pfx, name), st'.a.get pfx name) := by
  unfold mergeAsaAcl at h
  split at h
  · cases h
  · cases h; simp [St.store, Tbl.get_set]

theorem g_store_event_ios_acl (st st' : St) (al bl : List Cmd) (name pfx : String)
    (h : mergeIosAcl st al bl name pfx = .ok st') :
    st'.writes.getLast? = some ((pfx, name), st'.a.get pfx name) := by
  unfold mergeIosAcl at h
  split at h
  · cases h
  · cases h; simp [St.store, Tbl.get_set]

theorem g_store_event_generic (rec : Rec) (b : Tbl) (raw : Bool) (st st' : St) (al bl : List Cmd) (name pfx : String)
    (h : mergeGeneric rec b raw st al bl name pfx = .ok st') :
    st'.writes.getLast? = some ((pfx, name), st'.a.get pfx name) := by
  unfold mergeGeneric at h
  split at h
  · cases h; simp [St.store, Tbl.get_set]
  · cases h

theorem g_store_event_crypto (rec : Rec) (b : Tbl) (raw : Bool) (st st' : St) (al bl : List Cmd) (name pfx : String)
    (h : mergeDynMap rec b raw st al bl name pfx = .ok st' ∨ mergeCryptoMap rec b raw st al bl name pfx = .ok st') :
    st'.writes.getLast? = some ((pfx, name), st'.a.get pfx name) := by
  rcases h with h | h
  · unfold mergeDynMap at h
    split at h
    · cases h; simp [St.store, Tbl.get_set]
    · cases h
  · unfold mergeCryptoMap at h
    split at h
    · cases h
    · split at h
      · cases h; simp [St.store, Tbl.get_set]
      · cases h

/-! ## Completeness and order, per kind of command -/

theorem assocGet_assocSet_same {β : Type} (t : List (String × β)) (k : String) (v : β) :
    assocGet (assocSet t k v) k = some v := by
  induction t with
  | nil => simp [assocSet, assocGet]
  | cons p t ih =>
    unfold assocSet
    by_cases h : p.1 == k
    · simp [h, assocGet]
    · have h' : (p.1 == k) = false := by simpa using h
      simp only [h', Bool.false_eq_true, if_false]
      unfold assocGet at ih ⊢
      simp only [List.find?_cons, h']
      exact ih

theorem Tbl.get_set_same (t : Tbl) (p n : String) (l : List Cmd) : (t.set p n l).get p n = l := by
  unfold Tbl.set Tbl.get Tbl.names
  rw [assocGet_assocSet_same]
  simp [assocGet_assocSet_same]

theorem store_get (st : St) (p n : String) (l : List Cmd) : (st.store p n l).a.get p n = l := by
  simp [St.store, Tbl.get_set_same]

section
variable (rec : Rec) (b : Tbl) (raw : Bool)

/-- **(c), (d) generic commands** — routes (`route`, `ipv6 route`, `ip route`), interfaces, access-groups,
tunnel-groups, group-policies, usernames, object-groups …: the stored list has Netspoc's commands in their
order followed by the commands of the merged part whose text is new, in their order; a command with a text
Netspoc already has is merged into that command (no duplicate). -/
theorem g_generic_commands (st st' : St) (al bl : List Cmd) (name pfx : String)
    (h : mergeGeneric rec b raw st al bl name pfx = .ok st') :
    (st'.a.get pfx name).map (·.parsed) =
      al.map (·.parsed) ++ (bl.filter (fun c => !(al.map (·.parsed)).contains c.parsed)).map (·.parsed) := by
  unfold mergeGeneric at h
  split at h
  · rename_i st1 al' hf
    cases h
    rw [store_get]
    exact generic_keys rec b raw _ bl _ _ hf
  · cases h

/-- … hence every command of the merged part is there by its text (none dropped silently). -/
theorem g_generic_nothing_dropped (st st' : St) (al bl : List Cmd) (name pfx : String)
    (h : mergeGeneric rec b raw st al bl name pfx = .ok st') :
    (∀ c ∈ al, c.parsed ∈ (st'.a.get pfx name).map (·.parsed)) ∧
    (∀ c ∈ bl, c.parsed ∈ (st'.a.get pfx name).map (·.parsed)) := by
  rw [g_generic_commands rec b raw st st' al bl name pfx h]
  refine ⟨fun c hc => List.mem_append_left _ (List.mem_map.mpr ⟨c, hc, rfl⟩), fun c hc => ?_⟩
  by_cases hm : c.parsed ∈ al.map (·.parsed)
  · exact List.mem_append_left _ hm
  · exact List.mem_append_right _ (List.mem_map.mpr ⟨c, List.mem_filter.mpr ⟨hc, by simpa using hm⟩, rfl⟩)

/-- **(d) `mergeSubCmds`**: subcommands of Netspoc's command in their order, then the new subcommands
of the merged command in their order. -/
theorem g_subcommands (st : St) (a bc : Cmd) (r : St × Cmd) (h : mergeSubCmds rec b raw st a bc = .ok r) :
    r.2.sub.map (·.parsed) = a.sub.map (·.parsed) ++
      (bc.sub.filter (fun s => !(a.sub.map (·.parsed)).contains s.parsed)).map (·.parsed) :=
  subcmds_keys rec b raw st a bc r h

/-- **(a) `mergeCryptoCommon`** (crypto dynamic-map, and every sequence number of a crypto map):
Netspoc's commands keep their position and 5th/6th word, each holds Netspoc's text or the text of a
command of the merged part (the documented replacement); commands of the merged part with a new
5th/6th word are added in their order. -/
theorem g_crypto_common (st : St) (al bl : List Cmd) (r : St × List Cmd × List Cmd)
    (h : cryptoCommon rec b raw st al bl = .ok r) :
    r.2.1.map (fun c => cryptoKey c.parsed) = al.map (fun c => cryptoKey c.parsed) ∧
    r.2.2.map (·.parsed) =
      (bl.filter (fun c => !(al.map (fun c => cryptoKey c.parsed)).contains (cryptoKey c.parsed))).map (·.parsed) ∧
    (∀ c ∈ r.2.1, c.parsed ∈ bl.map (·.parsed) ∨ c.parsed ∈ al.map (·.parsed)) := by
  unfold cryptoCommon at h
  have := crypto_keys rec b raw _ al bl (st, al, []) r rfl h
  simpa using this

theorem g_dynmap_commands (st st' : St) (al bl : List Cmd) (name pfx : String)
    (h : mergeDynMap rec b raw st al bl name pfx = .ok st') :
    ∃ al' add, st'.a.get pfx name = al' ++ add ∧
      al'.map (fun c => cryptoKey c.parsed) = al.map (fun c => cryptoKey c.parsed) ∧
      add.map (·.parsed) =
        (bl.filter (fun c => !(al.map (fun c => cryptoKey c.parsed)).contains (cryptoKey c.parsed))).map (·.parsed) := by
  unfold mergeDynMap at h
  split at h
  · rename_i st1 al' add hc
    cases h
    obtain ⟨h1, h2, _⟩ := g_crypto_common rec b raw st al bl _ hc
    exact ⟨al', add, store_get _ _ _ _, h1, h2⟩
  · cases h

theorem aclRef_fold : ∀ (bl : List Cmd) (acc acc' : St × List Cmd),
    foldE (aclRefStep rec b raw) acc bl = .ok acc' →
    acc'.2.map (·.parsed) = acc.2.map (·.parsed) ++ bl.map (·.parsed) ∧
    acc'.2.map (·.app) = acc.2.map (·.app) ++ bl.map (·.app) := by
  intro bl
  induction bl with
  | nil => intro acc acc' h; simp only [foldE, Except.ok.injEq] at h; subst h; simp
  | cons x xs ih =>
    intro acc acc' h
    simp only [foldE] at h
    cases hx : aclRefStep rec b raw acc x with
    | error e => rw [hx] at h; cases h
    | ok a1 =>
      rw [hx] at h
      obtain ⟨i1, i2⟩ := ih a1 acc' h
      unfold aclRefStep at hx
      split at hx
      · cases hx
        simp only [List.map_append, List.map_cons, List.map_nil] at i1 i2
        exact ⟨by rw [i1]; simp, by rw [i2]; simp⟩
      · cases hx

/-- **ASA ACLs of the general model** (interface ACLs, crypto filter ACLs, vpn-filter ACLs — every
`access-list` reached through a reference): the stored lines are the list merge `Merge.mergeASA` of
Netspoc's lines with the new lines, so the four laws hold: with `P`/`A` the new lines before/behind
`[APPEND]`, the result is `top ++ pre ++ A ++ post`, `pre ++ post` = Netspoc's lines (plus a moved
terminating `deny ip any6 any6`), `post` without permit line, `pre` empty or ending in a permit line. -/
theorem g_asa_acl_law (st st' : St) (al bl : List Cmd) (name pfx : String)
    (h : mergeAsaAcl rec b raw st al bl name pfx = .ok st') :
    ∃ (bl' topL netL : List Cmd), bl'.map (·.parsed) = bl.map (·.parsed) ∧ bl'.map (·.app) = bl.map (·.app) ∧
      PlacedL (fun c : Cmd => asaKind c.parsed) notPermitK topL netL (bl'.filter (·.app)) (st'.a.get pfx name) ∧
      ((topL = bl'.filter (fun c => !c.app) ∧ netL = al) ∨
        ∃ x, asaKind x.parsed = .any6 ∧ bl'.filter (fun c => !c.app) = topL ++ [x] ∧ netL = al ++ [x]) := by
  unfold mergeAsaAcl at h
  split at h
  · cases h
  · rename_i st1 bl' hf
    cases h
    obtain ⟨h1, h2⟩ := aclRef_fold rec b raw bl _ _ hf
    obtain ⟨topL, netL, hp, hcase⟩ := mergeVia_asa_placed (fun c : Cmd => asaKind c.parsed) (·.app) al bl'
    refine ⟨bl', topL, netL, by simpa using h1, by simpa using h2, ?_, hcase⟩
    rw [store_get]
    exact hp

end

/-- **IOS ACLs of the general model**: the lines of all raw blocks are merged into Netspoc's lines by
`Merge.mergeIOS`; the law as above without exception. -/
theorem g_ios_acl_law (st st' : St) (al bl : List Cmd) (name pfx : String)
    (h : mergeIosAcl st al bl name pfx = .ok st') :
    ∃ hd, st'.a.get pfx name = [hd] ∧
      PlacedL (fun s : Sub => iosKind s.parsed) notPermitK ((bl.flatMap (·.sub)).filter (fun s => !s.app))
        ((al.head?.map (·.sub)).getD []) ((bl.flatMap (·.sub)).filter (·.app)) hd.sub := by
  unfold mergeIosAcl at h
  split at h
  · cases h
  · rename_i b0 rest
    cases h
    refine ⟨_, store_get _ _ _ _, ?_⟩
    exact mergeVia_ios_placed (fun s : Sub => iosKind s.parsed) (·.app) _ _

/-- Consequences of the placement law, for any element type: permutation and order of the parts. -/
theorem g_placed_consequences {α : Type} (kind : α → Kind) (top net ap r : List α)
    (h : PlacedL kind notPermitK top net ap r) :
    r.Perm (top ++ net ++ ap) ∧ top.Sublist r ∧ net.Sublist r ∧ ap.Sublist r ∧ (top ++ ap).Sublist r ∧
    ∃ rest, r = top ++ rest ∧ net.Sublist rest := by
  refine ⟨h.perm, h.sub_top, h.sub_net, h.sub_app, h.sub_top_app, ?_⟩
  obtain ⟨pre, post, hn, hr, _, _⟩ := h
  refine ⟨pre ++ ap ++ post, by rw [hr]; simp [List.append_assoc], ?_⟩
  rw [hn]
  simp only [List.append_assoc]
  exact List.Sublist.append (List.Sublist.refl pre) (List.sublist_append_right ap post)

/-- **IOS crypto map entries** (peer and ACLs are subcommands): a raw entry identical to Netspoc's entry
hands its subcommands to `mergeSubCmds`: Netspoc's subcommands in order, then the new raw ones. -/
theorem g_crypto_entry_subcommands (rec : Rec) (b : Tbl) (raw : Bool) (keys : List (String × String)) (al0 : List Cmd)
    (st : St) (al add : List Cmd) (acc' : St × List Cmd × List Cmd) (bc a : Cmd) (j : Nat)
    (hj : lastIdxOf keys (cryptoKey bc.parsed) = some j) (ha : al[j]? = some a) (heq : a.parsed = bc.parsed)
    (h : cryptoStep rec b raw keys al0 (st, al, add) bc = .ok acc') :
    ∃ a', acc'.2.1[j]? = some a' ∧ a'.sub.map (·.parsed) = a.sub.map (·.parsed) ++
      (bc.sub.filter (fun s => !(a.sub.map (·.parsed)).contains s.parsed)).map (·.parsed) := by
  unfold cryptoStep cryptoStepG at h
  simp only [hj, ha, heq, beq_self_eq_true, if_true] at h
  split at h
  · cases h
  · rename_i st1 a1 hs
    split at h
    · rename_i st2 ar2 br2 hm2
      cases h
      have hlt : j < al.length := by
        rcases Nat.lt_or_ge j al.length with h1 | h1
        · exact h1
        · rw [List.getElem?_eq_none h1] at ha; cases ha
      refine ⟨{ a1 with ref := ar2.getD a1.ref }, by simp [listSet, hlt], ?_⟩
      exact subcmds_keys rec b raw _ _ _ _ hs
    · cases h

/-- Code as found, F-C18i: the subcommand `set ip access-group $REF out` of a raw IOS crypto map entry
that equals Netspoc's entry is dropped, no message. -/
theorem g_old_crypto_subcommand_dropped_counterexample :
    ∃ (a bc : Cmd) (s : Sub), s ∈ bc.sub ∧ a.parsed = bc.parsed ∧
      (cryptoStepOld (mergeCmds [] true 2) [] true [cryptoKey a.parsed] [a] ({ a := [] }, [a], []) bc).toOption.map
        (fun r => (r.2.1 ++ r.2.2).map (fun c => c.sub.map (·.parsed))) = some [["set peer 1.2.3.4"]] ∧
      s.parsed = "set ip access-group $REF out" :=
  ⟨{ parsed := "crypto map $NAME $SEQ ipsec-isakmp", name := "M", seq := 10, sub := [{ parsed := "set peer 1.2.3.4" }] },
   { parsed := "crypto map $NAME $SEQ ipsec-isakmp", name := "M", seq := 20,
     sub := [{ parsed := "set peer 1.2.3.4" }, { parsed := "set ip access-group $REF out" }] },
   { parsed := "set ip access-group $REF out" }, by decide⟩

/-! Non-vacuity: small tables on which the hypotheses hold. -/
def exA : Tbl := [("access-list", [("A1", [{ parsed := "access-list $NAME extended permit ip any4 any4", name := "A1" }])]),
  ("access-group", [("", [{ parsed := "access-group $REF in interface if0", ref := ["A1"], refPrefix := ["access-list"], anchor := true }])])]
def exB : Tbl := [("access-list", [("X", [{ parsed := "access-list $NAME extended deny ip any4 any4", name := "X" }]),
                                    ("U", [{ typPrefix := "access-list", parsed := "access-list $NAME extended deny ip any4 any4", name := "U" }])]),
  ("access-group", [("", [{ parsed := "access-group $REF in interface if0", ref := ["X"], refPrefix := ["access-list"], anchor := true }])])]
example : (mergeSpoc exA exB true).toOption.map (·.2) = some ["Ignoring unused 'access-list U' in raw"] := by decide
example : ((mergeSpocSt exA exB true).toOption.map (·.log)) = some [("access-list", "X")] := by decide
example : ("access-list", "U") ∈ exB.keys ∧ exB.get "access-list" "U" = [{ typPrefix := "access-list", parsed := "access-list $NAME extended deny ip any4 any4", name := "U" }] := by
  decide

-- persistence: a raw ACL merged into Netspoc's ACL is stored once; the final table holds exactly that list
example : (mergeSpocSt exA exB true).toOption.map (fun st => (st.writes.filter (fun y => y.1.1 == "access-list" && y.1.2 == "A1")).length)
    = some 1 := by decide
-- … while two raw ACLs bound at two places that Netspoc binds to ONE ACL store that ACL twice (the second list
-- is the merge of the first with the second raw ACL): "stored once" is a hypothesis, not a law
def exA2 : Tbl := [("access-list", [("A1", [{ parsed := "access-list $NAME extended permit ip any4 any4", name := "A1" }])]),
  ("access-group", [("", [{ parsed := "access-group $REF in interface if0", ref := ["A1"], refPrefix := ["access-list"], anchor := true },
                          { parsed := "access-group $REF out interface if1", ref := ["A1"], refPrefix := ["access-list"], anchor := true }])])]
def exB2 : Tbl := [("access-list", [("X", [{ parsed := "access-list $NAME extended deny ip host 1.1.1.1 any4", name := "X" }]),
                                     ("Y", [{ parsed := "access-list $NAME extended deny ip host 2.2.2.2 any4", name := "Y" }])]),
  ("access-group", [("", [{ parsed := "access-group $REF in interface if0", ref := ["X"], refPrefix := ["access-list"], anchor := true },
                          { parsed := "access-group $REF out interface if1", ref := ["Y"], refPrefix := ["access-list"], anchor := true }])])]
example : (mergeSpocSt exA2 exB2 true).toOption.map (fun st =>
    ((st.writes.filter (fun y => y.1.1 == "access-list" && y.1.2 == "A1")).length, (st.a.get "access-list" "A1").length)) = some (2, 3) := by decide
-- routes: a duplicate route of the raw file is merged, a new one is added behind Netspoc's routes
def exR1 : Cmd := { parsed := "route inside 10.20.0.0 255.255.0.0 10.1.2.3", anchor := true }
def exR2 : Cmd := { parsed := "route inside 10.22.0.0 255.255.0.0 10.1.2.4", anchor := true }
example : (mergeSpoc [("route", [("", [exR1])])] [("route", [("", [exR2, exR1])])] true).toOption.map
    (fun r => (r.1.get "route" "").map (·.parsed)) = some [exR1.parsed, exR2.parsed] := by decide
-- crypto dynamic-map: `set pfs group21` of the raw file replaces Netspoc's `set pfs group19`, `set reverse-route` is added
def exD (t : String) : Cmd := { typPrefix := "crypto dynamic-map", parsed := "crypto dynamic-map $NAME $SEQ " ++ t, name := "D", seq := 10 }
example : (mergeCmds [] true 3 { a := [] } [exD "set pfs group19"] [exD "set pfs group21", exD "set reverse-route"] "D"
      "crypto dynamic-map").toOption.map (fun st => (st.a.get "crypto dynamic-map" "D").map (·.parsed)) =
    some ["crypto dynamic-map $NAME $SEQ set pfs group21", "crypto dynamic-map $NAME $SEQ set reverse-route"] := by decide
-- subcommands: a new subcommand of the raw tunnel-group is appended
def exTG (subs : List String) : Cmd :=
  { parsed := "tunnel-group $NAME general-attributes", name := "1.1.1.1", anchor := true, sub := subs.map (fun p => { parsed := p }) }
example : (mergeSubCmds (mergeCmds [] true 2) [] true { a := [] } (exTG ["default-group-policy $REF"]) (exTG ["annotation x"])).toOption.map
    (fun r => r.2.sub.map (·.parsed)) = some ["default-group-policy $REF", "annotation x"] := by decide
-- an IOS crypto map entry of the raw file that equals Netspoc's entry: its new subcommand is kept
example : (cryptoStep (mergeCmds [] true 2) [] true [("ipsec-isakmp", "")]
    [{ parsed := "crypto map $NAME $SEQ ipsec-isakmp", sub := [{ parsed := "set peer 1.2.3.4" }] }]
    ({ a := [] }, [{ parsed := "crypto map $NAME $SEQ ipsec-isakmp", sub := [{ parsed := "set peer 1.2.3.4" }] }], [])
    { parsed := "crypto map $NAME $SEQ ipsec-isakmp", sub := [{ parsed := "set peer 1.2.3.4" }, { parsed := "set reverse-route" }] }).toOption.map
      (fun r => r.2.1.map (fun c => c.sub.map (·.parsed))) = some [["set peer 1.2.3.4", "set reverse-route"]] := by decide
-- unsupported prefix
example : ("webvpn", "") ∈ Tbl.keys [("webvpn", [("", [{ parsed := "webvpn", anchor := true }])])] := by decide

/-! ## `matchCryptoMap` (final deepening, item 2)

`matchCalls al bl` is the list of callback calls `f(aSeqL, bSeqL)` of `matchCryptoMap(a, b, f)`, in order:
first one call per entry of the device-side map `al` (`matchLoop`), then one call per entry of `bl` that
found no partner.  `Call.aIdx` = positions of the entry's commands in `al`, `Call.bl` = the commands of
`b`'s entry, `Call.bSeq` (ghost) = the sequence number that entry had in its file.  The same function is
the one `cryptoStepG` runs and `cisco3` ties to the real `MergeSpoc`.  The statements agree with b-vpn's
`NA.Vpn.crypto_*` (diff side): ascending order of sequence numbers, a partner is found by equal peer and is
consumed once, and a fresh number is the first FREE number counting up from 1 (static peer) or down from
65535 (dynamic) — NOT "above the maximum". -/

/-- **Device entries: each once, order kept.**  The first calls are the entries of `al` in ascending order
of their sequence numbers, each number once; a position of `al` is in the call of its own number and only
there, and inside a call the positions ascend (the order of the entry's commands is kept); all later calls
carry no device command. -/
theorem g_crypto_device_entries_once (al bl : List Cmd) :
    (∃ fresh, matchCalls al bl = (matchLoop al bl).1 ++ fresh ∧
       fresh.map (·.bSeq) = (matchLoop al bl).2.map some ∧ ∀ c ∈ fresh, FreshCall al bl c) ∧
    (matchLoop al bl).1.map (·.aIdx) = (seqsOf al).map (fun s => idxFrom s 0 al) ∧
    (seqsOf al).Pairwise (· < ·) ∧ (∀ s, s ∈ seqsOf al ↔ ∃ c ∈ al, c.seq = s) ∧
    (∀ s i, i ∈ idxFrom s 0 al ↔ ∃ c, al[i]? = some c ∧ c.seq = s) ∧
    ∀ s, (idxFrom s 0 al).Pairwise (· < ·) := by
  refine ⟨?_, ?_, seqsOf_sorted al, mem_seqsOf al, fun s i => by simpa using mem_idxFrom s al 0 i,
    fun s => idxFrom_sorted s al 0⟩
  · obtain ⟨cs, h1, h2, h3⟩ := freshFold_shape al bl (matchLoop al bl).2 ((matchLoop al bl).1, 1, 65535)
    exact ⟨cs, h1, h2, h3⟩
  · have := matchFold_aIdx al bl (firstSeqs bl) (seqsOf al) ([], seqsOf bl)
    simpa [matchLoop] using this

/-- **Entries of `b`: each handed over exactly once.**  The sequence numbers of the entries of `b` that
occur in the calls are, up to order, the sequence numbers of `b`, each once; a call of the first loop with
a partner carries that whole entry of `b`, one without partner carries nothing. -/
theorem g_crypto_target_entries_once (al bl : List Cmd) :
    ((matchCalls al bl).filterMap (·.bSeq)).Perm (seqsOf bl) ∧
    ∀ c ∈ (matchLoop al bl).1, (c.bSeq = none ∧ c.bl = []) ∨ ∃ q, c.bSeq = some q ∧ c.bl = grp bl q := by
  have inv := matchLoop_inv al bl
  refine ⟨?_, inv.grpOk⟩
  obtain ⟨cs, h1, h2, _⟩ := freshFold_shape al bl (matchLoop al bl).2 ((matchLoop al bl).1, 1, 65535)
  have hfm : cs.filterMap (·.bSeq) = (matchLoop al bl).2 := by
    have : cs.filterMap (·.bSeq) = (cs.map (·.bSeq)).filterMap id := by
      rw [List.filterMap_map]; rfl
    rw [this, h2, List.filterMap_map]; simp
  have hrest : (matchLoop al bl).2.Nodup := inv.sub.nodup (seqsOf_nodup bl)
  unfold matchCalls
  rw [h1, List.filterMap_append, hfm]
  refine (List.perm_ext_iff_of_nodup ?_ (seqsOf_nodup bl)).mpr (fun q => ?_)
  · rw [List.nodup_append]
    exact ⟨inv.nodup, hrest, fun a ha b hb hab => ((inv.used a).mp ha).2 (hab ▸ hb)⟩
  · rw [List.mem_append, inv.used]
    constructor
    · rintro (h | h)
      · exact h.1
      · exact inv.sub.subset h
    · intro h
      by_cases hq : q ∈ (matchLoop al bl).2
      · exact Or.inr hq
      · exact Or.inl ⟨h, hq⟩

/-- **Matched by peer.**  Every call of the first loop belongs to one entry `s` of the device map; if it has
a partner `q`, that is an entry of `b` whose peer is the peer of `s`, and the lowest such entry of `b`. -/
theorem g_crypto_match_by_peer (al bl : List Cmd) (c : Call) (hc : c ∈ (matchLoop al bl).1) :
    ∃ s ∈ seqsOf al, c.aIdx = idxFrom s 0 al ∧
      ∀ q, c.bSeq = some q → q ∈ seqsOf bl ∧ peerD (grp bl q) = peerD (grp al s) ∧
        ∀ t ∈ seqsOf bl, peerD (grp bl t) = peerD (grp al s) → q ≤ t :=
  matchLoop_peer al bl c hc

/-- **A partner is found when there is one.**  A device entry `s` whose peer occurs in `b` and in no earlier
(lower) device entry is handed over together with an entry of `b` (by `g_crypto_match_by_peer`: the lowest
with that peer); its call is the one at the position of `s` in the ascending device order. -/
theorem g_crypto_partner_found (al bl : List Cmd) (pre post : List Nat) (s : Nat)
    (hk : seqsOf al = pre ++ s :: post)
    (ht : ∃ t ∈ seqsOf bl, peerD (grp bl t) = peerD (grp al s))
    (hfirst : ∀ s' ∈ pre, peerD (grp al s') ≠ peerD (grp al s)) :
    ∃ c q, (matchLoop al bl).1[pre.length]? = some c ∧ c.aIdx = idxFrom s 0 al ∧ c.bSeq = some q ∧
      c.bl = grp bl q :=
  matchLoop_found al bl pre post s hk ht hfirst

/-- **Fresh numbers.**  An entry of `b` without partner is handed over with no device command, with all its
commands, under the name of the device's map and under ONE number produced by `freeSeq`: the first number
not used on the device counting up (static) or down (dynamic) — free unless all 70000 candidates are used. -/
theorem g_crypto_fresh_numbers (al bl : List Cmd) (c : Call) (hc : FreshCall al bl c) :
    c.aIdx = [] ∧ (∃ s, c.bSeq = some s ∧ c.bl.length = (grp bl s).length) ∧
    (∀ a0, al.head? = some a0 → ∀ d ∈ c.bl, d.name = a0.name) ∧
    ∃ st start, (∀ d ∈ c.bl, d.seq = freeSeq (seqsOf al) st 70000 start) ∧
      (freeSeq (seqsOf al) st 70000 start ∉ seqsOf al ∨
        ∀ k, k < 70000 → (if st then start + k else start - k) ∈ seqsOf al) := by
  obtain ⟨h1, s, h2, h3, ⟨st, start, h4⟩, h5⟩ := hc
  refine ⟨h1, ⟨s, h2, h3⟩, h5, st, start, h4, ?_⟩
  cases st with
  | true => simpa using freeSeq_free_up (seqsOf al) 70000 start
  | false => simpa using freeSeq_free_down (seqsOf al) 70000 start

def exCM (seq : Nat) (t : String) : Cmd :=
  { typPrefix := "crypto map", parsed := "crypto map $NAME $SEQ " ++ t, name := "M", seq := seq }
def exCR (seq : Nat) (t : String) : Cmd := { exCM seq t with name := "R" }
/-- device: entries 20 (peer B) and 10 (peer A), given in descending order; raw: 1 (peer A), 2 (peer C), 3 (peer A) -/
def exAl : List Cmd := [exCM 20 "set peer 2.2.2.2", exCM 20 "match address X", exCM 10 "set peer 1.1.1.1"]
def exBl : List Cmd := [exCR 1 "set peer 1.1.1.1", exCR 2 "set peer 3.3.3.3", exCR 3 "set peer 1.1.1.1", exCR 3 "set pfs group2"]
/-- non-vacuity: ascending device order, entry 10 gets raw entry 1, raw 2 and 3 get the fresh numbers 1 and 2 -/
example : (matchCalls exAl exBl).map (fun c => (c.aIdx, c.bSeq, c.bl.map (fun d => (d.name, d.seq)))) =
    [([2], some 1, [("R", 1)]), ([0, 1], none, []),
     ([], some 2, [("M", 1)]), ([], some 3, [("M", 2), ("M", 2)])] := by decide
example : (firstPeerErr exAl exBl).isNone = true := by decide
/-- non-vacuity of `g_crypto_partner_found`: device entry 10 (peer A) is the first with its peer, raw entries 1 and 3 have it -/
example : seqsOf exAl = [] ++ 10 :: [20] ∧ peerD (grp exBl 1) = peerD (grp exAl 10) ∧
    ((matchLoop exAl exBl).1[0]?.map (·.bSeq)) = some (some 1) := by decide
/-- a device that uses 1 and 2: the fresh number is 3 (first free, not "max + 1" = 11 would also be free) -/
example : (matchCalls [exCM 1 "set peer 1.1.1.1", exCM 2 "set peer 2.2.2.2", exCM 10 "set peer 4.4.4.4"]
    [exCR 5 "set peer 3.3.3.3"]).map (fun c => (c.aIdx, c.bl.map (·.seq))) =
    [([0], []), ([1], []), ([2], []), ([], [3])] := by decide

/-- The real function either aborts with the first entry that has no peer (`b`'s entries first, ascending),
or makes exactly the calls `matchCalls`. -/
theorem g_crypto_calls (al bl : List Cmd) :
    (∀ cs, matchCryptoMap al bl = .ok cs → cs = matchCalls al bl ∧ firstPeerErr al bl = none) ∧
    (∀ e, matchCryptoMap al bl = .error e → firstPeerErr al bl = some e) := by
  unfold matchCryptoMap
  cases h : firstPeerErr al bl with
  | none =>
    refine ⟨fun cs hcs => ?_, fun e he => ?_⟩
    · simp only [Except.ok.injEq] at hcs; exact ⟨hcs.symm, rfl⟩
    · simp at he
  | some e0 =>
    refine ⟨fun cs hcs => ?_, fun e he => ?_⟩
    · simp at hcs
    · simp only [Except.error.injEq] at he; rw [he]

/-- non-vacuity: an entry of `b` without peer stops the merge -/
example : (firstPeerErr exAl [exCR 1 "match address Y"]).isSome = true := by decide

/-- **Fresh numbers of static entries are distinct.**  Among the calls of the second loop those whose entry
of `b` has a static peer get numbers ≥ 1 that strictly increase from call to call (the counter moves past
every number handed out), so two such entries never end up under one number. -/
theorem g_crypto_fresh_static_ascending (al bl : List Cmd) :
    ∃ fresh, matchCalls al bl = (matchLoop al bl).1 ++ fresh ∧
      fresh.map (·.bSeq) = (matchLoop al bl).2.map some ∧
      (∀ c ∈ fresh, StaticCall bl c → ∀ d ∈ c.bl, 1 ≤ d.seq) ∧
      fresh.Pairwise (fun c1 c2 => StaticCall bl c1 → StaticCall bl c2 →
        ∀ d1 ∈ c1.bl, ∀ d2 ∈ c2.bl, d1.seq < d2.seq) := by
  obtain ⟨cs, h1, h2, _, h4, h5⟩ := freshFold_static al bl (matchLoop al bl).2 ((matchLoop al bl).1, 1, 65535)
  exact ⟨cs, h1, h2, h4, h5⟩

/-- non-vacuity: raw entries 2 and 3 of the example are static and without partner (numbers 1 and 2 above) -/
example : StaticCall exBl { aIdx := [], bl := [], bSeq := some 2 } ∧ (matchLoop exAl exBl).2 = [2, 3] :=
  ⟨⟨2, rfl, by decide⟩, by decide⟩

def obligations : List Lean.Name := [
  ``g_no_object_merged_twice, ``g_second_reference_is_error, ``g_name_clash_is_error,
  ``g_simple_name_clash_is_error, ``g_unsupported_prefix_reported, ``g_unused_object_warned,
  ``mergeCmds_ext, ``g_final_table_holds_last_write, ``g_written_once_is_final, ``g_store_events_kept,
  ``g_store_event_asa_acl, ``g_store_event_ios_acl, ``g_store_event_generic, ``g_store_event_crypto, ``g_no_object_name_lost, ``g_generic_commands, ``g_generic_nothing_dropped, ``g_subcommands, ``g_crypto_common,
  ``g_dynmap_commands, ``g_crypto_entry_subcommands, ``g_old_crypto_subcommand_dropped_counterexample, ``g_asa_acl_law, ``g_ios_acl_law, ``g_placed_consequences,
  ``g_crypto_device_entries_once, ``g_crypto_target_entries_once, ``g_crypto_match_by_peer, ``g_crypto_partner_found, ``g_crypto_fresh_numbers, ``g_crypto_calls, ``g_crypto_fresh_static_ascending]

end NA.C18.G
