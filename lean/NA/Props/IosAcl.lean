import NA.Proofs.IosConv
import NA.Proofs.IosConvBlock
import NA.Proofs.IosConvPlan
import NA.Proofs.IosConvExec
import NA.Proofs.IosConvMove
import NA.Proofs.IosConvSuppr
/-!
# IOS ACL planner (`diffIOSACLs`, model `planIOS`): numbering, block equivalence, convergence

`M` is the merged list of an arbitrary edit script (any length) between the device ACL `olds M`
and the target `news M`.  The device is the strict IOS device of `NA.Spec.AclDev`
(`iosReseq`, `iosExec1`, `iosTrace`).

* `ios_numbers_strictly_increasing`, `ios_runs_numbering_consistent`, `ios_insert_by_number`,
  `ios_delete_by_number`: the numbers the planner uses order all cells like the merged list, so
  every intermediate device list is `masked M μ`.
* `block_swap_same_semantics`, `blockEq_same_semantics`, `blockEquiv_same_semantics`.
* `ios_plan_converges_no_moves_partial`, `ios_plan_converges_no_suppression_partial`: executing the
  plan on the resequenced device ends in exactly the target, if no move is suppressed.
* `ios_plan_final_state`: for EVERY script the strict device accepts the plan and ends in the target
  with the lines of the suppressed moves left at their old positions.
* `ios_plan_block_equiv_partial`: without remark lines that final state is block-equivalent to the
  target modulo `log` (same verdict for every packet), for every script;
  `ios_plan_block_equiv_exact_partial`: pure swaps if no moved line changes `log`.
* `ios_remark_suppression_counterexample` (F-C02r): with remark lines the current code does not
  even converge up to block equivalence.  `ios_log_change_lost_counterexample`: a `log`-only change
  of a line is never sent (why the theorem above is "modulo `log`").  `ios_split_block_move_not_suppressed`: regression for
  the committed fix of F-C02.

With remark lines the statement is false (F-C02r).  Note (from `ios_plan_final_state`): when a
suppressed move also changes the `log` attribute the device keeps the OLD attribute (the lists
then agree only modulo `log`).
-/
namespace NA.Acl.IosAclProps
open NA.Acl

/-! ## 1. Numbers -/

/-- If every maximal run of new-only cells is shorter than 10000, the numbers are strictly
increasing along the merged list. -/
theorem ios_numbers_strictly_increasing (M : List Cell) (hj : noJunk M = true) (hs : runsShort M)
    {i j : Nat} (hij : i < j) (hjl : j < M.length) : numOf M i < numOf M j :=
  numOf_strictMono M hj hs hij hjl

/-- The numbers the model of the code sends (`before*10000 + i + 1` over `insertRuns`) are `numOf`
of the new-only cells, in order. -/
theorem ios_runs_numbering_consistent (M : List Cell) :
    (insertRuns M 0 0).flatMap runItems =
      (addIdx M).map fun j => (numOf M j, (M.getD j default).line) :=
  insertRuns_numOf M

/-- … and run by run: cell index, `before = countOld`, offset = `runOff`. -/
theorem ios_runs_cells_consistent (M : List Cell) :
    flat4 (insertRuns M 0 0) =
      (addIdx M).map fun j => (j, countOld M j, runOff M j, (M.getD j default).line) :=
  insertRuns_items M

/-- Inserting an absent cell by its number into the number-sorted device list puts the line at
its position in merged-list order. -/
theorem ios_insert_by_number (M : List Cell) (hjunk : noJunk M = true) (hs : runsShort M)
    (μ : List Bool) (hl : μ.length = M.length) (j : Nat) (hj : j < M.length)
    (hf : μ.getD j false = false) :
    iosLines (iosInsert (numbered M μ) (numOf M j) (M.getD j default).line) =
      masked M (μ.set j true) := by
  have hj' : j < (allNum M).length := by rw [allNum_length]; exact hj
  have := pick_insert (allNum M) (allNum_sorted M hjunk hs) μ j hj'
    (by rw [allNum_length]; exact hl) hf
  rw [allNum_getElem M j hj'] at this
  simp only at this
  unfold numbered
  rw [this]
  exact numbered_lines M _

/-- Deleting by number removes exactly that cell. -/
theorem ios_delete_by_number (M : List Cell) (hjunk : noJunk M = true) (hs : runsShort M)
    (μ : List Bool) (hl : μ.length = M.length) (j : Nat) (hj : j < M.length) :
    iosLines ((numbered M μ).filter fun e => e.1 != numOf M j) = masked M (μ.set j false) := by
  have hj' : j < (allNum M).length := by rw [allNum_length]; exact hj
  have := pick_delete (allNum M) (allNum_sorted M hjunk hs) μ j hj'
    (by rw [allNum_length]; exact hl)
  rw [allNum_getElem M j hj'] at this
  simp only at this
  unfold numbered
  rw [this]
  exact numbered_lines M _

/-- The resequenced device is the numbered list of the old cells. -/
theorem ios_reseq_is_numbered (M : List Cell) (dev : IosAcl) (hdev : iosLines dev = olds M) :
    iosReseq dev 10000 10000 = numbered M (oldMask M) := reseq_numbered M dev hdev

/-! ## 2. Block equivalence -/

theorem block_swap_same_semantics (s1 s2 : List Line) (a b : Line)
    (h : a.remark = true ∨ b.remark = true ∨ a.permit = b.permit) (p : Nat) :
    eval (s1 ++ a :: b :: s2) p = eval (s1 ++ b :: a :: s2) p := eval_swap s1 s2 a b h p

theorem blockEq_same_semantics {x y : List Line} (h : BlockEq x y) : ∀ p, eval x p = eval y p :=
  fun p => h.eval_eq p

theorem blockEquiv_same_semantics (x y : List Line) (p : Nat)
    (hcons : ∀ a ∈ x ++ y, ∀ b ∈ x ++ y, a.remark = false → b.remark = false → a.mkey = b.mkey →
      a.hits p = b.hits p)
    (h : blockEquiv x y = true) : eval x p = eval y p := blockEquiv_eval_eq x y p hcons h

/-! ## 3. Convergence without suppressed moves -/

/-- Core: once the plan is "a command for every inserted line, then the remaining deletes",
the strict device accepts every command and ends in exactly the target. -/
theorem ios_exec_reaches_target (M : List Cell) (hjunk : noJunk M = true) (hruns : runsShort M)
    (hno : ((olds M).map (·.mkey)).Nodup) (hnn : ((news M).map (·.mkey)).Nodup)
    (dev : IosAcl) (hdev : iosLines dev = olds M)
    (hplan : planIOS M = (addIdx M).flatMap (cellOps M) ++ delsOf M) :
    ∃ tr s, iosTrace (iosReseq dev 10000 10000) (planIOS M) = some tr ∧
      (iosReseq dev 10000 10000 :: tr).getLast? = some s ∧ iosLines s = news M := by
  have h := exec_core M hjunk hruns hno hnn
  rw [← hplan, ← reseq_numbered M dev hdev] at h
  obtain ⟨tr, ht, hl⟩ := iosExec_trace _ _ _ h
  exact ⟨tr, _, ht, hl, by rw [numbered_lines, masked_new]⟩

/-- No deleted line has the `mkey` of an inserted line (so there is no move at all). -/
theorem ios_plan_converges_no_moves_partial (M : List Cell)
    (hboth : (M.any fun c => c.old && c.new) = true) (hjunk : noJunk M = true)
    (hruns : runsShort M)
    (hno : ((olds M).map (·.mkey)).Nodup) (hnn : ((news M).map (·.mkey)).Nodup)
    (hnm : ∀ i ∈ delIdx M, ∀ j ∈ addIdx M,
      (M.getD i default).line.mkey ≠ (M.getD j default).line.mkey)
    (dev : IosAcl) (hdev : iosLines dev = olds M) :
    ∃ tr s, iosTrace (iosReseq dev 10000 10000) (planIOS M) = some tr ∧
      (iosReseq dev 10000 10000 :: tr).getLast? = some s ∧ iosLines s = news M :=
  ios_exec_reaches_target M hjunk hruns hno hnn dev hdev (plan_no_moves M hboth hnn hnm)

/-- Moves allowed, none suppressed: the plan holds an `add` or a `move` for every new-only cell. -/
theorem ios_plan_converges_no_suppression_partial (M : List Cell)
    (hboth : (M.any fun c => c.old && c.new) = true) (hjunk : noJunk M = true)
    (hruns : runsShort M)
    (hno : ((olds M).map (·.mkey)).Nodup) (hnn : ((news M).map (·.mkey)).Nodup)
    (hcount : ((planIOS M).filter IOp.isAddMove).length = (addIdx M).length)
    (dev : IosAcl) (hdev : iosLines dev = olds M) :
    ∃ tr s, iosTrace (iosReseq dev 10000 10000) (planIOS M) = some tr ∧
      (iosReseq dev 10000 10000 :: tr).getLast? = some s ∧ iosLines s = news M :=
  ios_exec_reaches_target M hjunk hruns hno hnn dev hdev (plan_no_suppr M hboth hnn hcount)

/-- For every `M` (suppressed moves or not) the plan has this shape; `flags` are the
suppression decisions. -/
theorem ios_plan_shape (M : List Cell) (hboth : (M.any fun c => c.old && c.new) = true)
    (hnn : ((news M).map (·.mkey)).Nodup) :
    ∃ flags : List Bool, flags.length = (addIdx M).length ∧
      planIOS M = (((addIdx M).map (newItem M)).zip flags).flatMap (itemOps M) ++ delsOf M :=
  planIOS_shape M hboth (lookups_nodup M hnn)

/-- For EVERY script (suppressed moves or not): the strict device accepts the plan command by
command, and the final list is the target except that the line of every suppressed move
(`S`) still sits at its old position (`finalMask`).  `g` are the planner's suppression decisions. -/
theorem ios_plan_final_state (M : List Cell)
    (hboth : (M.any fun c => c.old && c.new) = true) (hjunk : noJunk M = true)
    (hruns : runsShort M)
    (hno : ((olds M).map (·.mkey)).Nodup) (hnn : ((news M).map (·.mkey)).Nodup)
    (dev : IosAcl) (hdev : iosLines dev = olds M) :
    ∃ (g : Nat → Bool) (tr : List IosAcl) (s : IosAcl),
      planIOS M = (addIdx M).flatMap (cellOpsG M g) ++ delsOf M ∧
      iosTrace (iosReseq dev 10000 10000) (planIOS M) = some tr ∧
      (iosReseq dev 10000 10000 :: tr).getLast? = some s ∧
      iosLines s = masked M (finalMask M ((addIdx M).filter (supprAt M g))) := by
  obtain ⟨g, hg⟩ := plan_general M hboth hnn
  have h := exec_general M hjunk hruns hno hnn g
  rw [← hg, ← reseq_numbered M dev hdev] at h
  obtain ⟨tr, ht, hl⟩ := iosExec_trace _ _ _ h
  exact ⟨g, tr, _, hg, ht, hl, numbered_lines M _⟩

/-- Suppressed moves allowed: if every suppressed move is harmless (`SupprOK`: the line kept at the
old position differs at most in `log`, and all cells between old and new position that stay on the
device have the same action or are remarks), the device ends block-equivalent (modulo `log`) to
the target — hence with the same verdict for every packet. -/
theorem ios_plan_block_equiv_of_supprOK (M : List Cell)
    (hboth : (M.any fun c => c.old && c.new) = true) (hjunk : noJunk M = true)
    (hruns : runsShort M)
    (hno : ((olds M).map (·.mkey)).Nodup) (hnn : ((news M).map (·.mkey)).Nodup)
    (dev : IosAcl) (hdev : iosLines dev = olds M)
    (hok : ∀ g : Nat → Bool, planIOS M = (addIdx M).flatMap (cellOpsG M g) ++ delsOf M →
      SupprOK LineEqv M ((addIdx M).filter (supprAt M g))) :
    ∃ tr s, iosTrace (iosReseq dev 10000 10000) (planIOS M) = some tr ∧
      (iosReseq dev 10000 10000 :: tr).getLast? = some s ∧
      BlockEqG LineEqv (iosLines s) (news M) ∧ ∀ p, eval (iosLines s) p = eval (news M) p := by
  obtain ⟨g, tr, s, hg, ht, hl, hs⟩ := ios_plan_final_state M hboth hjunk hruns hno hnn dev hdev
  have hbe : BlockEqG LineEqv (iosLines s) (news M) := by
    rw [hs]
    exact finalMask_blockEq LineEqv (fun _ _ _ h => h.swappable) M hno hnn _
      (fun j hj => (List.mem_filter.mp hj).1)
      (List.Nodup.sublist List.filter_sublist
        (List.Nodup.sublist List.filter_sublist List.nodup_range)) (hok g hg)
  exact ⟨tr, s, ht, hl, hbe, fun p => hbe.eval_eq (fun _ _ h => h.sem) p⟩

/-- `ios_plan_block_equiv` for ACLs WITHOUT remark lines (the complement of F-C02r): whatever moves
the planner suppresses, the strict device accepts the plan and ends block-equivalent to the target
modulo `log` (`BlockEqG LineEqv`: same-action swaps, and lines replaced by lines with the same
`mkey`, action and match), with the same verdict for every packet.  `hwf`: `mkey` determines
action and match (it is the line text without `log`). -/
theorem ios_plan_block_equiv_partial (M : List Cell)
    (hboth : (M.any fun c => c.old && c.new) = true) (hjunk : noJunk M = true)
    (hruns : runsShort M)
    (hno : ((olds M).map (·.mkey)).Nodup) (hnn : ((news M).map (·.mkey)).Nodup)
    (hnr : ∀ c ∈ M, c.line.remark = false)
    (hwf : ∀ i ∈ delIdx M, ∀ j ∈ addIdx M,
      (M.getD i default).line.mkey = (M.getD j default).line.mkey →
      LineEqv (M.getD i default).line (M.getD j default).line)
    (dev : IosAcl) (hdev : iosLines dev = olds M) :
    ∃ tr s, iosTrace (iosReseq dev 10000 10000) (planIOS M) = some tr ∧
      (iosReseq dev 10000 10000 :: tr).getLast? = some s ∧
      BlockEqG LineEqv (iosLines s) (news M) ∧ ∀ p, eval (iosLines s) p = eval (news M) p := by
  obtain ⟨g, hplan, hg⟩ := plan_general' M hboth hnn
  have h := exec_general M hjunk hruns hno hnn g
  rw [← hplan, ← reseq_numbered M dev hdev] at h
  obtain ⟨tr, ht, hl⟩ := iosExec_trace _ _ _ h
  have hbe : BlockEqG LineEqv
      (iosLines (numbered M (finalMask M ((addIdx M).filter (supprAt M g))))) (news M) := by
    rw [numbered_lines]
    exact finalMask_blockEq LineEqv (fun _ _ _ h => h.swappable) M hno hnn _
      (fun j hj => (List.mem_filter.mp hj).1)
      (List.Nodup.sublist List.filter_sublist
        (List.Nodup.sublist List.filter_sublist List.nodup_range))
      (supprOK_noremark LineEqv (fun _ _ h => h.act) M hjunk hruns hnr hwf g hg)
  exact ⟨tr, _, ht, hl, hbe, fun p => hbe.eval_eq (fun _ _ h => h.sem) p⟩

/-- The same with pure swaps (`BlockEq`), if no moved line changes its `log` attribute. -/
theorem ios_plan_block_equiv_exact_partial (M : List Cell)
    (hboth : (M.any fun c => c.old && c.new) = true) (hjunk : noJunk M = true)
    (hruns : runsShort M)
    (hno : ((olds M).map (·.mkey)).Nodup) (hnn : ((news M).map (·.mkey)).Nodup)
    (hnr : ∀ c ∈ M, c.line.remark = false)
    (hsame : ∀ i ∈ delIdx M, ∀ j ∈ addIdx M,
      (M.getD i default).line.mkey = (M.getD j default).line.mkey →
      (M.getD i default).line = (M.getD j default).line)
    (dev : IosAcl) (hdev : iosLines dev = olds M) :
    ∃ tr s, iosTrace (iosReseq dev 10000 10000) (planIOS M) = some tr ∧
      (iosReseq dev 10000 10000 :: tr).getLast? = some s ∧
      BlockEq (iosLines s) (news M) ∧ ∀ p, eval (iosLines s) p = eval (news M) p := by
  obtain ⟨g, hplan, hg⟩ := plan_general' M hboth hnn
  have h := exec_general M hjunk hruns hno hnn g
  rw [← hplan, ← reseq_numbered M dev hdev] at h
  obtain ⟨tr, ht, hl⟩ := iosExec_trace _ _ _ h
  have hbe : BlockEq
      (iosLines (numbered M (finalMask M ((addIdx M).filter (supprAt M g))))) (news M) := by
    rw [numbered_lines]
    apply BlockEqG.toBlockEq
    exact finalMask_blockEq Eq (fun _ _ _ h hs => h ▸ hs) M hno hnn _
      (fun j hj => (List.mem_filter.mp hj).1)
      (List.Nodup.sublist List.filter_sublist
        (List.Nodup.sublist List.filter_sublist List.nodup_range))
      (supprOK_noremark Eq (fun _ _ h => h ▸ rfl) M hjunk hruns hnr hsame g hg)
  exact ⟨tr, _, ht, hl, hbe, fun p => hbe.eval_eq p⟩

/-! ## 4. Witnesses -/

namespace W
def dA : Line := { key := 1, mkey := 1, permit := false, mask := 3 }
def rN : Line := { key := 2, mkey := 2, permit := false, remark := true }
def pA : Line := { key := 3, mkey := 3, permit := true, mask := 3 }
def pT : Line := { key := 4, mkey := 4, permit := true, mask := 1 }
def dAny : Line := { key := 5, mkey := 5, permit := false, mask := 15 }
/-- device `[deny ip A, remark n1, permit ip A, permit tcp A, deny ip any]` -/
def devR : List Line := [dA, rN, pA, pT, dAny]
/-- target `[permit tcp A, remark n1, deny ip A, permit ip A]` -/
def tgtR : List Line := [pT, rN, dA, pA]
/-- the ranges `myers.Diff` returns for these two lists -/
def rangesR : List Range := [⟨0,1,0,0⟩, ⟨1,1,0,1⟩, ⟨1,2,1,2⟩, ⟨2,2,2,3⟩, ⟨2,3,3,4⟩, ⟨3,5,4,4⟩]
def MR : List Cell :=
  [⟨dA, true, false⟩, ⟨pT, false, true⟩, ⟨rN, true, true⟩, ⟨dA, false, true⟩, ⟨pA, true, true⟩,
   ⟨pT, true, false⟩, ⟨dAny, true, false⟩]

def p1 : Line := { key := 1, mkey := 1, permit := true, mask := 1 }
def p2 : Line := { key := 2, mkey := 2, permit := true, mask := 2 }
def p3 : Line := { key := 3, mkey := 3, permit := true, mask := 4 }
def pM : Line := { key := 4, mkey := 4, permit := true, mask := 24 }
def denyN : Line := { key := 5, mkey := 5, permit := false, mask := 16 }
def devS : List Line := [p1, p2, p3, pM]
def tgtS : List Line := [p1, pM, denyN, p2, p3]
def rangesS : List Range := [⟨0,1,0,1⟩, ⟨1,1,1,3⟩, ⟨1,3,3,5⟩, ⟨3,4,5,5⟩]
def MS : List Cell :=
  [⟨p1, true, true⟩, ⟨pM, false, true⟩, ⟨denyN, false, true⟩, ⟨p2, true, true⟩, ⟨p3, true, true⟩,
   ⟨pM, true, false⟩]
end W

open W in
/-- F-C02r: remark lines.  The move of `deny ip A` is suppressed (the remark behind the insert
position carries the block id of the first block), the device ends as
`[deny ip A, permit tcp A, remark, permit ip A]`: not block-equivalent to the target, and a
different verdict for packet 0 (tcp from A). -/
theorem ios_remark_suppression_counterexample :
    cellsOf devR tgtR rangesR = some MR ∧ normalised MR = true ∧ noJunk MR = true ∧
    ((olds MR).map (·.mkey)).Nodup ∧ ((news MR).map (·.mkey)).Nodup ∧
    ∃ tr s, iosTrace (iosReseq (devR.map fun l => (0, l)) 10000 10000) (planIOS MR) = some tr ∧
      tr.getLast? = some s ∧ iosLines s = [dA, pT, rN, pA] ∧
      blockEquiv (iosLines s) tgtR = false ∧ eval (iosLines s) 0 ≠ eval tgtR 0 ∧
      (planIOS' MR).2 = true := by
  refine ⟨by decide, by decide, by decide, by decide, by decide,
    [[(10000, dA), (10001, pT), (20000, rN), (30000, pA), (50000, dAny)],
     [(10000, dA), (10001, pT), (20000, rN), (30000, pA)]],
    [(10000, dA), (10001, pT), (20000, rN), (30000, pA)], by decide, by decide, by decide,
    by decide, by decide, by decide⟩

open W in
/-- Regression for the repaired F-C02: `denyN` splits the block behind the insert position, so the
move of `pM` is no longer suppressed; the plan contains it and the device reaches the target. -/
theorem ios_split_block_move_not_suppressed :
    cellsOf devS tgtS rangesS = some MS ∧
    IOp.move 40000 10001 pM ∈ planIOS MS ∧
    ∃ tr s, iosTrace (iosReseq (devS.map fun l => (0, l)) 10000 10000) (planIOS MS) = some tr ∧
      tr.getLast? = some s ∧ iosLines s = tgtS := by
  refine ⟨by decide, by decide,
    [[(10000, p1), (10001, pM), (20000, p2), (30000, p3)],
     [(10000, p1), (10001, pM), (10002, denyN), (20000, p2), (30000, p3)]],
    [(10000, p1), (10001, pM), (10002, denyN), (20000, p2), (30000, p3)],
    by decide, by decide, by decide⟩

namespace W
/-- `p1` with the `log` attribute: other text (`key`), same identity modulo `log` (`mkey`). -/
def p1log : Line := { key := 11, mkey := 1, permit := true, mask := 1 }
def rangesL : List Range := [⟨0,1,0,0⟩, ⟨1,1,0,1⟩, ⟨1,2,1,2⟩]
def ML : List Cell := [⟨p1, true, false⟩, ⟨p1log, false, true⟩, ⟨p2, true, true⟩]
end W

open W in
/-- Finding (log attribute, confirmed with the real `drc`: device `permit tcp A any eq 22`, target
`permit tcp A any eq 22 log`, a second line unchanged ⇒ empty script): a line whose only change is
the `log` attribute is a "move" inside its block, the move is suppressed, nothing is sent; the
device keeps the old attribute.  Exact convergence fails; only `BlockEqG LineEqv` holds. -/
theorem ios_log_change_lost_counterexample :
    cellsOf [p1, p2] [p1log, p2] rangesL = some ML ∧ planIOS ML = [] ∧
    news ML ≠ olds ML ∧ LineEqv p1 p1log := by
  refine ⟨by decide, by decide, by decide, by decide⟩

/-! ## Non-vacuity of the hypotheses -/

open W in
example : (MS.any fun c => c.old && c.new) = true ∧ noJunk MS = true ∧ runsShort MS ∧
    ((olds MS).map (·.mkey)).Nodup ∧ ((news MS).map (·.mkey)).Nodup ∧
    ((planIOS MS).filter IOp.isAddMove).length = (addIdx MS).length ∧
    iosLines (devS.map fun l => (0, l)) = olds MS :=
  ⟨by decide, by decide, (runsShortB_iff _).mp (by decide), by decide, by decide, by decide,
   by decide⟩

/-- a script with adds and deletes but no move -/
def MN : List Cell :=
  [⟨W.p1, true, true⟩, ⟨W.denyN, false, true⟩, ⟨W.p2, true, false⟩, ⟨W.p3, true, true⟩]

example : (MN.any fun c => c.old && c.new) = true ∧ noJunk MN = true ∧ runsShort MN ∧
    ((olds MN).map (·.mkey)).Nodup ∧ ((news MN).map (·.mkey)).Nodup ∧
    (∀ i ∈ delIdx MN, ∀ j ∈ addIdx MN,
      (MN.getD i default).line.mkey ≠ (MN.getD j default).line.mkey) :=
  ⟨by decide, by decide, (runsShortB_iff _).mp (by decide), by decide, by decide, by decide⟩

/-- a script whose only move is suppressed (the plan is empty): device `[p1,p2,p3]`, target
`[p2,p3,p1]` -/
def MX : List Cell :=
  [⟨W.p1, true, false⟩, ⟨W.p2, true, true⟩, ⟨W.p3, true, true⟩, ⟨W.p1, false, true⟩]

example : planIOS MX = [] ∧ olds MX ≠ news MX ∧
    (MX.any fun c => c.old && c.new) = true ∧ noJunk MX = true ∧ runsShort MX ∧
    ((olds MX).map (·.mkey)).Nodup ∧ ((news MX).map (·.mkey)).Nodup ∧
    (∀ c ∈ MX, c.line.remark = false) ∧
    (∀ i ∈ delIdx MX, ∀ j ∈ addIdx MX,
      (MX.getD i default).line.mkey = (MX.getD j default).line.mkey →
      (MX.getD i default).line = (MX.getD j default).line) ∧
    (∀ i ∈ delIdx MX, ∀ j ∈ addIdx MX,
      (MX.getD i default).line.mkey = (MX.getD j default).line.mkey →
      LineEqv (MX.getD i default).line (MX.getD j default).line) :=
  ⟨by decide, by decide, by decide, by decide, (runsShortB_iff _).mp (by decide), by decide,
   by decide, by decide, by decide, by decide⟩

example : BlockEq [W.p1, W.p2, W.denyN] [W.p2, W.p1, W.denyN] :=
  BlockEq.swap [] [W.denyN] W.p1 W.p2 (Or.inr (Or.inr rfl))

example : blockEquiv [W.p1, W.rN, W.p2, W.denyN] [W.p2, W.p1, W.rN, W.denyN] = true := by decide

def obligations : List Lean.Name := [
  ``ios_numbers_strictly_increasing, ``ios_runs_numbering_consistent, ``ios_runs_cells_consistent,
  ``ios_insert_by_number, ``ios_delete_by_number, ``ios_reseq_is_numbered,
  ``block_swap_same_semantics, ``blockEq_same_semantics, ``blockEquiv_same_semantics,
  ``ios_plan_converges_no_moves_partial,
  ``ios_plan_converges_no_suppression_partial, ``ios_plan_shape, ``ios_plan_final_state,
  ``ios_plan_block_equiv_partial,
  ``ios_plan_block_equiv_exact_partial,
  ``ios_remark_suppression_counterexample, ``ios_split_block_move_not_suppressed,
  ``ios_log_change_lost_counterexample]

end NA.Acl.IosAclProps
