import NA.Proofs.C15Rearm
import NA.Proofs.C15Dec
import NA.Props.C15
import NA.Proofs.C15RemoveBanner
import NA.Proofs.C15Timing
/-!
# C15, round 3: aftermath of a rejected command, and re-arm over arbitrarily many warnings

Same setting as the banner theorems of `NA/Props/C15.lean`: `gs : List Chg` any script with any
banner placements, `na` the dialogue variant of the device, `st0` the state in which `ApplyCommands`
is entered (nothing pending, empty trace).
-/
namespace NA.Ios

theorem cleanCs_of_clean (gs : List Chg) (hc : ∀ g ∈ gs, g.Clean) : CleanCs (gs.map Chg.cmd) := by
  intro c hcm
  obtain ⟨g, hg, rfl⟩ := List.mem_map.1 hcm
  have hcl := hc g hg
  have hchg : ∀ c, ChangeCmd c → ∀ x ∈ splitOnNL c, x ≠ cancelCmd ∧ x ≠ writeCmd := by
    intro c hcc x hx
    rw [splitOnNL_no_nl c hcc.clean.noNL] at hx
    simp at hx; subst hx
    have hch := hcc.change
    constructor
    · intro e; rw [e] at hch; revert hch; decide
    · intro e; rw [e] at hch; revert hch; decide
  cases g with
  | one c b => exact hchg c hcl.cmds
  | two c1 c2 b1 b2 =>
    intro x hx
    show x ≠ cancelCmd ∧ x ≠ writeCmd
    have : splitOnNL (c1 ++ '\n' :: c2) = splitOnNL c1 ++ splitOnNL c2 := splitOnNL_append_nl c1 c2
    simp only [Chg.cmd] at hx
    rw [this] at hx
    rcases List.mem_append.1 hx with h | h
    · exact hchg c1 hcl.cmds.1 x h
    · exact hchg c2 hcl.cmds.2 x h

/-- **aftermath, any left-over bytes.** Against the scripted device (either dialogue variant), from
ANY client state whose device is between two exchanges — whatever bytes an aborted `check` left in
the expect buffer — the deferred `SendCmd("end")` returns normally and the deferred `cancelReload`
completes its whole exchange (`reload cancel`, banner, empty command), empties the buffer and
clears `reloadActive`. -/
theorem aftermath_any_leftover (na : Bool) (st : St SimSt) (hparts : st.dev.parts = []) :
    (∃ L', sendCmd (simDevice [] na) endCmd st = (.ok (), { st with pend := L', trace := st.trace ++ [endCmd] })) ∧
    cancelReload (simDevice [] na) st =
      (.ok (), { st with pend := [], reloadActive := false, trace := st.trace ++ [cancelCmd, []] }) :=
  ⟨end_sim_leftover na st hparts, cancel_sim_leftover na st hparts⟩

example : ∃ st : St SimSt, st.dev.parts = [] ∧ st.pend = lit "ip route x\nrouter#garbage --- SHUTDOWN ABORTED --- \nrouter#" :=
  ⟨{ dev := {}, pend := lit "ip route x\nrouter#garbage --- SHUTDOWN ABORTED --- \nrouter#" }, rfl, rfl⟩

theorem mem_specTrace (na : Bool) (gs : List Chg) (s : Str) (h : s ∈ specTrace na gs) :
    s ∈ gs.map Chg.cmd ∨ s ∈ rearmLines na := by
  induction gs with
  | nil => cases h
  | cons g gs ih =>
    simp only [specTrace, List.mem_cons] at h
    rcases h with rfl | h
    · exact .inl (by simp)
    · cases hv : g.valid with
      | false => rw [hv] at h; simp at h
      | true =>
        rw [hv] at h
        simp only [if_true, List.mem_append] at h
        rcases h with h | h
        · cases hn : g.need with
          | false => rw [hn] at h; simp at h
          | true => rw [hn] at h; exact .inr (by simpa using h)
        · rcases ih h with h | h
          · exact .inl (by simp [h])
          · exact .inr h

/-- **rejected_run.** A command is rejected (its output has a line that is not empty/INFO/WARNING)
at ANY position of the script — first or second half of a joined line included — with banners of
any form at any offset on any line (except F-C15b placements): the run returns FAILED with the
abort raised for exactly that command (`firstBad`), the transcript is the fixed preamble, the
changes up to and including the rejected one (with their re-arm exchanges), then the deferred `end`
and the complete `reload cancel` exchange; `write memory` is never sent, no reload is left
scheduled, and the guard discipline holds. -/
theorem rejected_run (na : Bool) (gs : List Chg) (q : List Behav) (st0 : St SimSt)
    (hp : st0.pend = []) (ht : st0.trace = []) (hparts : st0.dev.parts = [])
    (hq : st0.dev.queue = gs.flatMap Chg.behavs ++ q) (hc : ∀ g ∈ gs, g.Clean ∧ g.NoProbeFirst)
    (hbad : specOk gs = false) :
    let o := applyCommands (simDevice [] na) true (gs.map Chg.cmd) st0
    (∃ ci R out, o.1 = .abort (.unexpectedOutput ci R) ∧ firstBad gs = some (ci, out) ∧
        neLines R = neLines out) ∧
    o.2.trace = prepCmds ++ schedLines na ++ [confCmd] ++ specTrace na gs ++ [endCmd] ++ [cancelCmd, []] ∧
    o.2.warns = st0.warns ++ specWarns gs ∧
    writeCmd ∉ linesOf o.2.trace ∧
    pendingAfter (linesOf o.2.trace) = false ∧
    guardOK (linesOf o.2.trace) = true ∧
    o.2.reloadActive = false := by
  intro o
  have h := apply_sim_rejected na gs q st0 hp ht hparts hq hc hbad
  have hcs := cleanCs_of_clean gs (fun g hg => (hc g hg).1)
  have hsched : (scheduleReload (simDevice [] na) (afterPrep (simDevice [] na) st0)).1 = .ok () := by
    unfold afterPrep
    rw [prepare_sim na st0 hp hparts]
    simp only
    rw [schedule_sim na { st0 with pend := [], trace := st0.trace ++ prepCmds } rfl hparts]
  refine ⟨h.1, h.2.1, h.2.2.1, ?_, ?_, ?_, h.2.2.2.1⟩
  · -- no `write memory` anywhere in the transcript
    rw [h.2.1]
    intro hm
    obtain ⟨s, hs, hx⟩ := (mem_linesOf _ _).1 hm
    have hconst : ∀ s ∈ prepCmds ++ schedLines na ++ [confCmd] ++ ([endCmd] ++ [cancelCmd, []]) ++ rearmLines na,
        writeCmd ∉ splitOnNL s := by cases na <;> decide
    simp only [failTrace, List.mem_append] at hs
    rcases hs with ((((hs | hs) | hs) | hs) | hs) | hs
    · exact hconst s (by simp [hs]) hx
    · exact hconst s (by simp [hs]) hx
    · exact hconst s (by simp at hs; simp [hs]) hx
    · rcases mem_specTrace na gs s hs with h1 | h1
      · exact (hcs s h1 _ hx).2 rfl
      · exact hconst s (by simp [h1]) hx
    · exact hconst s (by simp at hs; simp [hs]) hx
    · exact hconst s (by simp at hs; rcases hs with rfl | rfl <;> simp) hx
  · exact cancel_on_failure_partial (simDevice [] na) true _ hcs st0 ht hsched
  · exact guard_brackets_changes (simDevice [] na) true _ hcs st0 ht

/-- non-vacuity: the second half of a joined line is rejected behind a command with a one-minute
banner; a 2:00 banner sits inside the echo of the rejected line -/
example :
    let g1 := Chg.one (lit "ip route 10.1.0.0 255.255.0.0 10.9.1.1")
      { form := .afterPrompt 2, msg := lit " --- SHUTDOWN in 0:01:00 ---" }
    let g2 := Chg.two (lit "no ip route 10.2.0.0 255.255.0.0 10.8.2.1") (lit "ip route 10.2.0.0 255.255.0.0 10.9.2.2")
      { out := lit "INFO: x\n" } { form := .inside 7, msg := lit " --- SHUTDOWN in 0:02:00 ---", out := lit "% Invalid input\n" }
    g1.cleanB = true ∧ g2.cleanB = true ∧ g2.noProbeFirstB = true ∧ specOk [g1, g2] = false ∧
    firstBad [g1, g2] = some (lit "ip route 10.2.0.0 255.255.0.0 10.9.2.2", lit "% Invalid input\n") := by
  decide +kernel

/-- **rearm_count_run** — the one-minute warning over arbitrarily many warnings: in a run whose
outputs are all accepted, the number of `do reload in 2` lines the device receives equals the
number of script elements (single commands or joined lines) at least one of whose answers carried
a `SHUTDOWN in 0?0:01:00` banner — for scripts of any length with any number of such banners, in
both dialogue variants; and after the run no reload is pending. -/
theorem rearm_count_run (na : Bool) (gs : List Chg) (q : List Behav) (st0 : St SimSt)
    (hp : st0.pend = []) (ht : st0.trace = []) (hparts : st0.dev.parts = [])
    (hq : st0.dev.queue = gs.flatMap Chg.behavs ++ q) (hc : ∀ g ∈ gs, g.Clean ∧ g.NoProbeFirst)
    (hok : specOk gs = true) :
    let o := applyCommands (simDevice [] na) true (gs.map Chg.cmd) st0
    o.1 = .ok () ∧ rearms (linesOf o.2.trace) = needCount gs := by
  intro o
  have h := apply_sim_ok na gs q st0 hp ht hparts hq hc hok
  exact ⟨h.1, by rw [h.2.1]; exact rearms_fullTrace na gs (fun g hg => (hc g hg).1) hok⟩

/-- non-vacuity: three warnings on three elements (one of them on both halves of a joined line) -/
example :
    let b1 : Behav := { form := .inside 3, msg := lit " --- SHUTDOWN in 0:01:00 ---" }
    let b0 : Behav := { form := .afterPrompt 0, msg := lit " --- SHUTDOWN in 00:01:00 ---" }
    let gs := [Chg.one (lit "ip route 10.1.0.0 255.255.0.0 10.9.1.1") b1,
               Chg.two (lit "no ip route 10.2.0.0 255.255.0.0 10.8.2.1") (lit "ip route 10.2.0.0 255.255.0.0 10.9.2.2") b1 b0,
               Chg.one (lit "ip route 10.3.0.0 255.255.0.0 10.9.3.1") {},
               Chg.one (lit "ip route 10.4.0.0 255.255.0.0 10.9.4.1") b0]
    gs.all Chg.cleanB = true ∧ gs.all Chg.noProbeFirstB = true ∧ specOk gs = true ∧ needCount gs = 3 ∧
    rearms (linesOf (applyCommands (simDevice [] true) true (gs.map Chg.cmd)
      { dev := { queue := gs.flatMap Chg.behavs } }).2.trace) = 3 := by
  decide +kernel

/-! ## `removeBanner` (banner definitions in a configuration text) -/

/-- **removeBanner_clean** (see `NA/Proofs/C15RemoveBanner.lean`): for every text made of ordinary
lines and ANY number of banner definitions at ANY line positions — any delimiter character, any
number of body lines not starting with the delimiter, end line starting with it — followed by an
unterminated rest, `removeBanner` returns exactly the ordinary lines and the rest. -/
theorem removeBanner_removes_all (segs : List Seg) (t : Str) (hv : ∀ s ∈ segs, s.Valid) (ht : '\n' ∉ t) :
    removeBanner ((segs.flatMap Seg.lines).flatten ++ t) = (segs.flatMap Seg.kept).flatten ++ t :=
  removeBanner_clean segs t hv ht

example : removeBanner (lit "hostname r\nbanner motd ^CC\nhello # world\n^C\nip route 10.0.0.0 255.0.0.0 10.1.1.1\nend") =
    lit "hostname r\nip route 10.0.0.0 255.0.0.0 10.1.1.1\nend" := by decide +kernel

example : (Seg.banner (lit "banner motd ^CC\n") [lit "hello\n", lit "\n"] (lit "^C\n")).Valid :=
  ⟨⟨lit "banner motd ^CC", by decide, by decide⟩, ⟨lit "^C", by decide, by decide⟩,
   by intro l hl; simp at hl; rcases hl with rfl | rfl
      · exact ⟨lit "hello", by decide, by decide⟩
      · exact ⟨[], by decide, by decide⟩,
   '^', by decide +kernel, by decide, by decide⟩

/-- the quirk of Go's backtracking that the model mirrors: two blanks before the delimiter make the
BLANK the delimiter, and the banner then ends at the first line starting with a blank -/
example : bannerStart (lit "banner motd  x\n") = some ' ' := by decide +kernel

/-! ## timings other than the fast device -/

/-- **first_read_any_chunking.** For every answer of the scripted device (any command, any output,
any banner form/offset/message) followed by any further bytes, and EVERY way the bytes arrive — in
any number of pieces cut at any byte positions (slow echo, banner in pieces, prompt in pieces) —
the read "up to the prompt" consumes exactly what the fast-device read consumes and leaves the
same rest of the stream. -/
theorem first_read_any_chunking (ci : Str) (b : Behav) (rest buf : Str) (chunks : List Str)
    (hc : CleanCmd ci) (hb : CleanBehav b) (hr : runNoHash rest = true)
    (hsplit : buf ++ chunks.flatten = replyFor ci b ++ rest) :
    ∃ A rest' cs, expectChunks promptEnd buf chunks = some (A, rest', cs) ∧
      promptEnd (replyFor ci b ++ rest) = some A.length ∧
      A ++ (rest' ++ cs.flatten) = replyFor ci b ++ rest := by
  obtain ⟨u, v, he, hu, hv⟩ := reply_first_prompt ci b rest hc hb hr
  obtain ⟨rest', cs, h1, h2⟩ := prompt_read_chunk_independent u v buf chunks hu hv (by rw [hsplit, he])
  refine ⟨u ++ promptFull, rest', cs, h1, ?_, by rw [h2, he]⟩
  rw [he]
  exact (prompt_stable u hu).hit v hv

/-- **hash_read_any_chunking.** `WaitShort("[#] ?$")` on a `#`-free text that ends the stream with
`#` (the echo, output and prompt of a single command after a banner with fresh prompt): whatever
the pieces, it fires exactly when everything has arrived and consumes everything. -/
theorem hash_read_any_chunking (w buf : Str) (chunks : List Str) (hw : '#' ∉ w)
    (hsplit : buf ++ chunks.flatten = w ++ ['#']) :
    ∃ cs, expectChunks hashEnd buf chunks = some (w ++ ['#'], [], cs) ∧ cs.flatten = [] :=
  hash_read_chunk_independent w buf chunks hw hsplit

example : expectChunks promptEnd [] [lit "ip ro", lit "ute 1\n\nro", lit "uter", lit "#ne", lit "xt"] =
    some (lit "ip route 1\n\nrouter#", lit "ne", [lit "xt"]) := by decide +kernel

/-- **late_prompt_counterexample** (F-C15d): `TryPrompt` has time-out 0. If the fresh prompt that
follows a banner behind the output (form C) arrives LATE (`lateDevice`), `TryPrompt` misses it, the
stale prompt is taken for the answer to the NEXT command and the run aborts with `unexpected echo`,
although the same script succeeds under the fast-device timing. The guard theorems still hold
(they are proved for every device). -/
theorem late_prompt_counterexample :
    ∃ gs : List Chg, (∀ g ∈ gs, g.cleanB = true ∧ g.noProbeFirstB = true) ∧ specOk gs = true ∧
      (applyCommands (simDevice [] false) true (gs.map Chg.cmd) { dev := { queue := gs.flatMap Chg.behavs } }).1 = .ok () ∧
      (applyCommands (lateDevice (simDevice [] false)) true (gs.map Chg.cmd)
          { dev := ({ queue := gs.flatMap Chg.behavs }, []) }).1 =
        .abort (.unexpectedEcho (lit "ip route 10.2.0.0 255.255.0.0 10.9.2.1") ['\n']) ∧
      guardOK (linesOf (applyCommands (lateDevice (simDevice [] false)) true (gs.map Chg.cmd)
          { dev := ({ queue := gs.flatMap Chg.behavs }, []) }).2.trace) = true ∧
      pendingAfter (linesOf (applyCommands (lateDevice (simDevice [] false)) true (gs.map Chg.cmd)
          { dev := ({ queue := gs.flatMap Chg.behavs }, []) }).2.trace) = false :=
  ⟨[.one (lit "ip route 10.1.0.0 255.255.0.0 10.9.1.1") { form := .afterPrompt 0, msg := lit " --- SHUTDOWN in 0:02:00 ---" },
    .one (lit "ip route 10.2.0.0 255.255.0.0 10.9.2.1") {}],
   by decide +kernel, by decide +kernel, by decide +kernel, by decide +kernel, by decide +kernel, by decide +kernel⟩

end NA.Ios

namespace NA.C15Deep
def obligations : List Lean.Name :=
  [``NA.Ios.aftermath_any_leftover, ``NA.Ios.rejected_run, ``NA.Ios.rearm_count_run,
   ``NA.Ios.removeBanner_removes_all, ``NA.Ios.removeBanner_id,
   ``NA.Ios.first_read_any_chunking, ``NA.Ios.hash_read_any_chunking, ``NA.Ios.late_prompt_counterexample]
end NA.C15Deep
