import NA.Drv.All
/-! `nadrv <sub-command> [args]` — executable models and specification-side oracles behind a line protocol. -/
def main (args : List String) : IO UInt32 := do
  match args with
  | [] => IO.eprintln "usage: nadrv <sub-command> [args]"; return 2
  | cmd :: rest =>
    match NA.Drv.table.find? (·.1 == cmd) with
    | some (_, run) => run rest
    | none => IO.eprintln s!"nadrv: unknown sub-command {cmd}"; return 2
